#!/usr/bin/env python3
"""Verifies a seeded change (patch.diff + seed_demo_test.go + meta.json) and runs checks against it.

usage: tools/seedverify.py <seed-dir> [--checks C01,C02 | --all] [--tier quick]

Steps, all in a scratch git worktree of /repo under /tmp (removed afterwards):
  1. the demonstration passes on the unchanged tree,
  2. the patch applies, the tree builds, the repository's own suite passes (demo absent),
  3. the demonstration fails with the patch,
  4. the given checks are run against the patched tree (VERIF_REPO) and their verdicts printed.
Nothing is written to /repo; the result is printed as one JSON object.
"""
import json, os, shutil, subprocess, sys, tempfile, time

HERE = os.path.dirname(os.path.dirname(os.path.abspath(__file__)))
ENV = dict(os.environ, GOFLAGS="-mod=mod", GOPROXY="off", GOSUMDB="off", GOTOOLCHAIN="local")

def sh(cmd, cwd, env=ENV, timeout=3600):
    p = subprocess.run(cmd, cwd=cwd, env=env, capture_output=True, text=True, timeout=timeout)
    return p.returncode, p.stdout + p.stderr

def main():
    args = sys.argv[1:]
    seed = os.path.abspath(args.pop(0))
    checks, tier, skip_confirm = None, "quick", False
    while args:
        a = args.pop(0)
        if a == "--skip-confirm":
            # the confirmation (demonstration passes without / fails with the patch, suite passes
            # with it) was done when the change was imported and is recorded in its meta.json
            skip_confirm = True
        elif a == "--checks":
            checks = args.pop(0).split(",")
        elif a == "--all":
            checks = ["C%02d" % i for i in range(1, 21)]
        elif a == "--tier":
            tier = args.pop(0)
    meta = json.load(open(os.path.join(seed, "meta.json")))
    if checks is None:
        checks = [meta["property"]]
    wt = tempfile.mkdtemp(prefix="ivgseed_", dir="/tmp")
    os.rmdir(wt)
    res = {"seed": seed, "property": meta.get("property"), "summary": meta.get("summary"), "checks": {}}
    try:
        rc, out = sh(["git", "-C", "/repo", "worktree", "add", "--detach", wt, "HEAD"], "/")
        if rc != 0:
            res["error"] = "worktree: " + out[-300:]
            return res
        demo_dir = meta.get("demo_dir", ".")
        demo_dst = os.path.join(wt, demo_dir, "seed_demo_test.go")
        pkg = "./" + demo_dir.strip("./") if demo_dir not in (".", "", "./") else "."
        if skip_confirm:
            rc, out = sh(["git", "apply", os.path.join(seed, "patch.diff")], wt)
            if rc != 0:
                res["error"] = "patch does not apply: " + out[-300:]
                return res
            conf = meta.get("confirmed", {})
            res["demo_unchanged"] = conf.get("demo_on_unchanged_tree")
            res["suite_with_patch"] = conf.get("repository_suite_with_patch")
            res["demo_patched"] = conf.get("demo_with_patch")
            res["files_changed"] = conf.get("files_changed")
            res["demo_patched_output"] = conf.get("demo_output_with_patch", "")
            res["confirmation"] = "as recorded at import"
        # 1. demo passes on the unchanged tree
        if not skip_confirm:
          shutil.copy(os.path.join(seed, "seed_demo_test.go"), demo_dst)
          rc, out = sh(["go", "test", "-vet=off", "-count=1", "-timeout", "120s", "-run", "TestSeedDemo", pkg], wt)
          res["demo_unchanged"] = "pass" if rc == 0 else "FAIL"
          if rc != 0:
              res["demo_unchanged_output"] = out[-600:]
          os.remove(demo_dst)
          # 2. patch applies, builds, suite passes
          rc, out = sh(["git", "apply", os.path.join(seed, "patch.diff")], wt)
          if rc != 0:
              res["error"] = "patch does not apply: " + out[-300:]
              return res
          rc, out = sh(["git", "status", "--short"], wt)
          res["files_changed"] = [l[3:] for l in out.splitlines()]
          rc, out = sh(["go", "build", "./..."], wt)
          if rc != 0:
              res["error"] = "does not build: " + out[-300:]
              return res
          rc, out = sh(["go", "test", "-vet=off", "-count=1", "-timeout", "300s", "./..."], wt)
          res["suite_with_patch"] = "pass" if rc == 0 else "FAIL"
          if rc != 0:
              res["suite_output"] = "\n".join(l for l in out.splitlines() if l.startswith("--- FAIL") or l.startswith("FAIL"))[:400]
          # 3. demo fails with the patch
          shutil.copy(os.path.join(seed, "seed_demo_test.go"), demo_dst)
          rc, out = sh(["go", "test", "-vet=off", "-count=1", "-timeout", "120s", "-run", "TestSeedDemo", pkg], wt)
          res["demo_patched"] = "fail(as required)" if rc != 0 else "PASSES(not a demonstration)"
          res["demo_patched_output"] = "\n".join(out.splitlines()[:12])[:900]
          os.remove(demo_dst)
        # 4. checks
        env = dict(ENV, VERIF_REPO=wt, VERIF_EVIDENCE_DIR=wt + "/.ev", VERIF_REPLAY_DIR=wt + "/.rep")
        for cid in checks:
            t0 = time.time()
            rc, out = sh(["./check", cid, tier], HERE, env)
            sigs = [l.strip().replace("signature: ", "") for l in out.splitlines() if "signature:" in l]
            res["checks"][cid] = {"rc": rc, "violations": sum(1 for l in out.splitlines() if l.startswith("VIOLATION")), "sigs": sigs[:4], "s": round(time.time() - t0, 1),
                                  "other": [l for l in out.splitlines() if l.startswith("INCONCLUSIVE")][:2]}
    finally:
        subprocess.run(["git", "-C", "/repo", "worktree", "remove", "--force", wt], capture_output=True)
        shutil.rmtree(wt, ignore_errors=True)
        subprocess.run(["git", "-C", "/repo", "worktree", "prune"], capture_output=True)
    return res

if __name__ == "__main__":
    r = main()
    print(json.dumps(r, indent=1))
