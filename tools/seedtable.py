#!/usr/bin/env python3
"""Prints the markdown table of seeded changes (seeded/*/meta.json) for DESIGN.md section 12 / seeded/README.md."""
import json, glob, os, re

HERE = os.path.dirname(os.path.dirname(os.path.abspath(__file__)))

# Changes that the checks missed when they were first run against them, and what was strengthened.
MISSED_FIRST = {
 "C10-2": "C10 generated no *redundant* styling calls; generators now repeat the previous styling call and restate reset defaults (gen.StylingOp)",
 "C07-2": "C07/C17 always used fresh Encoders for read-backs; both now reuse dirtied objects and require zero selectors right after Reset, C17 programs contain a helper that reads the selectors back",
 "C02-1": "C02's adversarial metadata had no negative infinity (C13 and C03 did catch it); added -Inf/-NaN in every viewBox position to C02, C13 and the shared metadata assembler",
 "C03-2": "no generator produced huge finite viewBox bounds of opposite sign (max-min overflows float32); added to gen.Asm.Metadata (C03, C11) and C13",
 "C06-2": "needs numbers of two coordinate spaces to coincide (end point in viewBox units = pen in pixels); lattice mode added to C06 and C05 (integer viewBox, integer scales, operands equal to the pen's pixel coordinates)",
 "C15-3": "C15 painted one gradient per Renderer; it now paints sequences of 1-3 gradients on one Renderer and judges each",
 "C17-1": "the harness overwrote the resolution flag right after Reset; the flag is now read back after every Reset, also the first one on a zero-value Encoder",
 "C18-3": "option lists were passed as literals (len == cap); C18 tasks and C14 now pass prefix views of a shared option table with spare capacity",
 "C05b-1": "needs a Renderer that drew an earlier graphic whose viewBox has the same size at another origin; C17 got 'related metadata' pairs (B's viewBox = A's moved, B's palette = A's), C05/C06 got the earlier-graphic set-up variant",
 "C09b-3": "needs a suggested palette together with a non-default viewBox; C09's palette sub-monitor now encodes half of its palettes under a custom viewBox",
 "C03b-3": "needs Decode with a nil Destination (validation-only use); accept/reject parity of Decode(nil, ...) added to the shared comparison (C03, C11, C02)",
 "C06b-1": "needs an arc whose radii are exactly half the chord (scale-up boundary, exact semicircle); exact semicircles added to C06",
 "C06b-2": "needs the rectangle to change after Reset (SetRasterizer/Reset in the other order); order variants added to C05 and C06",
 "C07b-2": "needs a zero-value Encoder (never Reset) and a restated default LOD range; C07 feeds a zero-value Encoder in a quarter of its cases, generators restate SetLOD(0, +Inf) and SetLOD(0, 0)",
 "C11b-1": "needs an earlier listing to be looked at after a later Disassemble call (recycled output buffer); C11 holds every other listing across a Disassemble of a second graphic and compares both",
 "C12b-1": "needs target and box sizes whose product leaves the float32 range (4e19 x 4e19); a third of C12's cases now take magnitudes anywhere in 1e-25..1e28",
 "C13b-3": "needs an explicitly stored all-zero viewBox; special boxes (all zero incl. negative zeros, the default box stored explicitly, point boxes) added to C13 and to the shared metadata assembler",
 "C14b-2": "needs a full replacement equal to the default palette (64 opaque blacks); replacements equal to the default, the all-transparent and the file's own palette added to C14",
 "C14b-3": "needs a Renderer that has just decoded another graphic with the same effective palette; half of C14's decodes now reuse such a Renderer",
 "C15b-3": "needs SetRasterizer with a rectangle of another size between two paths filled with the same gradient and no register write in between; added to C15's gradient sequences",
 "C16b-1": "needs a level-of-detail range in the graphic and a rasterizer made by vec.NewRasterizer(larger image); C16's graphics now carry LOD ranges and half of its cases build rasterizers that way",
 "C16b-2": "needs one Renderer value for the stand-alone and the offset rendering (same size, other origin); half of C16's cases now use one Renderer for all renderings of the case",
 "C16b-3": "same Renderer reuse as C16b-2 (registers not reloaded when the palette is unchanged)",
 "C17b-2": "needs a never-Reset zero-value Encoder followed by Reset with the all-zero Metadata; C17's program B now also uses the all-zero, the default and history A's own metadata",
 "C17b-3": "needs history A rendered into an empty rectangle with DrawOp=Src and B rendered without re-arming DrawOp, on a non-blank image; C17's pixel pairs now model the documented one-shot DrawOp across the two decodes, over a patterned background, a quarter of them with an empty rectangle for A",
 "C18b-1": "needs a caller's palette with entries that are not valid premultiplied colours handed to Color.Resolve by pointer; C18's helper tasks now resolve against shared raw palettes, which are part of the shared-input hash",
 "C19b-2": "needs an Encoder reused after its selectors were moved (C17 and C07 caught it); C19 now runs half of its cases on destinations with a past (dirtyDestination)",
 "C10c-3": "needs more than 16 consecutive arcs in one path (C01 caught it); C10's long-random histories now contain runs of 15..65 calls of one drawing verb followed by a decode check",
 "C03c-1": "needs the largest palette (64 x 4 bytes) cut short with the stream ending right there (C13 caught the same idea); the shared metadata assembler now produces truncated palettes with consistent chunk lengths and C03 has metadata-only streams",
 "C02c-3": "was caught only as non-termination after 36 minutes (millions of curve segments per arc); the recording rasterizer now enforces the linear-activity bound online (4*len(input)+8 calls) and the decode is stopped where it is crossed: 23 s",
 "C07c-1": "needs a number register holding a negative integer <= -65; C07's exact family now also draws integers of either sign, multiples of 1/64 and 4-byte floats for number registers, not only values in [0,1]",
 "C04c-3": "needs a one-stop gradient after a gradient with two or more stops on the same Renderer; paths with NSTOPS < 2 were not judged at all, now the property's own clause is applied to them (activity with a fully transparent paint is a violation) and C17's programs contain such gradients after histories that painted a real one",
 "C20c-1": "needs a transform whose net scale is exactly (1,1) with a translation; C20 now draws scale factors from {1,-1,2,0.5} in a quarter of its cases, factors that cancel, and zero translations",
 "C20c-3": "needs an icon whose paths use exactly six distinct opacities (all six opacity registers); a quarter of C20's icons now have 6..10 paths with mostly new opacities (and the choice of a reused opacity no longer depends on Go's map order)",
 "C17c-1": "state in a different object: the Generator in front of the Encoder remembers the last gradient across Reset; C17 now keeps one Generator for the Encoder's lifetime and encodes the same program again on the same objects, C19 writes the same gradient into the previous graphic first",
 "C17c-2": "needs the last path of the previous graphic to be undrawn and the first path of the next to be gradient-filled; C17's histories now end that way in a third of the cases and a third of its programs start with the gradient path",
 "C17c-3": "needs the 'fresh' object to be a never-Reset zero-value Encoder; C17 now also encodes B on one (when B's metadata is the default) and compares it with the Reset ones",
 "C18c-2": "needs a transform slice shared between pipelines and passed with '...'; C18's generator tasks now share one (plus Concat on it), and it is part of the shared-input hash",
 "C18c-3": "needs a shared stop list that is not in increasing offset order; added to C18's shared inputs",
 "C16c-3": "only shows when the scaled graphic is expressed through the library's Encoder (+64/+128 land on the boundary of the coordinate forms; C01 and C07 caught it); a third of C16's graphics are now exact in every number and half of their offset and scaled renderings go through Encoder and Decode",
 "C16dD-2": "needs an Alpha image, an opaque flat colour and a target rectangle at (0,0) that is narrower than the image; C16's offset relation never used a zero offset, now an eighth of the cases do (and another quarter a zero x or y)",
 "C01dD-3": "needs PaletteIndexColor/CRegColor called with an index >= 64 (C09 caught it); the generators now pass any uint8 to the constructors, which reduce it modulo 64",
 "C20dE-1": "needs a Generator whose transform is reset by SetTransform() with no arguments; C20 now resets and replaces transforms on a Generator that already had one",
 "C17dC-4": "needs program B to have a viewBox without extent (legal) on a reused Renderer; a tenth of C17's programs now have one (rasterizer logs only: non-finite coordinates are not handed to golang.org/x/image/vector)",
 "C06e-2": "a codec fault (arcs beyond the 16th of an encoded run) filed under C06; C06 now also judges an arc that reaches the Renderer as the last of an encoded and decoded run of 1..34 arcs, all numbers exact",
 "C06e-3": "needs the Renderer to be driven through ivg.DestinationLogger; C04, C05 and C06 now route one run in 8..12 through the logger (C07 already did)",
 "C10e-1": "needs 256 or more consecutive calls of one drawing verb (8-bit counter); C10's runs, the program generator and C07 now include runs of 255..513",
 "C01e-2": "needs a read accessor (CSel/NSel/LOD) called in the middle of a path; C01 now interleaves accessor reads with its programs (C10 already did)",
 "C03e-2": "needs two metadata chunks, the second ill-formed, and the metadata-only entry point; DecodeViewBox parity (accept/reject and viewBox) is now part of the shared comparison of C03, C11 and C02",
 "C05e-2": "needs an empty target rectangle and a rasterizer whose own bounds are not empty; C05 now has empty targets on a pre-sized rasterizer",
 "C19e-2": "the gradient was shifted by the rectangle origin (C15 and C16 caught it); C19's geometry now also demands that Draw aligns the paint with the rectangle",
 "C20e-1": "needs an arc rotation of a full turn or more; path strings now spell rotations up to +-800 degrees",
 "C20e-2": "needs a circle of radius 0; added to C20's circle lists",
 "C20e-3": "needs two distinct opacities with the same 8-bit blend weight (0.5, 0.501); added to the opacity pool",
 "C12e-1": "needs a box whose aspect ratio overflows float32; C12 now draws from the edges of the float32 range (see DESIGN 6.12 for what is judged there)",
 "C12e-2": "needs a box a few subnormal steps wide; same family",
 "C12e-3": "needs a target above 1.7e38 with alignment exactly 0.5; same family",
 "C04e-1": "needs a zero- or NaN-radius arc inside a path that is not painted; C04's path bodies now contain degenerate arcs",
 "C04e-2": "needs exactly 256*k register writes between two paths filled through the same gradient value (8-bit generation counter); C04 now has such stretches of 254..513 writes, one of which changes a stop colour",
 "C08e-1": "needs a never-Reset zero-value Encoder with the resolution flag set before the first call (C01 caught the same change); half of C08's high-resolution blocks now encode that way",
 "C08e-3": "needs low-resolution arc radii below 1/128, a number role C08 did not sweep; new exhaustive sweep through AbsArcTo radii",
 "C02e-2": "needs 256 or more consecutive operations of one kind decoded into an Encoder (endless loop); C02 now generates such inputs, and the per-case CPU budget of that family is 8 s",
 "C09e-1": "needs a direct colour equal to an entry of a non-default suggested palette; C09's palette cases now write three such register colours, the program generator one in six",
 "C09e-2": "needs a hand-made 1-byte-format palette with indirect entries (C13 caught it); added to C09's palette cases against the reference",
 "C09e-3": "needs a decode option together with a suggested palette (C14 caught it); C09 now decodes every palette once more with an option that restates one entry",
 "C07e-2": "the 8-bit run counter again (C10 and C01 caught it); C07's histories now contain runs of 255..300",
 "C15e-1": "needs a gradient-filled rectangle that overhangs the image at the top or left; a quarter of C15's pixel cases now do",
 "C15e-3": "only reachable through the exported render.AppendRanges called piecewise on a slice without spare capacity; new sub-monitor that uses render.Gradient, AppendRanges and MakeRange directly",
 "C18e-1": "needs a shared mdicons.Path with a fill-opacity and no opacity; added to C18's shared inputs (hash over the pointed-to values)",
 "C18e-2": "needs Scale called with one factor handed over as a slice of a shared table with spare capacity; added to C18's generator tasks",
 "C16e-3": "PaletteIndexColor with an index >= 64 again (C09 and C01 caught it); C16, C14 and C04 now pass any uint8 too",
 "C17e-3": "needs a caller-held transform slice spread into SetTransform for every graphic (C20 caught it); C17's helper step now does that through its long-lived Generator",
 "C20f-1": "needs Reset to reach the destination through the Generator after SetTransform; a fifth of C20's generator cases now start the graphic that way",
 "C20f-2": "needs a path with an explicit opacity of exactly 1 and a different fill-opacity; C20's icons now carry both attributes in all combinations",
 "C20f-3": "needs a well-formed SetPathData after a malformed one on the same Generator and destination; added (what the malformed call does is not judged)",
 "C06f-1": "needs a regular arc, a zero-radius arc and a regular arc in a row; C06's judged arc now follows 1..3 other arcs (a quarter of them degenerate) also by direct calls",
 "C15f-3": "needs a gradient path directly after a path that was not painted (C17 and C04 caught it); a quarter of C15's gradients now follow such a path",
 "C19f-2": "needs Reset while a rectangle of another size is set, the real rectangle afterwards; a quarter of C19's direct renderings are now set up in that order",
 "C08f-3": "needs an arc rotation of exactly one turn; C08 accepted out == 1 for any input whose fractional part is (nearly) 0, now a whole number of turns must come out as the 1-byte zero",
 "C11f-2": "needs two palette chunks (identifiers repeat); C11 now lists and decodes such sections and applies the listing chunk by chunk",
 "C01f-3": "needs a viewBox whose extent exceeds float32 (C13 caught it); added to C01's programs (nothing is rendered there)",
 "C10f-3": "needs Reset with a viewBox on the boundary of validity (no extent, or extent beyond float32); added to C10's Reset arguments",
 "C03f-2": "needs an invalid viewBox chunk followed by a valid one; repeated identifiers were skipped wholesale as a don't-care, now a chunk that is invalid in itself must be refused whatever follows (C03, C13)",
 "C17f-2": "needs Bytes called in the middle of a run; C17 now also encodes every program with Bytes/CSel/NSel read between the calls and demands the same bytes",
 "C18f-1": "needs SetTransform() followed by SetTransform(T...) on one Generator while others use the zero-argument form; added to C18's generator tasks",
 "C18f-2": "needs one render.Gradient read by several goroutines; C18's helper tasks now share one (At, accessors)",
 "C18f-3": "needs callers that edit the slice StopOffsets returned; same shared Gradient",
 "C13f-1": "the invalid-then-valid viewBox chunks again (C03 caught it); C13 now has sections with repeated identifiers too",
 "C02f-1": "needs a declared chunk length that is right modulo 65536 only; C02's adversarial metadata now has lengths wrong by 2^8, 2^16, 2^24 multiples",
 "C02f-3": "needs a run of more than five million selector opcodes (recursion per opcode, stack exhaustion); new sub-monitor with 5..9 MiB inputs of one short instruction repeated",
 "C14f-2": "needs the same graphic decoded twice into one Renderer under different options, its first colour write being indirect and equal to its last; C14's graphics are now built that way and half of the reuse cases decode them first with another colour at that entry",
 "C03g-2": "needs an unknown chunk identifier that equals 0 or 1 in its low 8 bits (C13 caught it); the shared metadata assembler now writes unknown identifiers of such values",
 "C15g-2": "needs At called beyond +-1e9; C15's gradient-type sub-monitor now samples padded linear gradients at +-2^31 against the first/last colour",
 "C15g-3": "needs a pixel centre exactly on a stop offset whose range width w has w*(1/w) != 1; the gradient-type sub-monitor now puts stops on 64ths under a dyadic map and demands the exact stop colour",
 "C20g-1": "needs a Generator value copied after SetTransform and the copy re-configured; a sixth of C20's generator cases now do that",
 "C20g-2": "needs a number beyond the float32 range written out digit by digit; path strings now contain such numbers (what an affine map makes of an infinite operand is not judged, that the operation is emitted is)",
 "C05g-1": "needs a rectangle overhanging the image top/left and a path that does not cover all of it; C15's pixel cases now have half-covering paths over a sentinel-filled image",
 "C10g-1": "needs a palette that mixes 1-byte-only and 2-byte-only colours in a particular order (C01 and C09 caught it); C10's Reset arguments now include mixed palettes",
 "C10g-3": "needs the palette colour 40404040 among 1-byte colours; same",
 "C06g-1": "needs a rotation of a negative odd number of quarter turns with rx != ry; C06 now draws whole quarter turns of either sign",
 "C17g-1": "needs program B to be a blank graphic (Reset only) and an observable other than the rasterizer log; C17 now has blank B and reads the selectors back after the decode",
 "C17g-2": "needs LOD() as the very first call on a never-Reset Encoder with the resolution flag set; added to C17's zero-value run",
 "C17g-3": "needs a rectangle of the same size at another origin between the two decodes (C16 caught it); added to C17's rectangle variants",
 "C04g-2": "needs a Renderer value copied after SetRasterizer; an eighth of C04's direct programs now run on a copy",
 "C02g-2": "needs the Draw rectangle to be compared with the target (C05 and C16 caught it); C02's recording rasterizer now checks it at every Draw",
 "C02g-3": "needs Decode into a DestinationLogger in its Alt format on default metadata; an eighth of C02's inputs are now also decoded through the logger and the calls compared",
 "C07g-3": "needs an arc rotation of hundreds of turns driven directly (the Encoder reduces it); C06 now has rotations of -4096..4096 turns plus an exact fraction",
 "C01g-1": "needs an Encoder whose previous graphic latched a protocol error (C17 and C10 caught it); the shared past-history helper now ends a third of its histories with a protocol violation",
 "C01g-2": "needs the Alt log format and a relative smooth quadratic (C05 caught it); an eighth of C01's transcoding hops now go through the logger",
 "C18g-1": "needs two graphics of the same length in one reused buffer (a memo keyed by address and length); C18's viewBox tasks now do that and compare with the same bytes in a slice of their own",
 "C18g-2": "needs a shared stop list with two stops at one offset given to Gradient.Init; added to C18's helper tasks",
 "C15h-2": "needs a reflected gradient offset of magnitude 2^63 or more; C15's exact matrices now reach 2^100 (every such offset is an even whole number of periods)",
 "C20h-1": "needs mdicons.ParseFile itself with circles and a first path from the converter's table of left-out paths; C20 got a whole-icon sub-monitor that writes SVG documents to scratch files and compares the literal ParseFile writes with the composition of its paths and circles",
 "C20h-2": "needs ParseFile and a table path with another fill attribute; same sub-monitor",
 "C04h-1": "needs a DecodeOption written by the caller (an exported function type) that puts a nonsensical colour into the palette; C14's option lists now contain such options (caught by C14, whose text it breaks)",
 "C10h-1": "needs the exported resolution field assigned inside an open path (C01 caught it); half of C10's random histories now assign the field at arbitrary moments and the model latches it at StartPath",
 "C10h-2": "needs the same plus a close-and-move inside that path; same",
 "C17h-2": "needs history A to be graphic B itself in another colour theme (same calls, same number of register writes, byte-identical gradient descriptor, other palette) decoded into the same rectangle; a sixth of C17's renderer pairs are now that",
 "C01h-2": "needs a viewBox equal to the default in three coordinates; the shared viewBox generator now produces the default with one coordinate changed",
 "C02h-2": "needs the rasterizer behind raster.RasterizerLogger and a gradient-filled path; a sixteenth of C02's Renderer passes now go through that wrapper",
 "C02h-3": "needs Decode into a DestinationLogger that wraps nothing; added to C02 for a thirty-second of its inputs",
 "C18h-1": "needs mdicons.ParseFile over several documents whose path elements carry optional attributes at the same positions; C18 got a ParseFile pipeline over shared documents on disk, each result compared with the graphic its document spells",
 "C06h-1": "needs a target of 4096 pixels or more in height and an arc of more than half a turn; a tenth of C06's targets are now 1024..16384 pixels in each direction",
 "C07h-2": "needs a directly driven Renderer that is given its rasterizer after Reset (C06 and C19 caught it); a quarter of C07's direct pipelines now do that",
 "C06i-1": "needs, earlier in the same path, an arc on the very same ellipse whose radii are too small for its chord; an eighth of C06's direct cases now start with such an arc and a line back",
 "C06i-2": "needs a shallow arc whose radii are thousands to millions of times its chord (the relative on-ellipse tolerance says nothing there); C06 got a shallow family judged in pixels: at least |r-1|*min(radii)*min(scales) px off, tolerance 0.02 px plus float32 rounding of the pixel coordinates",
 "C10i-1": "needs the zero value of the palette array; the shared palette generator now returns uniform palettes (all transparent, all white, ...) one time in twelve",
 "C15i-1": "needs an offset within 1e-9 outside [0,1]; C15's exact matrices now include slopes of 2^-30..2^-45 per pixel around exactly 0 or 1",
 "C18i-1": "needs a document with seven distinct opacities (an error on the unchanged tree, the same every time); C18's shared documents now include one",
 "C18i-2": "needs mdicons.Statistics.Add on a shared summary whose lists have spare capacity; every ParseFile pipeline of C18 now accumulates the shared summary and its own, and the shared lists are hashed up to their capacity",
 "C20i-1": "needs an svg root whose width/height differ from the configured size; C20's documents now carry no, equal or other width/height attributes",
 "C05i-1": "needs a DecodeOption written by the caller that replaces the viewBox; C14's caller-written options now sometimes do, and the viewBox given to Reset must be the Metadata's after all options",
 "C02i-1": "needs one path holding a single run of millions of H/h/V/v operations decoded into an Encoder (quadratic copying); C02's huge inputs now include such runs, decoded into an Encoder and a Renderer under the per-case CPU limit",
 "C05j-1": "needs the rasterizer behind raster.RasterizerLogger and a relative close-and-move (the Renderer asks its rasterizer for the pen); an eighth of C05's runs now put that wrapper between the Renderer and the recording rasterizer (added while the round-10 deliveries were coming in)",
 "C12j-1": "needs the exported names ivg.Min/Mid/Max instead of numbers; C12 now passes the named constants one time in six and requires them to denote 0, 0.5 and 1",
 "C20j-3": "needs an opacity of exactly 0 (the converter generator avoided it); 0 is now one of the opacities (added while the round-10 deliveries were coming in)",
 "C11j-1": "needs the disivg command writing with -o into a file that already holds a longer listing; every other run of C11's binary sub-monitor now writes to one and the same file",
 "C18j-1": "needs mdicons.ParseDir on two icon trees with the same names and different PNG sizes; C18's ParseFile pipeline now also converts two such trees and compares listing, file count and PNG totals with what the trees were written with (added while the round-10 deliveries were coming in)",
 "C12k-2": "needs a viewBox whose far corner is exactly at the origin (MaxX = MaxY = 0); a quarter of C12's ordinary boxes now touch an axis or the origin with any of their edges or corners, and the boundary list holds five such boxes",
 "C02k-1": "needs a target rectangle described with Min.X > Max.X (a struct literal); C02 now renders into rectangles inverted in x, in y and in both, and the recording rasterizer reports a Reset with a negative size online",
 "C04k-2": "needs an empty target rectangle that still has a height, and level-of-detail bounds that separate 0 from that height; C04's empty targets are now of every kind (no width, no height, inverted) with such bounds (first caught by C02 and C05 only)",
 "C15k-1": "needs gradient stop colours that were never written but are the values Reset initialised the registers with; one gradient in five of C15 now takes its stops from the custom palette (first caught by C04, C14 and C17 only)",
 "C14k-1": "needs a Decode that fails after its options were applied, followed by a Decode with single-index overrides; a quarter of C14's cases now follow such a failed call (first caught by C02, C17 and C18 only)",
 "C09k-1": "needs a register holding a value that cannot be painted itself, used as the operand of a later blend inside a Renderer; new sub-monitor C09 renderer-registers (first caught by C04 only)",
 "C06k-1": "needs an Encoder that was Reset while a path with buffered operations was open, and an arc in the first run of the next graphic; C06's encoded route now uses an Encoder with a past half of the time (first caught by C17 only)",
 "C05k-1": "a decoder fault (repeat count of relative line runs of 17..32) filed under the geometry property; caught by C03 and C01, whose subject it is - C05 feeds drawing operations to the Renderer directly",
 "C05k-2": "an encoder fault (run length counted in uint8) filed under the geometry property; caught by C01 and C07, whose subject it is",
 "C20-2": "SetTransform was called once with literals; C20 now configures the generator twice from a caller-held slice and checks that the slice is unchanged",
}

def main():
    rows = []
    for d in sorted(glob.glob(os.path.join(HERE, "seeded", "*"))):
        mf = os.path.join(d, "meta.json")
        if not os.path.exists(mf):
            continue
        m = json.load(open(mf))
        name = os.path.basename(d)
        caught = []
        for c, v in m.get("ran", {}).items():
            if v["exit"] == 1 and v["violation_lines"] > 0:
                sig = (v["signatures"] or [""])[0]
                sig = re.sub(r" x\d+$", "", sig)
                caught.append("%s (`%s`)" % (c, sig.split("/", 1)[1] if "/" in sig else sig))
        rows.append((name, m.get("breaks_property"), (m.get("summary") or "").replace("|", "/"), (m.get("needs") or "").replace("|", "/"), "; ".join(caught) or "**not caught**", MISSED_FIRST.get(name, "")))
    print("| Id | Breaks | Change (one sentence by its author) | Needs, to manifest | Caught by quick check (first signature) | Missed at first? What was strengthened |")
    print("|----|--------|--------------------------------------|--------------------|------------------------------------------|------------------------------------------|")
    for r in rows:
        print("| %s | %s | %s | %s | %s | %s |" % (r[0], r[1], r[2][:260], r[3][:260], r[4], r[5] or "no"))
    n = len(rows)
    missed = sum(1 for r in rows if r[5])
    notcaught = sum(1 for r in rows if r[4] == "**not caught**")
    print()
    print("%d seeded changes; %d were missed when first run and led to stronger checks; %d are not caught now." % (n, missed, notcaught))

main()
