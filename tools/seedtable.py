#!/usr/bin/env python3
"""Prints the markdown table of seeded changes (seeded/*/meta.json) for DESIGN.md section 12 / seeded/README.md."""
import json, glob, os, re

HERE = os.path.dirname(os.path.dirname(os.path.abspath(__file__)))

# Changes that the checks missed when they were first run against them, and what was strengthened.
MISSED_FIRST = {
 "C10-2": "C10 generated no *redundant* styling calls; generators now repeat the previous styling call and restate reset defaults (gen.StylingOp)",
 "C07-2": "C07/C17 always used fresh Encoders for read-backs; both now reuse dirtied objects and require zero selectors right after Reset, C17 programs contain a helper that reads the selectors back",
 "C02-1": "C02's adversarial metadata had no negative infinity (C13 and C03 did catch it); added -Inf/-NaN in every viewBox position to C02, C13 and the shared metadata assembler",
 "C03-2": "no generator produced huge finite viewBox bounds of opposite sign (max-min overflows float32); added to gen.Asm.Metadata (C03, C11) and C13",
 "C06-2": "needs numbers of two coordinate spaces to coincide (end point in viewBox units = pen in pixels); lattice mode added to C06 and C05 (integer viewBox, integer scales, operands equal to the pen's pixel coordinates)",
 "C15-3": "C15 painted one gradient per Renderer; it now paints sequences of 1-3 gradients on one Renderer and judges each",
 "C17-1": "the harness overwrote the resolution flag right after Reset; the flag is now read back after every Reset, also the first one on a zero-value Encoder",
 "C18-3": "option lists were passed as literals (len == cap); C18 tasks and C14 now pass prefix views of a shared option table with spare capacity",
 "C20-2": "SetTransform was called once with literals; C20 now configures the generator twice from a caller-held slice and checks that the slice is unchanged",
}

def main():
    rows = []
    for d in sorted(glob.glob(os.path.join(HERE, "seeded", "*"))):
        mf = os.path.join(d, "meta.json")
        if not os.path.exists(mf):
            continue
        m = json.load(open(mf))
        name = os.path.basename(d)
        caught = []
        for c, v in m.get("ran", {}).items():
            if v["exit"] == 1 and v["violation_lines"] > 0:
                sig = (v["signatures"] or [""])[0]
                sig = re.sub(r" x\d+$", "", sig)
                caught.append("%s (`%s`)" % (c, sig.split("/", 1)[1] if "/" in sig else sig))
        rows.append((name, m.get("breaks_property"), (m.get("summary") or "").replace("|", "/"), (m.get("needs") or "").replace("|", "/"), "; ".join(caught) or "**not caught**", MISSED_FIRST.get(name, "")))
    print("| Id | Breaks | Change (one sentence by its author) | Needs, to manifest | Caught by quick check (first signature) | Missed at first? What was strengthened |")
    print("|----|--------|--------------------------------------|--------------------|------------------------------------------|------------------------------------------|")
    for r in rows:
        print("| %s | %s | %s | %s | %s | %s |" % (r[0], r[1], r[2][:260], r[3][:260], r[4], r[5] or "no"))
    n = len(rows)
    missed = sum(1 for r in rows if r[5])
    notcaught = sum(1 for r in rows if r[4] == "**not caught**")
    print()
    print("%d seeded changes; %d were missed when first run and led to stronger checks; %d are not caught now." % (n, missed, notcaught))

main()
