#!/usr/bin/env python3
"""Prints the observation counters of evidence/<id>.json: tools/evshow.py C12 [substring]"""
import json, sys, os
HERE = os.path.dirname(os.path.dirname(os.path.abspath(__file__)))
d = json.load(open(os.path.join(HERE, "evidence", sys.argv[1] + ".json")))
pat = sys.argv[2] if len(sys.argv) > 2 else ""
print(d["verdict"], d["tier"], "seed", d["seed"], "wall", d["wall_s"])
sm = d["coverage"]["sub_monitors"]
if isinstance(sm, dict):
    sm = [dict(v, name=k) for k, v in sm.items()]
for s in sm:
    if isinstance(s, str):
        print(s[:300]); continue
    obs = s.get("observed_counts") or {}
    print("-", s.get("name"), "evals", s.get("evaluations"), {k: v for k, v in obs.items() if pat in k})
