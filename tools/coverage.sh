#!/bin/bash
# Development aid: which statements of the library do the workloads reach?
# usage: tools/coverage.sh [cases-per-sub-monitor]   (prints per-function coverage below 100 %)
cd "$(dirname "$0")/.."
export GOFLAGS=-mod=mod GOPROXY=off GOSUMDB=off GOTOOLCHAIN=local
out=$(mktemp -d)
VERIF_COVERAGE=${1:-300} go test -tags verif -count=1 -timeout 60m -run TestLibraryCoverage \
  -coverpkg=github.com/reactivego/ivg,github.com/reactivego/ivg/decode,github.com/reactivego/ivg/encode,github.com/reactivego/ivg/render,github.com/reactivego/ivg/generate,github.com/reactivego/ivg/mdicons,github.com/reactivego/ivg/raster/vec \
  -coverprofile=$out/cover.out ./internal/props/ > $out/test.log 2>&1
tail -3 $out/test.log
go tool cover -func=$out/cover.out | grep -v "100.0%" | grep -v "verif_" 
cp $out/cover.out /tmp/ivgverif-cover.out
rm -rf $out
