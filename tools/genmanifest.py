#!/usr/bin/env python3
"""Regenerates /verif/MANIFEST.json from the table below.

A property is claimed as soon as its check is registered in BUILT; everything
else is listed under not_applicable with the reason it is not claimed (yet).
"""
import json, os, subprocess, sys

HERE = os.path.dirname(os.path.dirname(os.path.abspath(__file__)))

# id -> (technique, level text, level note, design ref)
CHECKS = {
 "C01": ("trace-vs-trace differential monitor (program -> Encoder -> real Decoder -> recorder) with per-kind numeric rule; multi-hop transcoding of decoder-accepted streams",
         "Runtime monitoring: every generated program is run through the real Encoder and Decoder and the recorded call trace is compared op by op with the input under the format's quantisation rules; decoder-accepted streams (corpus, mutated corpus, hand-assembled non-canonical streams) are transcoded 4 hops and compared hop to hop. Held on the executions produced; the number and colour spaces themselves are covered exhaustively by C08/C09.",
         "Trusted: the recorder (rec.Dest), the per-kind tolerance rules (exact / 30-bit float / nearest 1/64 / angle mod 1) written from the specification. Streams ending inside an unterminated path are compared up to the last ended path (DESIGN 6.9).",
         "4 C01"),
 "C02": ("invariant monitors at the Destination/Rasterizer boundary under a hostile-input workload; crash containment via per-shard child processes and a CPU-time watchdog; -race/checkptr build in the thorough tier",
         "Runtime monitoring of safety invariants on every delivered call for ~1M (quick) hostile inputs: every truncation and byte substitutions of a 971-graphic corpus, splices, random tails, adversarial metadata. Oracles: no panic, input unmodified, nil or DecodeError, nothing before valid metadata, first call Reset, calls <= bytes, <= 4 cubics per arc, prefix-monotone delivery. Non-termination is decided by a CPU-time (not wall-clock) watchdog on an isolated case.",
         "Trusted: Go's bounds/nil checks surface memory errors as panics (no unsafe/cgo in the library); the independent reference parser for the 'metadata invalid => no calls' oracle; x/image/vector is only put behind the renderer for moderate coordinates (its own cost is unbounded in coordinate magnitude).",
         "4 C02"),
 "C03": ("trace vs independent reference parser written from the specification; bounded-exhaustive opcode x operand-width enumeration plus structured random and mutated-corpus streams",
         "Runtime monitoring: accept/reject and the exact delivered call list of the real decoder are compared with an independent FFV0 parser written from spec/iconvg-spec-v0.md, over every opcode byte in both modes with every operand-width combination (exhaustive), non-canonical number forms, and mutated corpus files.",
         "Trusted: the reference parser (ref.Parse), the hand-written stream assembler. Metadata chunk order/repetition is a declared don't-care (DESIGN 6.1): generated streams keep MIDs increasing.",
         "4 C03"),
 "C04": ("paint snapshots at raster.Draw vs an executable reference virtual machine fed the same calls",
         "Runtime monitoring: programs built to depend on register-machine state (selector wrap, ADJ, increments, store-time blend resolution, gradients at every base, LOD bounds) are fed to the real Renderer over a recording rasterizer; a reference VM written from the spec predicts skip / flat colour / gradient per path and the recorded rasterizer activity and paint must match exactly.",
         "Trusted: ref.VM and the recording rasterizer. Gradients with fewer than 2 stops are a don't-care (spec silent).",
         "4 C04"),
 "C05": ("per-step geometry oracle over the recorded rasterizer calls, computed in float64 from the actual pen",
         "Runtime monitoring: for each drawing call the rasterizer call that follows is compared with the float64 expectation computed from the real pen position, sub-path start and previous control point, over all 18 non-arc verbs in every adjacent pair, non-square maps and off-origin rectangles. Tolerance 2e-6 relative to the magnitudes involved (10x the worst error seen on the unchanged tree).",
         "Trusted: rec.Raster's pen model (that of golang.org/x/image/vector), the float64 reference map.",
         "4 C05"),
 "C06": ("recorded cubic segments vs an independent float64 SVG centre-parameterisation: on-ellipse, monotone sweep, extent, endpoint",
         "Runtime monitoring: each arc call's recorded CubeTo/LineTo output is checked against an independent implementation of the W3C endpoint-to-centre conversion: at most 4 cubics, endpoint, points on the requested ellipse (in viewBox space, so non-uniform scale is exact), sweep direction and extent selected by the flags, zero radius => one line to the mapped endpoint.",
         "Trusted: ref.Arc (float64). The band |radiiCheck-1|<1e-4 is excluded from the on-ellipse/extent checks only (ill-conditioned).",
         "4 C06"),
 "C07": ("online selector-agreement monitor after every call plus offline differential of two rasterizer traces (direct vs via bytes)",
         "Runtime monitoring: one call history is tee'd into a Renderer and an Encoder; after every call CSel/NSel of both are compared mod 64; the bytes are decoded into a second Renderer and both recorded rasterizer logs (calls and paint snapshots) are compared, bit-exact for programs whose numbers survive encoding, within the quantisation bound otherwise. Generator gradient helpers and DestinationLogger are part of the histories.",
         "Trusted: the recorders; the per-kind quantisation bound.",
         "4 C07"),
 "C08": ("exhaustive sweep of the number codecs through the public API with an on-the-fly checking Destination and an independent form-length walker",
         "Runtime monitoring of every execution in an enumerated domain: quick = class table + strided/random bit patterns, thorough = all 2^32 float32 per number kind through Encoder+Decoder, all decoder short forms, naturals through the verif hook. Oracles: exact when representable, <= 4 ulp otherwise, minimal length, re-encode stable, nearest 1/64, truncated => error.",
         "Trusted: the independent reference codec (ref.Numbers, exact rational arithmetic). The 4-byte natural branch is only reachable through the verif hook encode.VerifEncodeNatural.",
         "4 C08"),
 "C09": ("sweep of colours through Encoder+Decoder and of the decoder's colour forms vs independent tables; blend formula over (t,c0,c1); paint snapshots at raster.Draw vs the reference machine for register chains in a Renderer",
         "Runtime monitoring over enumerated colour domains: written colour == delivered colour for RGBA grids / all 2^32 (thorough), every 1- and 2-byte pattern, 3-byte direct, blends; suggested palettes of every format mix; blend arithmetic against the formula on operands resolved by the reference VM; chains of stores into a real Renderer's registers (any value, later blends naming them, a second graphic with the same palette) judged on the flat colour handed to Draw.",
         "Trusted: ref colour tables written from the specification.",
         "4 C09"),
 "C10": ("online specification automaton stepped after every call; bounded-exhaustive histories over an abstract alphabet",
         "Runtime monitoring: all call histories up to depth 6 (quick) / 8 (thorough) over an 11-letter alphabet of call classes, plus long random histories, are executed on real Encoders (zero-value and Reset) while a 4-state automaton predicts whether Bytes must fail; stickiness, decodability of accepted histories and zero-value equivalence are checked at every prefix.",
         "Trusted: the automaton (written from the property), the real decoder for the decodability part (itself covered by C03).",
         "4 C10"),
 "C11": ("listing parser vs decode trace: byte column, line count, every printed operand",
         "Runtime monitoring: Disassemble's text is parsed back and compared with the calls the real decoder delivers for the same input (hex column reproduces the input, one line per operation, printed operands equal delivered values), and accept/reject + error equality with Decode on all inputs. cmd/disivg is executed on files and compared with the in-process listing.",
         "Trusted: the listing parser (line formats pinned by the repository's golden files).",
         "4 C11"),
 "C12": ("return values vs the property's predicate evaluated in float64",
         "Runtime monitoring: AspectMeet/AspectSlice/Size are called on 1.5M (quick) / 100M (thorough) generated cases spanning ten decades plus a boundary list; each result is judged by the property's own predicate (aspect ratio, inside/covering, touches one dimension, alignment split) in float64.",
         "Trusted: float64 arithmetic; tolerance 1e-5 relative to the target/size per dimension (worst observed 2e-7).",
         "4 C12"),
 "C13": ("Reset arguments / DecodeViewBox results vs reference metadata parser over generated metadata sections",
         "Runtime monitoring: generated metadata sections (0-2 chunks, every palette format and count, all colour classes, viewBox forms incl. degenerate and non-finite, lengths and counts off in both directions) are decoded; the Reset arguments, the DecodeViewBox result and accept/reject are compared with the reference metadata parser; DecodeViewBox must touch no destination.",
         "Trusted: ref.Parse's metadata part. MIDs are kept strictly increasing (order is a don't-care).",
         "4 C13"),
 "C14": ("Reset palette and paint snapshots vs reference option application + reference VM",
         "Runtime monitoring: option lists (full replacements, index overrides, many colour models, nonsensical and gradient-looking values) are applied through the real Decode into a recorder and a Renderer; the palette received by Reset and the paints handed to the rasterizer must equal the reference (options in order, then sanitise); inputs and caller arrays unchanged.",
         "Trusted: the reference option semantics written from the property and the spec's palette rules.",
         "4 C14"),
 "C15": ("paint At(x,y) probes vs float64 gradient reference with an exact rounding envelope",
         "Runtime monitoring: the gradient image the Renderer hands to Draw is probed at pixels chosen to hit stop offsets, integers and far-outside offsets; each returned colour must lie in the exact envelope of the float64 reference over the float32-induced offset uncertainty, and be premultiplied-valid. Dyadic configurations make the envelope a single point so integer offsets are judged without slack.",
         "Trusted: ref.Gradient; the error model delta = 4*2^-24*kappa for the renderer's float32 scale.",
         "4 C15"),
 "C16": ("metamorphic pixel equality on real rasterised output (x/image/vector), with sentinel frame",
         "Runtime monitoring of pixels: the same graphic rendered (a) at an offset inside a larger image vs its own image, (b) scaled by a power of two, (c) with indirect vs direct colours must give bit-identical pixels; pixels outside the rectangle are untouched; DrawOp applies to the first drawn path only.",
         "Trusted: golang.org/x/image/vector determinism; IEEE power-of-two scaling exactness in the exponent range used.",
         "4 C16"),
 "C17": ("reused-vs-fresh differential over (dirtying history, program) pairs",
         "Runtime monitoring: an Encoder/Renderer dirtied by an arbitrary (legal, erroneous or truncated) history is reused after Reset/Decode and must produce exactly the bytes / rasterizer log / pixels of a fresh object; Bytes twice and encode twice are equal.",
         "Trusted: the recorders.",
         "4 C17"),
 "C18": ("Go race detector over a many-goroutine shared-input workload + serial-equality and package-globals hash monitors",
         "Runtime monitoring under -race: goroutines run independent decode/render/encode/disassemble/helper pipelines over the same hot input slices, palettes and package defaults; zero race reports, each result equals its serial result, inputs and package-level variables (via the verif hook) unchanged. Evidence counts overlapping same-input task pairs.",
         "Trusted: the Go race detector (sees only conflicts in the schedules produced). 'All interleavings' is sampled, not enumerated.",
         "4 C18"),
 "C19": ("recorded helper calls replayed through the reference VM; geometry read back from the rendered paint's transform",
         "Runtime monitoring: the generator's gradient helpers are driven over geometries spanning seven decades, every prior selector state, stop lists of length 0..300, with Encoder and Renderer destinations; the recorded calls are replayed in the reference VM (registers named by the gradient value), the rendered paint's transform must realise the requested geometry, errors must come before any write, selectors restored.",
         "Trusted: ref.VM; tolerance 8*2^-21*kappa (worst observed 4e-7*kappa).",
         "4 C19"),
 "C20": ("recorded calls vs independent dialect parsers on strings generated from op lists",
         "Runtime monitoring: path strings are generated from known op lists (so the expectation does not depend on any parser) in both dialects with every verb, implicit repeats, separators and number spellings; the calls the front ends deliver must equal the expected ops with coordinates transformed as stated; opacity registers and circles for the converter.",
         "Trusted: the generator of strings and the float64 transform reference.",
         "4 C20"),
}

BUILT = sys.argv[1:] if len(sys.argv) > 1 else None
if BUILT is None:
    out = subprocess.run([os.path.join(HERE, "bin/ivgverif"), "list"], capture_output=True, text=True)
    BUILT = [l.split()[0] for l in out.stdout.splitlines() if l.strip()]

repo_commits = subprocess.run(["git", "-C", "/repo", "log", "--format=%h %s"], capture_output=True, text=True).stdout.splitlines()
hook_commits = [l.split()[0] for l in repo_commits if l.split(" ", 1)[1].startswith("verif hooks")]

m = {
 "version": 1,
 "setup_cmd": "./setup.sh",
 "hooks": {
  "guard": "verif",
  "enable": "go build -tags verif (module ivgverif replaces github.com/reactivego/ivg with /repo, so every check rebuilds the library from /repo's working tree with the tag on)",
  "baseline_off_cmd": "cd /repo && GOFLAGS=-mod=mod GOPROXY=off GOSUMDB=off go test -vet=off -count=1 ./...",
  "source_commits": hook_commits,
  "add_only": True,
 },
 "engines": [
  {"name": "ivgverif", "path": "cmd/ivgverif", "serves_properties": sorted(BUILT),
   "kind_free_text": "Go driver/worker binary: deterministic case generators, recorders at the Destination/Rasterizer boundary, reference models, sharded child processes with a CPU-time watchdog; -race build for C18/C02"},
 ],
 "checks": [],
 "notes": "Family: runtime monitoring and sanitizers. ./check <id> quick|thorough rebuilds bin/ivgverif from /repo's working tree (-tags verif) and runs the property's monitors; exit 0 held on everything explored, 1 + VIOLATION lines, 2 inconclusive (never on the unchanged tree). KNOWN_FINDINGS.txt holds only 'fixed:' entries (seven defects repaired by fix: commits in /repo).",
 "not_applicable": [],
}
for pid in sorted(CHECKS):
    tech, text, note, ref = CHECKS[pid]
    if pid in BUILT:
        m["checks"].append({
            "property_id": pid,
            "quick_cmd": "./check %s quick" % pid,
            "thorough_cmd": "./check %s thorough" % pid,
            "evidence_file": "/verif/evidence/%s.json" % pid,
            "replay_cmd_template": "./check replay {path}",
            "engine": "ivgverif",
            "level_claimed": {"category": "exploration", "text": text, "design_ref": "DESIGN.md section " + ref},
            "level_note": note,
            "technique": tech,
        })
    else:
        m["not_applicable"].append({"property_id": pid, "reason": "not claimed at this commit: the runtime monitor for this property is designed (DESIGN.md section %s) but its check is not yet built" % ref})
json.dump(m, open(os.path.join(HERE, "MANIFEST.json"), "w"), indent=1)
print("claimed:", sorted(BUILT))
