#!/usr/bin/env python3
"""Verifies seeded changes delivered by sub-agents and files the valid ones under /verif/seeded/<id>/.

usage: tools/seedimport.py <src-dir>... [--checks C01,C02] [--recheck]

<src-dir> holds patch.diff, seed_demo_test.go, meta.json (property, demo_dir, summary, needs).
A change is kept only if, in a scratch worktree of /repo: the demonstration passes on the unchanged
tree, the patch applies and builds, the repository's own suite still passes with it, and the
demonstration fails with it. The quick check of its property (and any --checks given) is then run
against the patched tree; the verdicts are recorded in seeded/<id>/meta.json ("ran").
With --recheck the <src-dir>s are existing /verif/seeded/<id> directories whose checks are re-run.
"""
import json, os, shutil, subprocess, sys

HERE = os.path.dirname(os.path.dirname(os.path.abspath(__file__)))

quick_recheck = False

def main():
    args = sys.argv[1:]
    global quick_recheck
    srcs, extra, recheck, tag = [], [], False, ""
    while args:
        a = args.pop(0)
        if a == "--checks":
            extra = args.pop(0).split(",")
        elif a == "--tag":
            tag = args.pop(0)
        elif a == "--recheck":
            recheck = True
        elif a == "--recheck-checks-only":
            recheck = quick_recheck = True
        else:
            srcs.append(os.path.abspath(a))
    for src in srcs:
        meta = json.load(open(os.path.join(src, "meta.json")))
        prop = meta["property"]
        checks = [prop] + [c for c in extra if c != prop] + [c for c in meta.get("also_check", []) if c != prop]
        def verify(cs):
            p = subprocess.run([sys.executable, os.path.join(HERE, "tools/seedverify.py"), src, "--checks", ",".join(cs)] + (["--skip-confirm"] if recheck and quick_recheck else []), capture_output=True, text=True)
            try:
                return json.loads(p.stdout)
            except Exception:
                print("%-14s ERROR running seedverify: %s" % (os.path.basename(src), (p.stdout + p.stderr)[-300:]))
                return None
        r = verify(checks)
        if r is None:
            continue
        kept_from_before = {}
        if recheck:
            # The property's own check (and any --checks given) has just been re-run. If none of
            # them catches the change, the other checks recorded for it are re-run too, those
            # that caught it before first; records of checks that were not re-run are kept as
            # they were (marked), so that a recheck never forgets which checks were tried.
            def caught_now(rr):
                return [c for c, v in rr.get("checks", {}).items() if v["rc"] == 1 and v["violations"] > 0]
            before = meta.get("ran", {})
            others = [c for c in meta.get("caught_by", []) if c not in checks] + [c for c in before if c not in checks and c not in meta.get("caught_by", [])]
            for c in others:
                if caught_now(r):
                    break
                r2 = verify([c])
                if r2 is None:
                    continue
                r.setdefault("checks", {}).update(r2.get("checks", {}))
            for c in before:
                if c not in r.get("checks", {}):
                    kept_from_before[c] = dict(before[c], not_rerun_in_the_last_recheck=True)
        valid = "error" not in r and r.get("demo_unchanged") == "pass" and r.get("suite_with_patch") == "pass" and str(r.get("demo_patched", "")).startswith("fail")
        caught = [c for c, v in r.get("checks", {}).items() if v["rc"] == 1 and v["violations"] > 0]
        name = os.path.basename(src) if recheck else "%s%s-%s" % (prop, tag, os.path.basename(src))
        line = "%-10s valid=%-5s caught_by=%-12s %s" % (name, valid, ",".join(caught) or "NONE", (meta.get("summary") or "")[:110])
        if not valid:
            line += " | " + json.dumps({k: r.get(k) for k in ("error", "demo_unchanged", "suite_with_patch", "demo_patched", "suite_output")})[:300]
        print(line)
        for c, v in r.get("checks", {}).items():
            print("             %s rc=%d %s %ss %s" % (c, v["rc"], "; ".join(v["sigs"][:3]), v["s"], v["other"] or ""))
        sys.stdout.flush()
        if not valid:
            continue
        dst = os.path.join(HERE, "seeded", name)
        os.makedirs(dst, exist_ok=True)
        if not recheck:
            shutil.copy(os.path.join(src, "patch.diff"), dst)
            shutil.copy(os.path.join(src, "seed_demo_test.go"), dst)
        meta_out = dict(meta)
        meta_out["breaks_property"] = prop
        meta_out["origin"] = "written by an independent sub-agent that was given only the property text and a scratch worktree of /repo"
        meta_out["confirmed"] = {"demo_on_unchanged_tree": r["demo_unchanged"], "repository_suite_with_patch": r["suite_with_patch"], "demo_with_patch": r["demo_patched"],
                                 "files_changed": r.get("files_changed"), "demo_output_with_patch": r.get("demo_patched_output", "")[:600]}
        meta_out["ran"] = {c: {"command": "VERIF_REPO=<scratch worktree with patch applied> ./check %s quick" % c, "exit": v["rc"], "violation_lines": v["violations"], "signatures": v["sigs"], "seconds": v["s"]}
                           for c, v in r.get("checks", {}).items()}
        meta_out["ran"].update(kept_from_before)
        meta_out["caught_by"] = caught
        json.dump(meta_out, open(os.path.join(dst, "meta.json"), "w"), indent=1)

main()
