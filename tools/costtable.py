#!/usr/bin/env python3
"""Prints the measured-cost table for DESIGN.md: quick times from evidence/*.json, thorough times from a log
of `./check Cxx thorough` summary lines (tools/costtable.py /root/.vp/runs/<n>/log)."""
import json, sys, re, os, glob
HERE = os.path.dirname(os.path.dirname(os.path.abspath(__file__)))
thor = {}
if len(sys.argv) > 1:
    for l in open(sys.argv[1]):
        m = re.match(r"(C\d\d) thorough seed=\d+: (\w+); (\d+) evaluations, (\d+) distinct non-trivial, \d+ violations, ([\d.]+)s", l)
        if m:
            thor[m.group(1)] = (m.group(2), int(m.group(3)), float(m.group(5)))
print("| Check | quick: evaluations | quick: wall | thorough: evaluations | thorough: wall |")
print("|---|---|---|---|---|")
tq = tt = 0.0
for f in sorted(glob.glob(os.path.join(HERE, "evidence", "C*.json"))):
    d = json.load(open(f))
    cid = d["property_id"]
    q = "%s, %.0f s" % (d["tier"], d["wall_s"])
    ev = d["coverage"]["evaluations"]
    t = thor.get(cid)
    tq += d["wall_s"]
    if t:
        tt += t[2]
    print("| %s | %s | %.0f s | %s | %s |" % (cid, f"{ev:,}", d["wall_s"], f"{t[1]:,}" if t else "—", ("%.0f s (%s)" % (t[2], t[0])) if t else "—"))
print()
print("Quick total %.0f s, thorough total %.0f min (16 cores, warm build cache)." % (tq, tt / 60))
