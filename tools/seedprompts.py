#!/usr/bin/env python3
"""Writes the prompts for one round of seeded changes (DESIGN.md section 12) and creates the scratch worktrees.

usage: tools/seedprompts.py <round-dir under /tmp> [--max N]

For every property in properties.jsonl: a scratch worktree of /repo at <round-dir>/wt-<id>, an output
directory <round-dir>/out/<id>/ and a prompt <round-dir>/prompt-<id>.txt. The prompt contains the text of
that one property (title, statement, quantifier), the environment, the deliverables and the one-line
summaries of the changes earlier sub-agents already delivered for that property (so that the round looks for
other mechanisms) - nothing about /verif's checks.
"""
import glob, json, os, subprocess, sys

HERE = os.path.dirname(os.path.dirname(os.path.abspath(__file__)))

def main():
    rd = os.path.abspath(sys.argv[1])
    mx = 2
    if "--max" in sys.argv:
        mx = int(sys.argv[sys.argv.index("--max") + 1])
    os.makedirs(os.path.join(rd, "out"), exist_ok=True)
    props = [json.loads(l) for l in open(os.path.join(HERE, "properties.jsonl"))]
    metas = [json.load(open(f)) for f in sorted(glob.glob(os.path.join(HERE, "seeded/*/meta.json")))]
    for p in props:
        pid = p["id"]
        wt = os.path.join(rd, "wt-" + pid)
        out = os.path.join(rd, "out", pid)
        os.makedirs(out, exist_ok=True)
        if not os.path.isdir(wt):
            subprocess.run(["git", "-C", "/repo", "worktree", "add", "--detach", wt, "HEAD"], check=True, capture_output=True)
        deliv = [m for m in metas if m.get("property") == pid]
        t = """You are helping to evaluate a verification effort by playing the role of a developer who introduces realistic, subtle regressions into a Go library.

The library is reactivego/ivg (encoder, decoder, disassembler and renderer for the IconVG FFV0 vector-icon format). You have your own scratch git worktree of it at %(wt)s (work ONLY there; do not touch /repo, and do not read or use anything under /verif - that directory is off limits). Read the library's source and spec (spec/iconvg-spec-v0.md) as needed.

Environment: no network. Before every go command run: export GOFLAGS=-mod=mod GOPROXY=off GOSUMDB=off GOTOOLCHAIN=local   (the default `go` is 1.23). The test suite is run with: cd %(wt)s && go test -vet=off -count=1 ./...   (30 tests, all pass on the unchanged tree).

A semantic property of the library is being verified (this is all you are told about what is being verified):

Property %(id)s: %(title)s
  Statement: %(statement)s
  Quantified over: %(quant)s

Your job: produce up to %(mx)d different, independent changes to the library (each one a separate small patch against the unchanged tree), each of which
  1. BREAKS the property for at least one input / call sequence / configuration / schedule inside the property's own quantifier,
  2. still compiles and still PASSES the whole existing test suite unchanged (do not edit, add or delete any existing test or testdata file),
  3. looks like a plausible mistake, "optimisation" or refactoring a maintainer could make (one to ~20 changed lines; no obviously malicious code, no special-casing of magic constants that no real code would have),
  4. is HARD TO NOTICE: it must need something specific to manifest - a particular multi-step sequence of operations, an unusual-but-legal input, a boundary value, a rare combination of two features, a particular entry point or configuration, a particular interleaving, or TWO COOPERATING SITES that each look fine alone (e.g. one site stops maintaining something another site relies on only in a rare state; a caller and a callee that each drop "their half" of a check). Changes that ordinary use would expose at once are NOT wanted. Fewer is better than easy: deliver none if every remaining idea would be exposed at once by ordinary inputs.

Directions that earlier rounds used less (pick the ones that fit this property): behaviour that depends on what happened EARLIER in the same object, the same stream or the same process (a value cached on first use, a flag not cleared on one of several exits, a buffer or pooled object kept between calls, an error path that leaves state behind); the second and later occurrences of something (second gradient, second chunk, second subpath, second Reset, second call of an option); combinations where two rarely-combined features meet (an adjustment AND a wrap-around, a relative operation right after a close, a smooth operation after a non-curve, a repeat run that ends exactly at a limit followed by a different verb, a gradient AND a level-of-detail range, an option AND a suggested palette); values next to the constants that the changed code compares against; narrowing of an intermediate (float64 -> float32, int -> uint8/int8, int -> uint16) that only matters for extreme but legal values; degenerate but legal geometry and configuration (empty, one-pixel, huge or inverted rectangles; viewBoxes far from the origin or touching it; zero-length segments; coincident points); public API surface that a test generator may not drive at all (exported fields, exported helper functions and types, constructors, options, the logging wrappers, raster/vec, zero values, nil arguments, value copies of objects); the INTERPLAY of two packages (one side stops normalising / masking / clamping something because 'the other side already does', which is true only on the common route). Read the statement clause by clause and look for the clause that is hardest to observe, and prefer a change whose wrong result is small or rare over one whose wrong result is glaring.

For each change number N in 1..%(mx)d deliver, under %(out)s/N/ :
  - patch.diff : output of `git diff` in the worktree containing ONLY the library change (no test files). It must apply to the unchanged tree with `git apply`.
  - seed_demo_test.go : a Go test file with a single test function named TestSeedDemo (package name matching the directory it is meant for, external _test package allowed) that uses only the library's public API (plus standard library / golang.org/x/image which is already a dependency) and FAILS with your change applied and PASSES on the unchanged tree. It demonstrates the violation of the property on a concrete input. It must be deterministic (for a schedule-dependent property, make the demonstration reliable, e.g. with -race style detection of a data race or enough repetitions that it fails every time).
  - meta.json : {"property": "%(id)s", "also_check": ["<other property ids, if you know that it breaks more>"], "demo_dir": "<directory relative to the repo root into which seed_demo_test.go must be copied to run it, e.g. \\"decode\\" or \\".\\">", "summary": "<one sentence: what the change does>", "needs": "<what specific input/sequence/configuration is needed for the violation to manifest>", "files_changed": ["..."]}

Procedure you must follow for each change: make the edit in the worktree; run the full test suite and confirm it passes; copy your seed_demo_test.go into demo_dir and run `go test -vet=off -count=1 -run TestSeedDemo ./<demo_dir>/` and confirm it FAILS; save `git diff -- . ':!*seed_demo_test.go'` as patch.diff; then `git checkout -- .` and remove the copied demo file, re-add only the demo file and confirm TestSeedDemo PASSES on the unchanged tree; remove the demo file again so the worktree is clean before the next change. If a candidate change makes an existing test fail, discard it and try another idea. Do not leave the worktree dirty at the end (git status must be clean, no untracked files). Do not spend more than about 25 minutes in total.

IMPORTANT - novelty: earlier colleagues already delivered the changes listed below for this property. Do NOT repeat them or close variants of them. Look for DIFFERENT mechanisms and different code sites.
Already delivered (avoid):
""" % dict(wt=wt, id=pid, title=p["title"], statement=p["statement"], quant=p["quantifier"]["text"], mx=mx, out=out)
        for m in deliv:
            t += "- %s\n" % m.get("summary", "").strip()
        t += "\nFinish with a short report listing, for each delivered change, its one-line summary and what it needs to manifest. If you could only find fewer than %d qualifying changes, deliver those and say so.\n" % mx
        open(os.path.join(rd, "prompt-%s.txt" % pid), "w").write(t)
        print(pid, len(deliv), len(t))

GROUPS = {
    "A": ("the decoder", ["decode/decode.go", "decode/buffer.go", "decode/options.go"]),
    "B": ("the encoder", ["encode/encode.go", "encode/buffer.go"]),
    "C": ("the renderer and its gradient paint", ["render/render.go", "render/gradient.go"]),
    "D": ("the root package (colours, viewBox helpers, logger, destination contract) and the bundled rasterizer wrapper", ["color.go", "ivg.go", "logger.go", "destination.go", "raster/vec/rasterizer.go", "raster/rasterizer.go", "raster/logger.go"]),
    "E": ("the front ends: generate/ (Generator: gradient helpers, SetPathData, transforms) and mdicons/ (ParsePath, ParsePathData, ParseFile)", ["generate/generate.go", "mdicons/parsepath.go", "mdicons/parsepathdata.go", "mdicons/parsefile.go", "mdicons/types.go"]),
}

def by_package():
    """One prompt per package with all twenty statements (changes that fall between the properties)."""
    rd = os.path.abspath(sys.argv[1])
    mx = 4
    os.makedirs(os.path.join(rd, "out"), exist_ok=True)
    props = [json.loads(l) for l in open(os.path.join(HERE, "properties.jsonl"))]
    metas = [json.load(open(f)) for f in sorted(glob.glob(os.path.join(HERE, "seeded/*/meta.json")))]
    for g, (what, files) in GROUPS.items():
        wt = os.path.join(rd, "wt-" + g)
        out = os.path.join(rd, "out", g)
        os.makedirs(out, exist_ok=True)
        if not os.path.isdir(wt):
            subprocess.run(["git", "-C", "/repo", "worktree", "add", "--detach", wt, "HEAD"], check=True, capture_output=True)
        deliv = [m for m in metas if any(f in files for f in ((m.get("confirmed", {}) or {}).get("files_changed") or m.get("files_changed") or []))]
        t = """You are helping to evaluate a verification effort by playing the role of a developer who introduces realistic, subtle regressions into a Go library.

The library is reactivego/ivg (encoder, decoder, disassembler and renderer for the IconVG FFV0 vector-icon format). You have your own scratch git worktree of it at %(wt)s (work ONLY there; do not touch /repo, and do not read or use anything under /verif - that directory is off limits). Read the library's source and spec (spec/iconvg-spec-v0.md) as needed.

Environment: no network. Before every go command run: export GOFLAGS=-mod=mod GOPROXY=off GOSUMDB=off GOTOOLCHAIN=local   (the default `go` is 1.23). The test suite is run with: cd %(wt)s && go test -vet=off -count=1 ./...   (30 tests, all pass on the unchanged tree).

Twenty semantic properties of the library are being verified (this is all you are told about what is being verified):

""" % dict(wt=wt)
        for p in props:
            t += "Property %s: %s\n  Statement: %s\n  Quantified over: %s\n\n" % (p["id"], p["title"], p["statement"], p["quantifier"]["text"])
        t += """
Your area this time is %(what)s - files: %(files)s. Your job: produce up to %(mx)d different, independent changes to those files (each one a separate small patch against the unchanged tree), each of which
  1. BREAKS at least one of the twenty properties for at least one input / call sequence / configuration / schedule inside that property's own quantifier (say which property in meta.json; choose the one it breaks most directly),
  2. still compiles and still PASSES the whole existing test suite unchanged (do not edit, add or delete any existing test or testdata file),
  3. looks like a plausible mistake or "optimisation"/refactoring a maintainer could make (one to ~20 changed lines; no obviously malicious code, no special-casing of magic constants that no real code would have),
  4. is as HARD TO NOTICE as you can make it: it should need something specific to manifest (a particular multi-step history, an unusual-but-legal input, a boundary value, a rare combination of two features, a particular configuration or entry point, two cooperating sites that each look fine alone) and ideally fall BETWEEN the properties - a behaviour that a verifier who wrote one focused check per property might not exercise, although one of the statements above does cover it when read carefully. Spread your changes over different properties. Fewer is better than easy: do not deliver a change that ordinary use would expose at once.

For each change number N in 1..%(mx)d deliver, under %(out)s/N/ :
  - patch.diff : output of `git diff` in the worktree containing ONLY the library change (no test files). It must apply to the unchanged tree with `git apply`.
  - seed_demo_test.go : a Go test file with a single test function named TestSeedDemo (package name matching the directory it is meant for, external _test package allowed) that uses only the library's public API (plus standard library / golang.org/x/image which is already a dependency) and FAILS with your change applied and PASSES on the unchanged tree. It demonstrates the violation of the property on a concrete input, deterministically.
  - meta.json : {"property": "<Cxx: the property it breaks most directly>", "also_check": ["<other property ids that it arguably breaks too>"], "demo_dir": "<directory relative to the repo root into which seed_demo_test.go must be copied to run it, e.g. \\"decode\\" or \\".\\">", "summary": "<one sentence: what the change does>", "needs": "<what specific input/sequence/configuration is needed for the violation to manifest>", "files_changed": ["..."]}

Procedure you must follow for each change: make the edit in the worktree; run the full test suite and confirm it passes; copy your seed_demo_test.go into demo_dir and run `go test -vet=off -count=1 -run TestSeedDemo ./<demo_dir>/` and confirm it FAILS; save `git diff -- . ':!*seed_demo_test.go'` as patch.diff; then `git checkout -- .` and remove the copied demo file, re-add only the demo file and confirm TestSeedDemo PASSES on the unchanged tree; remove the demo file again so the worktree is clean before the next change. If a candidate change makes an existing test fail, discard it and try another idea. Do not leave the worktree dirty at the end (git status must be clean, no untracked files). Do not spend more than about 30 minutes in total.

IMPORTANT - novelty: earlier colleagues already delivered the changes listed below in these files. Do NOT repeat them or close variants of them. Look for DIFFERENT mechanisms and different code sites.
Already delivered in your files (avoid):
""" % dict(what=what, files=", ".join(files), mx=mx, out=out)
        for m in deliv:
            t += "- [%s] %s\n" % (m["property"], (m.get("summary", "") or "").strip()[:240])
        t += "\nFinish with a short report listing, for each delivered change, the property it breaks, its one-line summary and what it needs to manifest. If you could only find fewer than %d qualifying changes, deliver those and say so.\n" % mx
        open(os.path.join(rd, "prompt-%s.txt" % g), "w").write(t)
        print(g, len(deliv), len(t))

if __name__ == "__main__":
    if "--by-package" in sys.argv:
        sys.argv.remove("--by-package")
        by_package()
    else:
        main()
