#!/bin/bash
# Mutation trial helper (development tool, not a registered check).
# usage: tools/mut.sh <name> <file> <old-text> <new-text> <Cxx>...
# Copies /repo to a scratch directory, replaces the first occurrence of old-text by
# new-text in <file>, checks that the copy builds and that the repository's own tests
# still pass, runs the quick checks given against the copy, and removes the copy.
export GOFLAGS=-mod=mod GOPROXY=off GOSUMDB=off GOTOOLCHAIN=local
name=$1; file=$2; old=$3; new=$4; shift 4
M=/tmp/ivgmut_$name
rm -rf $M; cp -r /repo $M; rm -rf $M/.git
python3 - "$M/$file" "$old" "$new" <<'PY'
import sys
p,old,new=sys.argv[1:4]
s=open(p).read()
if s.count(old)<1:
    print("MUTANT PATTERN NOT FOUND"); sys.exit(3)
open(p,'w').write(s.replace(old,new,1))
PY
[ $? -ne 0 ] && { rm -rf $M; exit 3; }
( cd $M && go build ./... 2>&1 | head -3; go test -timeout 60s -vet=off -count=1 ./... > $M/.testout 2>&1; grep -c '^ok' $M/.testout | sed "s/^/  [$name] repo test packages ok (of 6): /"; grep -E "^(--- FAIL|panic: test timed out)" $M/.testout | head -3 )
cd /verif
for id in "$@"; do
  out=$(VERIF_REPO=$M VERIF_EVIDENCE_DIR=$M/.ev VERIF_REPLAY_DIR=$M/.rep ./check $id ${TIER:-quick} 2>&1)
  rc=$?
  echo "  [$name] $id rc=$rc: $(echo "$out" | grep -c '^VIOLATION') VIOLATION lines; $(echo "$out" | grep -E 'signature:' | head -4 | tr '\n' ';')"
  echo "$out" | grep -E "INCONCLUSIVE|build" | head -3
done
rm -rf $M
