#!/usr/bin/env python3
"""Mutation self-test of the checks (development tool, not a registered check).

Reads mutants/*.py (each defining MUTANTS, a list of {name, file, old, new, checks, [expect]}), and for
every mutant: copies /repo to a scratch directory under /tmp, replaces the first
occurrence of `old` by `new` in `file`, verifies that the copy builds, runs the
repository's own test suite on it (to know whether the suite notices), runs the
quick checks listed against the copy (VERIF_REPO) and removes the copy.

usage: tools/selftest.py [-j N] [-k substring] [files...]
"""
import json, os, subprocess, sys, shutil, glob, concurrent.futures, time

HERE = os.path.dirname(os.path.dirname(os.path.abspath(__file__)))
ENV = dict(os.environ, GOFLAGS="-mod=mod", GOPROXY="off", GOSUMDB="off", GOTOOLCHAIN="local")

def run_one(m):
    name = m["name"]
    d = "/tmp/ivgmut_" + name
    shutil.rmtree(d, ignore_errors=True)
    shutil.copytree("/repo", d, ignore=shutil.ignore_patterns(".git"))
    res = {"name": name, "checks": {}}
    try:
        edits = m.get("edits") or [{"file": m["file"], "old": m["old"], "new": m["new"]}]
        for e in edits:
            p = os.path.join(d, e["file"])
            s = open(p).read()
            if s.count(e["old"]) < 1:
                res["error"] = "pattern not found in " + e["file"]
                return res
            open(p, "w").write(s.replace(e["old"], e["new"], 1))
        b = subprocess.run(["go", "build", "./..."], cwd=d, env=ENV, capture_output=True, text=True)
        if b.returncode != 0:
            res["error"] = "does not build: " + b.stderr[:200]
            return res
        t = subprocess.run(["go", "test", "-timeout", "60s", "-vet=off", "-count=1", "./..."], cwd=d, env=ENV, capture_output=True, text=True)
        res["suite"] = "pass" if t.returncode == 0 else "FAIL(" + ",".join(l.split()[2] for l in t.stdout.splitlines() if l.startswith("--- FAIL"))[:60] + ")"
        env = dict(ENV, VERIF_REPO=d, VERIF_EVIDENCE_DIR=d + "/.ev", VERIF_REPLAY_DIR=d + "/.rep", VERIF_WORKERS=str(m.get("workers", 8)))
        for cid in m["checks"]:
            t0 = time.time()
            c = subprocess.run(["./check", cid, "quick"], cwd=HERE, env=env, capture_output=True, text=True)
            sigs = [l.strip().replace("signature: ", "") for l in c.stdout.splitlines() if "signature:" in l]
            res["checks"][cid] = {"rc": c.returncode, "violations": sum(1 for l in c.stdout.splitlines() if l.startswith("VIOLATION")),
                                  "sigs": sigs[:3], "s": round(time.time() - t0, 1),
                                  "other": [l for l in c.stdout.splitlines() if l.startswith("INCONCLUSIVE")][:2]}
    finally:
        shutil.rmtree(d, ignore_errors=True)
    return res

def main():
    args = sys.argv[1:]
    jobs, key, files, jsonout = 3, None, [], None
    rows = []
    while args:
        a = args.pop(0)
        if a == "-j":
            jobs = int(args.pop(0))
        elif a == "--json":
            jsonout = args.pop(0)
        elif a == "-k":
            key = args.pop(0)
        else:
            files.append(a)
    if not files:
        files = sorted(glob.glob(os.path.join(HERE, "mutants", "*.py")))
    muts = []
    for f in files:
        g = {}
        exec(open(f).read(), g)
        muts += g["MUTANTS"]
    if key:
        muts = [m for m in muts if key in m["name"]]
    missed = 0
    with concurrent.futures.ThreadPoolExecutor(max_workers=jobs) as ex:
        for r in ex.map(run_one, muts):
            m = next(x for x in muts if x["name"] == r["name"])
            expect = m.get("expect", "caught")
            if "error" in r:
                print("%-28s ERROR %s" % (r["name"], r["error"]))
                missed += 1
                continue
            caught = any(c["rc"] == 1 and c["violations"] > 0 for c in r["checks"].values())
            status = "caught" if caught else "MISSED"
            if expect == "equivalent":
                status = "ok(silent)" if not caught and all(c["rc"] == 0 for c in r["checks"].values()) else "FALSE-ALARM"
            if status in ("MISSED", "FALSE-ALARM"):
                missed += 1
            det = "; ".join("%s rc=%d %s %ss %s" % (k, v["rc"], (v["sigs"][:2] or ""), v["s"], v["other"] or "") for k, v in r["checks"].items())
            print("%-28s suite=%-10s %-11s %s" % (r["name"], r.get("suite"), status, det[:260]))
            sys.stdout.flush()
            rows.append({"name": r["name"], "file": m.get("file") or m["edits"][0]["file"], "suite": r.get("suite"), "status": status,
                         "checks": {k: {"rc": v["rc"], "sigs": v["sigs"][:2]} for k, v in r["checks"].items()}})
    if jsonout:
        json.dump(rows, open(jsonout, "w"), indent=1)
    print("mutants: %d, not as expected: %d" % (len(muts), missed))
    sys.exit(1 if missed else 0)

main()
