#!/bin/bash
# setup_cmd: build the framework once (offline) so that later checks start from a warm build cache.
cd "$(dirname "$0")"
exec ./check build
