// Command ivgverif is the driver and worker of the runtime-monitoring checks
// for reactivego/ivg. See /verif/DESIGN.md.
package main

import (
	"flag"
	"fmt"
	"os"
	"sort"
	"strings"

	_ "ivgverif/internal/props"
	"ivgverif/internal/run"
)

func main() {
	if len(os.Args) < 2 {
		fmt.Fprintln(os.Stderr, "usage: ivgverif run <Cxx> quick|thorough | replay <file> | list")
		os.Exit(3)
	}
	switch os.Args[1] {
	case "run":
		if len(os.Args) < 4 {
			fmt.Fprintln(os.Stderr, "usage: ivgverif run <Cxx> quick|thorough")
			os.Exit(3)
		}
		os.Exit(run.Drive(os.Args[2], os.Args[3]))
	case "replay":
		if len(os.Args) < 3 {
			os.Exit(3)
		}
		os.Exit(run.ReplayMain(os.Args[2]))
	case "list":
		for _, id := range run.IDs() {
			p := run.Lookup(id)
			var subs []string
			for _, s := range p.Subs {
				subs = append(subs, fmt.Sprintf("%s(%d/%d)", s.Name, s.N("quick"), s.N("thorough")))
			}
			fmt.Printf("%s %s: %s\n", id, p.Title, strings.Join(subs, " "))
		}
	case "describe":
		// markdown description of every check as built (DESIGN.md appendix A)
		for _, id := range run.IDs() {
			p := run.Lookup(id)
			fmt.Printf("### %s — %s\n\n", id, p.Title)
			fmt.Printf("*Cases and non-triviality rule.* %s\n\n", p.Rule)
			if len(p.Assumptions) > 0 {
				fmt.Printf("*Assumptions / trusted base.* %s.\n\n", strings.Join(p.Assumptions, "; "))
			}
			fmt.Printf("| sub-monitor | cases quick | cases thorough | what it runs | minimum observations (else inconclusive) |\n|---|---|---|---|---|\n")
			for _, s := range p.Subs {
				var mins []string
				for k, v := range s.Min {
					mins = append(mins, fmt.Sprintf("%s≥%d", k, v))
				}
				sort.Strings(mins)
				if len(mins) > 8 {
					mins = append(mins[:8], fmt.Sprintf("… (%d counters)", len(s.Min)))
				}
				flags := ""
				if s.Race {
					flags = " (runs in the `-race` build)"
				}
				rule := s.Rule
				if rule == "" {
					rule = "see the rule above"
				}
				fmt.Printf("| `%s`%s | %d | %d | %s | %s |\n", s.Name, flags, s.N("quick"), s.N("thorough"), strings.ReplaceAll(rule, "|", "/"), strings.Join(mins, ", "))
			}
			fmt.Println()
		}
	case "worker":
		fs := flag.NewFlagSet("worker", flag.ExitOnError)
		var a run.WorkerArgs
		var subs string
		fs.StringVar(&a.Prop, "prop", "", "")
		fs.StringVar(&a.Tier, "tier", "quick", "")
		fs.Uint64Var(&a.Seed, "seed", 1, "")
		fs.IntVar(&a.Shard, "shard", 0, "")
		fs.IntVar(&a.NShard, "nshard", 1, "")
		fs.StringVar(&a.OutDir, "out", "", "")
		fs.StringVar(&subs, "subs", "", "")
		fs.IntVar(&a.FromSub, "from-sub", 0, "")
		fs.Uint64Var(&a.FromIdx, "from-idx", 0, "")
		fs.Parse(os.Args[2:])
		if subs != "" {
			a.Subs = strings.Split(subs, ",")
		}
		os.Exit(run.WorkerMain(a))
	case "one":
		fs := flag.NewFlagSet("one", flag.ExitOnError)
		var prop, tier, sub, out string
		var seed, idx uint64
		fs.StringVar(&prop, "prop", "", "")
		fs.StringVar(&tier, "tier", "quick", "")
		fs.Uint64Var(&seed, "seed", 1, "")
		fs.StringVar(&sub, "sub", "", "")
		fs.Uint64Var(&idx, "idx", 0, "")
		fs.StringVar(&out, "out", "", "")
		fs.Parse(os.Args[2:])
		os.Exit(run.OneMain(prop, tier, seed, sub, idx, out))
	default:
		fmt.Fprintln(os.Stderr, "unknown command", os.Args[1])
		os.Exit(3)
	}
}
