// Package ref holds the reference models the monitors compare the real code
// with. They are written from spec/iconvg-spec-v0.md and the SVG
// specification and share no code with the library under test.
package ref

import (
	"image/color"
	"math"

	"github.com/reactivego/ivg"

	"ivgverif/internal/rec"
)

// Err is a reference-parser rejection. Stage tells how far parsing got.
type Err struct {
	Msg   string
	Stage int // 0 magic, 1 metadata, 2 instructions
}

func (e *Err) Error() string { return e.Msg }

const (
	StageMagic = iota
	StageMetadata
	StageInstr
)

type reader struct {
	b   []byte
	pos int
}

func (r *reader) left() int { return len(r.b) - r.pos }

// natural decodes a natural number: value, width, ok.
func (r *reader) natural() (uint32, int, bool) {
	if r.left() < 1 {
		return 0, 0, false
	}
	x := r.b[r.pos]
	if x&1 == 0 {
		r.pos++
		return uint32(x >> 1), 1, true
	}
	if x&2 == 0 {
		if r.left() < 2 {
			return 0, 0, false
		}
		v := uint32(r.b[r.pos]) | uint32(r.b[r.pos+1])<<8
		r.pos += 2
		return v >> 2, 2, true
	}
	if r.left() < 4 {
		return 0, 0, false
	}
	v := uint32(r.b[r.pos]) | uint32(r.b[r.pos+1])<<8 | uint32(r.b[r.pos+2])<<16 | uint32(r.b[r.pos+3])<<24
	r.pos += 4
	return v >> 2, 4, true
}

// Real decodes the value of a real number of the given natural and width.
func Real(u uint32, w int) float32 {
	if w == 4 {
		return math.Float32frombits(u << 2)
	}
	return float32(u) // u < 2^14: exact
}

// Coord decodes a coordinate number.
func Coord(u uint32, w int) float32 {
	switch w {
	case 1:
		return float32(int32(u) - 64)
	case 2:
		// (u - 8192) / 64 is a dyadic rational with at most 14 significant
		// bits: exact in float32.
		return float32(float64(int32(u)-64*128) / 64)
	}
	return math.Float32frombits(u << 2)
}

// ZeroToOne decodes a zero-to-one number. For the short forms the result is
// the correctly rounded quotient.
func ZeroToOne(u uint32, w int) float32 {
	switch w {
	case 1:
		return float32(u) / 120 // float32 division of exact operands: correctly rounded
	case 2:
		return float32(u) / 15120
	}
	return math.Float32frombits(u << 2)
}

func (r *reader) real() (float32, bool) {
	u, w, ok := r.natural()
	if !ok {
		return 0, false
	}
	return Real(u, w), true
}

func (r *reader) coord() (float32, bool) {
	u, w, ok := r.natural()
	if !ok {
		return 0, false
	}
	return Coord(u, w), true
}

func (r *reader) zto() (float32, int, bool) {
	u, w, ok := r.natural()
	if !ok {
		return 0, 0, false
	}
	return ZeroToOne(u, w), w, true
}

var c1tab = [5]byte{0x00, 0x40, 0x80, 0xc0, 0xff}

// Color1 is the specification's 1 byte colour table.
func Color1(x byte) rec.ColorSpec {
	switch {
	case x < 125:
		return rec.ColorSpec{Typ: ivg.ColorTypeRGBA, RGBA: color.RGBA{c1tab[x/25], c1tab[(x/5)%5], c1tab[x%5], 0xff}}
	case x == 125:
		return rec.ColorSpec{Typ: ivg.ColorTypeRGBA, RGBA: color.RGBA{0xc0, 0xc0, 0xc0, 0xc0}}
	case x == 126:
		return rec.ColorSpec{Typ: ivg.ColorTypeRGBA, RGBA: color.RGBA{0x80, 0x80, 0x80, 0x80}}
	case x == 127:
		return rec.ColorSpec{Typ: ivg.ColorTypeRGBA, RGBA: color.RGBA{0, 0, 0, 0}}
	case x < 192:
		return rec.ColorSpec{Typ: ivg.ColorTypePaletteIndex, Idx: x - 128}
	}
	return rec.ColorSpec{Typ: ivg.ColorTypeCReg, Idx: x - 192}
}

// ColorLen is the byte length of colour form kind (0..4: 1, 2, 3 direct, 4, 3 indirect).
var ColorLen = [5]int{1, 2, 3, 4, 3}

// DecodeColor decodes colour form kind from p (len(p) == ColorLen[kind]).
func DecodeColor(kind int, p []byte) rec.ColorSpec {
	switch kind {
	case 0:
		return Color1(p[0])
	case 1:
		return rec.ColorSpec{Typ: ivg.ColorTypeRGBA, RGBA: color.RGBA{(p[0] >> 4) * 0x11, (p[0] & 15) * 0x11, (p[1] >> 4) * 0x11, (p[1] & 15) * 0x11}}
	case 2:
		return rec.ColorSpec{Typ: ivg.ColorTypeRGBA, RGBA: color.RGBA{p[0], p[1], p[2], 0xff}}
	case 3:
		return rec.ColorSpec{Typ: ivg.ColorTypeRGBA, RGBA: color.RGBA{p[0], p[1], p[2], p[3]}}
	}
	return rec.ColorSpec{Typ: ivg.ColorTypeBlend, T: p[0], C0: p[1], C1: p[2]}
}

func (r *reader) color(kind int) (rec.ColorSpec, bool) {
	need := ColorLen[kind]
	if r.left() < need {
		return rec.ColorSpec{}, false
	}
	p := r.b[r.pos : r.pos+need]
	r.pos += need
	return DecodeColor(kind, p), true
}

// Meta is the decoded metadata.
type Meta struct {
	ViewBox ivg.ViewBox
	Palette [64]color.RGBA
	// MIDs lists the chunk identifiers in stream order.
	MIDs []uint32
	// End is the offset of the first instruction byte.
	End int
}

// Result is what the reference parser assigns to a byte string.
type Result struct {
	Meta Meta
	// Ops are the operations (Reset first) the specification assigns; on
	// rejection in the instruction stage, the operations before the error.
	Ops []rec.Op
	// Span[i] is the [start,end) byte range of the instruction that produced
	// Ops[i] (repeats share the range of their opcode); Span[0] covers magic
	// and metadata.
	Span [][2]int
	// ShortZTO[i] is set when op i carries a 1- or 2-byte zero-to-one number.
	ShortZTO map[int]bool
	// EndsInPath is set when the stream was accepted but its last path was
	// never ended.
	EndsInPath bool
	Err        *Err
}

func validPremul(c color.RGBA) bool { return c.R <= c.A && c.G <= c.A && c.B <= c.A }

// ParseMeta parses magic and metadata only.
func ParseMeta(b []byte) (Meta, *Err) {
	r := &reader{b: b}
	m, e := parseMeta(r)
	return m, e
}

func parseMeta(r *reader) (Meta, *Err) {
	var m Meta
	b := r.b
	if len(b) < 4 || b[0] != 0x89 || b[1] != 'I' || b[2] != 'V' || b[3] != 'G' {
		return m, &Err{"bad magic", StageMagic}
	}
	r.pos = 4
	n, _, ok := r.natural()
	if !ok {
		return m, &Err{"number of chunks", StageMetadata}
	}
	m.ViewBox = ivg.ViewBox{MinX: -32, MinY: -32, MaxX: 32, MaxY: 32}
	for i := range m.Palette {
		m.Palette[i] = color.RGBA{0, 0, 0, 0xff}
	}
	for ; n > 0; n-- {
		l, _, ok := r.natural()
		if !ok {
			return m, &Err{"chunk length", StageMetadata}
		}
		end := int64(r.pos) + int64(l)
		mid, _, ok := r.natural()
		if !ok {
			return m, &Err{"chunk identifier", StageMetadata}
		}
		m.MIDs = append(m.MIDs, mid)
		switch mid {
		case 0:
			var v [4]float32
			for i := range v {
				f, ok := r.coord()
				if !ok {
					return m, &Err{"viewBox number", StageMetadata}
				}
				v[i] = f
			}
			for _, f := range v {
				if math.IsNaN(float64(f)) || math.IsInf(float64(f), 0) {
					return m, &Err{"viewBox not finite", StageMetadata}
				}
			}
			if v[0] > v[2] || v[1] > v[3] {
				return m, &Err{"viewBox inverted", StageMetadata}
			}
			m.ViewBox = ivg.ViewBox{MinX: v[0], MinY: v[1], MaxX: v[2], MaxY: v[3]}
		case 1:
			if r.left() < 1 {
				return m, &Err{"palette header", StageMetadata}
			}
			h := r.b[r.pos]
			r.pos++
			cnt, format := int(h&0x3f)+1, int(h>>6)
			for i := 0; i < cnt; i++ {
				c, ok := r.color(format)
				if !ok {
					return m, &Err{"palette colour", StageMetadata}
				}
				v := color.RGBA{0, 0, 0, 0xff}
				if c.Typ == ivg.ColorTypeRGBA && validPremul(c.RGBA) {
					v = c.RGBA
				}
				m.Palette[i] = v
			}
		default:
			return m, &Err{"unknown chunk identifier", StageMetadata}
		}
		if int64(r.pos) != end {
			return m, &Err{"chunk length mismatch", StageMetadata}
		}
	}
	m.End = r.pos
	return m, nil
}

var drawKinds = [14]rec.Kind{rec.KAbsLineTo, rec.KAbsLineTo, rec.KRelLineTo, rec.KRelLineTo, rec.KAbsSmoothQuadTo, rec.KRelSmoothQuadTo,
	rec.KAbsQuadTo, rec.KRelQuadTo, rec.KAbsSmoothCubeTo, rec.KRelSmoothCubeTo, rec.KAbsCubeTo, rec.KRelCubeTo, rec.KAbsArcTo, rec.KRelArcTo}

// Parse parses a whole FFV0 byte string.
func Parse(b []byte) *Result {
	res := &Result{ShortZTO: map[int]bool{}}
	r := &reader{b: b}
	m, e := parseMeta(r)
	res.Meta = m
	if e != nil {
		res.Err = e
		return res
	}
	pal := m.Palette
	add := func(start int, o rec.Op) {
		res.Ops = append(res.Ops, o)
		res.Span = append(res.Span, [2]int{start, r.pos})
	}
	add(0, rec.Op{K: rec.KReset, VB: m.ViewBox, Pal: &pal})
	fail := func(msg string) *Result {
		res.Err = &Err{msg, StageInstr}
		return res
	}
	drawing := false
	for r.left() > 0 {
		start := r.pos
		op := r.b[r.pos]
		r.pos++
		if !drawing {
			switch {
			case op < 0x40:
				add(start, rec.Op{K: rec.KSetCSel, Sel: op})
			case op < 0x80:
				add(start, rec.Op{K: rec.KSetNSel, Sel: op & 0x3f})
			case op < 0xa8:
				kind := int(op-0x80) / 8
				adj := op & 7
				incr := adj == 7
				if incr {
					adj = 0
				}
				c, ok := r.color(kind)
				if !ok {
					return fail("colour operand")
				}
				add(start, rec.Op{K: rec.KSetCReg, Adj: adj, Incr: incr, Col: c.Color()})
			case op < 0xc0:
				kind := int(op-0xa8) / 8
				adj := op & 7
				incr := adj == 7
				if incr {
					adj = 0
				}
				var f float32
				var ok bool
				switch kind {
				case 0:
					f, ok = r.real()
				case 1:
					f, ok = r.coord()
				default:
					var w int
					f, w, ok = r.zto()
					if ok && w < 4 {
						res.ShortZTO[len(res.Ops)] = true
					}
				}
				if !ok {
					return fail("number operand")
				}
				add(start, rec.Op{K: rec.KSetNReg, Adj: adj, Incr: incr, F: [6]float32{f}})
			case op < 0xc7:
				x, ok1 := r.coord()
				if !ok1 {
					return fail("start path")
				}
				y, ok2 := r.coord()
				if !ok2 {
					return fail("start path")
				}
				add(start, rec.Op{K: rec.KStartPath, Adj: op & 7, F: [6]float32{x, y}})
				drawing = true
			case op == 0xc7:
				a, ok1 := r.real()
				if !ok1 {
					return fail("lod")
				}
				c, ok2 := r.real()
				if !ok2 {
					return fail("lod")
				}
				add(start, rec.Op{K: rec.KSetLOD, F: [6]float32{a, c}})
			default:
				return fail("reserved styling opcode")
			}
			continue
		}
		switch {
		case op < 0xe0:
			g := int(op >> 4)
			reps := int(op&0x0f) + 1
			if g < 4 {
				reps = int(op&0x1f) + 1
			}
			k := drawKinds[g]
			n := k.NArgs()
			for i := 0; i < reps; i++ {
				o := rec.Op{K: k}
				if k != rec.KAbsArcTo && k != rec.KRelArcTo {
					for j := 0; j < n; j++ {
						f, ok := r.coord()
						if !ok {
							return fail("coordinate")
						}
						o.F[j] = f
					}
				} else {
					rx, ok := r.coord()
					if !ok {
						return fail("arc")
					}
					ry, ok := r.coord()
					if !ok {
						return fail("arc")
					}
					an, w, ok := r.zto()
					if !ok {
						return fail("arc")
					}
					fl, _, ok := r.natural()
					if !ok {
						return fail("arc")
					}
					x, ok := r.coord()
					if !ok {
						return fail("arc")
					}
					y, ok := r.coord()
					if !ok {
						return fail("arc")
					}
					if w < 4 {
						res.ShortZTO[len(res.Ops)] = true
					}
					o.F = [6]float32{rx, ry, an, x, y}
					o.LargeArc, o.Sweep = fl&1 != 0, fl&2 != 0
				}
				add(start, o)
			}
		case op == 0xe1:
			add(start, rec.Op{K: rec.KClosePathEndPath})
			drawing = false
		case op == 0xe2 || op == 0xe3:
			x, ok := r.coord()
			if !ok {
				return fail("move")
			}
			y, ok := r.coord()
			if !ok {
				return fail("move")
			}
			k := rec.KClosePathAbsMoveTo
			if op == 0xe3 {
				k = rec.KClosePathRelMoveTo
			}
			add(start, rec.Op{K: k, F: [6]float32{x, y}})
		case op >= 0xe6 && op <= 0xe9:
			x, ok := r.coord()
			if !ok {
				return fail("h/v")
			}
			add(start, rec.Op{K: rec.KAbsHLineTo + rec.Kind(op-0xe6), F: [6]float32{x}})
		default:
			return fail("reserved drawing opcode")
		}
	}
	res.EndsInPath = drawing
	return res
}

// MIDsIncreasing reports whether chunk identifiers are strictly increasing.
func (m *Meta) MIDsIncreasing() bool {
	for i := 1; i < len(m.MIDs); i++ {
		if m.MIDs[i] <= m.MIDs[i-1] {
			return false
		}
	}
	return true
}

// Ulps returns the distance in units in the last place between two float32 of
// the same sign (a large number otherwise).
func Ulps(a, b float32) int64 {
	if a == b {
		return 0
	}
	if a != a || b != b {
		if a != a && b != b {
			return 0
		}
		return 1 << 40
	}
	ia, ib := int64(int32(math.Float32bits(a))), int64(int32(math.Float32bits(b)))
	if (ia < 0) != (ib < 0) {
		return 1 << 40
	}
	if ia > ib {
		return ia - ib
	}
	return ib - ia
}
