package ref

import "math"

// ArcCenter is the centre parameterisation of an SVG elliptical arc.
type ArcCenter struct {
	CX, CY     float64
	RX, RY     float64 // after the uniform scale-up for undersized radii
	Phi        float64
	Theta1     float64
	Delta      float64 // signed sweep
	Lambda     float64 // radii check value: > 1 means the radii were scaled up
	Degenerate bool    // a radius is zero (or not a number): straight line
}

// ArcToCenter converts the endpoint parameterisation (x1,y1) -> (x2,y2) with
// radii rx, ry, x-axis rotation phi (radians) and the two flags into the
// centre parameterisation, following SVG 1.1 implementation notes F.6.5 and
// F.6.6 (own implementation, float64).
func ArcToCenter(x1, y1, x2, y2, rx, ry, phi float64, largeArc, sweep bool) ArcCenter {
	a := ArcCenter{Phi: phi}
	a.RX, a.RY = math.Abs(rx), math.Abs(ry)
	if !(a.RX > 0 && a.RY > 0) {
		a.Degenerate = true
		return a
	}
	c, s := math.Cos(phi), math.Sin(phi)
	dx, dy := (x1-x2)/2, (y1-y2)/2
	xp := c*dx + s*dy
	yp := -s*dx + c*dy
	a.Lambda = xp*xp/(a.RX*a.RX) + yp*yp/(a.RY*a.RY)
	if a.Lambda > 1 {
		q := math.Sqrt(a.Lambda)
		a.RX *= q
		a.RY *= q
	}
	num := a.RX*a.RX*a.RY*a.RY - a.RX*a.RX*yp*yp - a.RY*a.RY*xp*xp
	den := a.RX*a.RX*yp*yp + a.RY*a.RY*xp*xp
	co := 0.0
	if num > 0 && den > 0 {
		co = math.Sqrt(num / den)
	}
	if largeArc == sweep {
		co = -co
	}
	cxp := co * a.RX * yp / a.RY
	cyp := -co * a.RY * xp / a.RX
	a.CX = c*cxp - s*cyp + (x1+x2)/2
	a.CY = s*cxp + c*cyp + (y1+y2)/2
	a.Theta1 = math.Atan2((yp-cyp)/a.RY, (xp-cxp)/a.RX)
	th2 := math.Atan2((-yp-cyp)/a.RY, (-xp-cxp)/a.RX)
	a.Delta = th2 - a.Theta1
	if sweep && a.Delta < 0 {
		a.Delta += 2 * math.Pi
	} else if !sweep && a.Delta > 0 {
		a.Delta -= 2 * math.Pi
	}
	return a
}

// ToUnitCircle maps a point to the arc's unit-circle coordinates: rotate by
// -phi about the centre, divide by the radii.
func (a *ArcCenter) ToUnitCircle(x, y float64) (u, v float64) {
	c, s := math.Cos(-a.Phi), math.Sin(-a.Phi)
	vx, vy := x-a.CX, y-a.CY
	return (c*vx - s*vy) / a.RX, (s*vx + c*vy) / a.RY
}

// Bezier3 evaluates a cubic Bézier curve.
func Bezier3(t float64, p0, p1, p2, p3 [2]float64) [2]float64 {
	u := 1 - t
	var o [2]float64
	for i := 0; i < 2; i++ {
		o[i] = u*u*u*p0[i] + 3*u*u*t*p1[i] + 3*u*t*t*p2[i] + t*t*t*p3[i]
	}
	return o
}
