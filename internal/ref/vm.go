package ref

import (
	"image/color"
	"math"

	"github.com/reactivego/ivg"

	"ivgverif/internal/rec"
)

// VM is the specification's decoding virtual machine: custom palette, 64
// colour and 64 number registers, two selectors and the level-of-detail
// bounds.
type VM struct {
	VB         ivg.ViewBox
	Pal        [64]color.RGBA
	CReg       [64]color.RGBA
	NReg       [64]float32
	CSel, NSel int
	LOD0, LOD1 float32
	InPath     bool
}

func mod64(i int) int { return ((i % 64) + 64) % 64 }

// NewVM returns a machine in its initial state for the given metadata.
func NewVM(vb ivg.ViewBox, pal [64]color.RGBA) *VM {
	m := &VM{}
	m.Reset(vb, pal)
	return m
}

func (m *VM) Reset(vb ivg.ViewBox, pal [64]color.RGBA) {
	*m = VM{VB: vb, Pal: pal, CReg: pal, LOD1: float32(math.Inf(1))}
}

func (m *VM) one(x byte) color.RGBA {
	s := Color1(x)
	switch s.Typ {
	case ivg.ColorTypePaletteIndex:
		return m.Pal[s.Idx&63]
	case ivg.ColorTypeCReg:
		return m.CReg[s.Idx&63]
	}
	return s.RGBA
}

// Blend is the specification's blend formula on resolved operands.
func Blend(t uint8, a, b color.RGBA) color.RGBA {
	f := func(x, y uint8) uint8 { return uint8(((255-int(t))*int(x) + int(t)*int(y) + 128) / 255) }
	return color.RGBA{f(a.R, b.R), f(a.G, b.G), f(a.B, b.B), f(a.A, b.A)}
}

// Resolve resolves a colour in the machine's current context.
func (m *VM) Resolve(s rec.ColorSpec) color.RGBA {
	switch s.Typ {
	case ivg.ColorTypeRGBA:
		return s.RGBA
	case ivg.ColorTypePaletteIndex:
		return m.Pal[s.Idx&63]
	case ivg.ColorTypeCReg:
		return m.CReg[s.Idx&63]
	}
	return Blend(s.T, m.one(s.C0), m.one(s.C1))
}

// Step applies one styling call to the machine. Drawing calls only track
// whether a path is open.
func (m *VM) Step(o *rec.Op) {
	switch o.K {
	case rec.KReset:
		pal := ivg.DefaultPalette
		if o.Pal != nil {
			pal = *o.Pal
		}
		m.Reset(o.VB, pal)
	case rec.KSetCSel:
		m.CSel = int(o.Sel & 63)
	case rec.KSetNSel:
		m.NSel = int(o.Sel & 63)
	case rec.KSetCReg:
		m.CReg[mod64(m.CSel-int(o.Adj))] = m.Resolve(rec.Spec(o.Col))
		if o.Incr {
			m.CSel = mod64(m.CSel + 1)
		}
	case rec.KSetNReg:
		m.NReg[mod64(m.NSel-int(o.Adj))] = o.F[0]
		if o.Incr {
			m.NSel = mod64(m.NSel + 1)
		}
	case rec.KSetLOD:
		m.LOD0, m.LOD1 = o.F[0], o.F[1]
	case rec.KStartPath:
		m.InPath = true
	case rec.KClosePathEndPath:
		m.InPath = false
	}
}

// Expect is the paint the machine prescribes for a path.
type Expect struct {
	Skip    string // "", or the reason the path is not drawn
	Flat    color.RGBA
	Grad    bool
	Shape   int
	Spread  int
	Colors  []color.RGBA
	Offsets []float64
	// VB2Grad is the viewBox-to-gradient matrix held in the number registers.
	VB2Grad [6]float64
	NStops  int
	CBase   int
	NBase   int
}

// IsGradientValue reports whether a register value encodes a gradient.
func IsGradientValue(c color.RGBA) bool { return c.A == 0 && c.B >= 0x80 }

// PaintFor returns what a path started now with the given ADJ must be filled
// with when the raster is height pixels high.
func (m *VM) PaintFor(adj int, height int) Expect {
	c := m.CReg[mod64(m.CSel-adj)]
	h := float32(height)
	lodOK := m.LOD0 <= h && h < m.LOD1
	switch {
	case validPremul(c):
		if c.A == 0 {
			return Expect{Skip: "transparent"}
		}
		if !lodOK {
			return Expect{Skip: "lod"}
		}
		return Expect{Flat: c}
	case IsGradientValue(c):
		e := Expect{Grad: true, NStops: int(c.R & 0x3f), CBase: int(c.G & 0x3f), NBase: int(c.B & 0x3f), Shape: int(c.B>>6) & 1, Spread: int(c.G >> 6)}
		prev := math.Inf(-1)
		for i := 0; i < e.NStops; i++ {
			sc := m.CReg[mod64(e.CBase+i)]
			so := float64(m.NReg[mod64(e.NBase+i)])
			if !validPremul(sc) {
				return Expect{Skip: "stop-not-premultiplied"}
			}
			if !(so >= 0 && so <= 1) {
				return Expect{Skip: "stop-offset-out-of-range"}
			}
			if !(so > prev) {
				return Expect{Skip: "stop-offsets-not-increasing"}
			}
			prev = so
			e.Colors = append(e.Colors, sc)
			e.Offsets = append(e.Offsets, so)
		}
		if e.NStops < 2 {
			return Expect{Skip: "nstops<2"}
		}
		if !lodOK {
			return Expect{Skip: "lod"}
		}
		for i := 0; i < 6; i++ {
			e.VB2Grad[i] = float64(m.NReg[mod64(e.NBase-6+i)])
		}
		return e
	}
	return Expect{Skip: "non-premultiplied"}
}

// Pix2Grad composes the viewBox-to-gradient matrix with the pixel-to-viewBox
// map of a dx-by-dy pixel rectangle (pixel (px,py) relative to the rectangle's
// origin corresponds to viewBox point (MinX + px/sx, MinY + py/sy)).
func Pix2Grad(m [6]float64, vb ivg.ViewBox, dx, dy int) [6]float64 {
	sx := float64(dx) / (float64(vb.MaxX) - float64(vb.MinX))
	sy := float64(dy) / (float64(vb.MaxY) - float64(vb.MinY))
	bx, by := float64(vb.MinX), float64(vb.MinY)
	return [6]float64{m[0] / sx, m[1] / sy, m[2] + m[0]*bx + m[1]*by, m[3] / sx, m[4] / sy, m[5] + m[3]*bx + m[4]*by}
}
