package ref

import (
	"image/color"
	"math"
)

// GStop is a gradient stop: offset and 16-bit premultiplied colour.
type GStop struct {
	Off float64
	C   [4]float64
}

// Grad is the reference gradient paint.
type Grad struct {
	Shape  int // 0 linear, 1 radial
	Spread int // 0 none, 1 pad, 2 reflect, 3 repeat
	Stops  []GStop
}

// Stop16 converts an 8-bit premultiplied colour to the 16-bit stop colour.
func Stop16(c color.RGBA) [4]float64 {
	return [4]float64{float64(c.R) * 257, float64(c.G) * 257, float64(c.B) * 257, float64(c.A) * 257}
}

// SpreadOffset maps an offset into [0,1] according to the spread mode;
// visible is false for spread none outside [0,1].
func SpreadOffset(spread int, x float64) (o float64, visible bool) {
	if x >= 0 && x <= 1 {
		return x, true
	}
	switch spread {
	case 0:
		return 0, false
	case 1:
		if x < 0 {
			return 0, true
		}
		return 1, true
	case 2: // triangle wave of period 2
		t := math.Mod(x, 2)
		if t < 0 {
			t += 2
		}
		if t > 1 {
			t = 2 - t
		}
		return t, true
	}
	return x - math.Floor(x), true
}

// ColorAt is the gradient colour at (unspread) offset x.
func (g *Grad) ColorAt(x float64) [4]float64 {
	o, vis := SpreadOffset(g.Spread, x)
	if !vis || len(g.Stops) == 0 {
		return [4]float64{}
	}
	s := g.Stops
	if o <= s[0].Off {
		return s[0].C
	}
	for i := 0; i+1 < len(s); i++ {
		if o <= s[i+1].Off {
			t := (o - s[i].Off) / (s[i+1].Off - s[i].Off)
			var out [4]float64
			for k := range out {
				out[k] = (1-t)*s[i].C[k] + t*s[i+1].C[k]
			}
			return out
		}
	}
	return s[len(s)-1].C
}

// Envelope returns, per channel, the exact minimum and maximum of the
// gradient colour over offsets in [x-delta, x+delta]. The colour is a
// piecewise linear function of the offset, so the extremes are attained at
// the interval ends, at stop offsets inside the interval, or at one of the
// one-sided limits of a spread discontinuity inside it.
func (g *Grad) Envelope(x, delta float64) (lo, hi [4]float64) {
	lo = [4]float64{math.Inf(1), math.Inf(1), math.Inf(1), math.Inf(1)}
	hi = [4]float64{math.Inf(-1), math.Inf(-1), math.Inf(-1), math.Inf(-1)}
	add := func(p float64) {
		c := g.ColorAt(p)
		for k := 0; k < 4; k++ {
			lo[k] = math.Min(lo[k], c[k])
			hi[k] = math.Max(hi[k], c[k])
		}
	}
	add(x)
	if delta <= 0 {
		return
	}
	a, b := x-delta, x+delta
	add(a)
	add(b)
	for k := math.Floor(a) - 1; k <= math.Floor(b)+1; k++ {
		try := func(p float64) {
			if p >= a && p <= b {
				add(p)
				if q := math.Nextafter(p, math.Inf(-1)); q >= a {
					add(q)
				}
				if q := math.Nextafter(p, math.Inf(1)); q <= b {
					add(q)
				}
			}
		}
		try(k)
		for _, s := range g.Stops {
			try(k + s.Off)
			try(k + 1 - s.Off)
		}
	}
	return
}

// Offset is the gradient-space offset of a gradient-space point.
func (g *Grad) Offset(gx, gy float64) float64 {
	if g.Shape == 0 {
		return gx
	}
	return math.Sqrt(gx*gx + gy*gy)
}
