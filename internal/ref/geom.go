package ref

import (
	"math"

	"github.com/reactivego/ivg"

	"ivgverif/internal/rec"
)

// Geom is the reference interpretation of drawing operations: it says which
// rasterizer call each non-arc drawing operation must produce, computed in
// float64 from the actual pen, sub-path start and previous control point.
type Geom struct {
	VB     ivg.ViewBox
	DX, DY int
	// PrevFamily is the curve family of the previous drawing operation:
	// 0 none/line/arc/move, 1 quadratic, 2 cubic.
	PrevFamily int
	// PrevCtrl is the (actual, recorded) last control point of the previous
	// curve.
	PrevCtrlX, PrevCtrlY float64
}

// ExpCall is an expected rasterizer call. Mag[i] is the magnitude of the
// terms that were added to form coordinate A[i] (for a conditioning-aware
// tolerance).
type ExpCall struct {
	K   rec.RKind
	A   [6]float64
	Mag [6]float64
	N   int
}

func (g *Geom) scale() (sx, sy, mx, my float64) {
	sx = float64(g.DX) / (float64(g.VB.MaxX) - float64(g.VB.MinX))
	sy = float64(g.DY) / (float64(g.VB.MaxY) - float64(g.VB.MinY))
	return sx, sy, float64(g.VB.MinX), float64(g.VB.MinY)
}

// AbsPoint maps a viewBox point to pixel space (relative to the rectangle's
// origin, as the rasterizer is reset to the rectangle's size).
func (g *Geom) AbsPoint(x, y float64) (px, py, mag float64) {
	sx, sy, mx, my := g.scale()
	return sx * (x - mx), sy * (y - my), math.Abs(sx)*(math.Abs(x)+math.Abs(mx)) + math.Abs(sy)*(math.Abs(y)+math.Abs(my))
}

// Family returns the curve family of a drawing operation kind.
func Family(k rec.Kind) int {
	switch k {
	case rec.KAbsSmoothQuadTo, rec.KRelSmoothQuadTo, rec.KAbsQuadTo, rec.KRelQuadTo:
		return 1
	case rec.KAbsSmoothCubeTo, rec.KRelSmoothCubeTo, rec.KAbsCubeTo, rec.KRelCubeTo:
		return 2
	}
	return 0
}

// Expect returns the rasterizer calls operation o must produce given the pen
// and the start of the current sub-path. Arc operations return nil (they are
// judged by the arc oracle).
func (g *Geom) Expect(o *rec.Op, penX, penY, firstX, firstY float64) []ExpCall {
	sx, sy, mx, my := g.scale()
	f := func(i int) float64 { return float64(o.F[i]) }
	type pt struct{ x, y, m float64 }
	abs := func(i int) pt {
		x, y := f(i), f(i+1)
		return pt{sx * (x - mx), sy * (y - my), math.Abs(sx)*(math.Abs(x)+math.Abs(mx)) + math.Abs(sy)*(math.Abs(y)+math.Abs(my))}
	}
	relFrom := func(i int, bx, by float64) pt {
		x, y := f(i), f(i+1)
		return pt{bx + sx*x, by + sy*y, math.Abs(bx) + math.Abs(by) + math.Abs(sx*x) + math.Abs(sy*y)}
	}
	rel := func(i int) pt { return relFrom(i, penX, penY) }
	smooth := func(fam int) pt {
		if g.PrevFamily != fam {
			return pt{penX, penY, math.Abs(penX) + math.Abs(penY)}
		}
		return pt{2*penX - g.PrevCtrlX, 2*penY - g.PrevCtrlY, 2*(math.Abs(penX)+math.Abs(penY)) + math.Abs(g.PrevCtrlX) + math.Abs(g.PrevCtrlY)}
	}
	mk := func(k rec.RKind, ps ...pt) ExpCall {
		c := ExpCall{K: k, N: 2 * len(ps)}
		for i, p := range ps {
			c.A[2*i], c.A[2*i+1] = p.x, p.y
			c.Mag[2*i], c.Mag[2*i+1] = p.m, p.m
		}
		return c
	}
	switch o.K {
	case rec.KStartPath:
		return []ExpCall{{K: rec.RReset, A: [6]float64{float64(g.DX), float64(g.DY)}, N: 2}, mk(rec.RMoveTo, abs(0))}
	case rec.KClosePathEndPath:
		return []ExpCall{{K: rec.RClosePath}, {K: rec.RDraw}}
	case rec.KClosePathAbsMoveTo:
		return []ExpCall{{K: rec.RClosePath}, mk(rec.RMoveTo, abs(0))}
	case rec.KClosePathRelMoveTo:
		// relative to the pen after closing, i.e. the start of the sub-path
		return []ExpCall{{K: rec.RClosePath}, mk(rec.RMoveTo, relFrom(0, firstX, firstY))}
	case rec.KAbsHLineTo:
		x := f(0)
		return []ExpCall{mk(rec.RLineTo, pt{sx * (x - mx), penY, math.Abs(sx)*(math.Abs(x)+math.Abs(mx)) + math.Abs(penY)})}
	case rec.KRelHLineTo:
		return []ExpCall{mk(rec.RLineTo, pt{penX + sx*f(0), penY, math.Abs(penX) + math.Abs(penY) + math.Abs(sx*f(0))})}
	case rec.KAbsVLineTo:
		y := f(0)
		return []ExpCall{mk(rec.RLineTo, pt{penX, sy * (y - my), math.Abs(sy)*(math.Abs(y)+math.Abs(my)) + math.Abs(penX)})}
	case rec.KRelVLineTo:
		return []ExpCall{mk(rec.RLineTo, pt{penX, penY + sy*f(0), math.Abs(penX) + math.Abs(penY) + math.Abs(sy*f(0))})}
	case rec.KAbsLineTo:
		return []ExpCall{mk(rec.RLineTo, abs(0))}
	case rec.KRelLineTo:
		return []ExpCall{mk(rec.RLineTo, rel(0))}
	case rec.KAbsSmoothQuadTo:
		return []ExpCall{mk(rec.RQuadTo, smooth(1), abs(0))}
	case rec.KRelSmoothQuadTo:
		return []ExpCall{mk(rec.RQuadTo, smooth(1), rel(0))}
	case rec.KAbsQuadTo:
		return []ExpCall{mk(rec.RQuadTo, abs(0), abs(2))}
	case rec.KRelQuadTo:
		return []ExpCall{mk(rec.RQuadTo, rel(0), rel(2))}
	case rec.KAbsSmoothCubeTo:
		return []ExpCall{mk(rec.RCubeTo, smooth(2), abs(0), abs(2))}
	case rec.KRelSmoothCubeTo:
		return []ExpCall{mk(rec.RCubeTo, smooth(2), rel(0), rel(2))}
	case rec.KAbsCubeTo:
		return []ExpCall{mk(rec.RCubeTo, abs(0), abs(2), abs(4))}
	case rec.KRelCubeTo:
		return []ExpCall{mk(rec.RCubeTo, rel(0), rel(2), rel(4))}
	}
	return nil
}

// After updates the smooth-curve memory from the recorded call produced by o.
func (g *Geom) After(o *rec.Op, produced *rec.RCall) {
	fam := Family(o.K)
	g.PrevFamily = fam
	if produced == nil {
		return
	}
	switch fam {
	case 1:
		g.PrevCtrlX, g.PrevCtrlY = float64(produced.A[0]), float64(produced.A[1])
	case 2:
		g.PrevCtrlX, g.PrevCtrlY = float64(produced.A[2]), float64(produced.A[3])
	}
}
