package props

import (
	"fmt"
	"image/color"
	"math"

	"github.com/reactivego/ivg"
	"github.com/reactivego/ivg/decode"

	"ivgverif/internal/gen"
	"ivgverif/internal/rec"
	"ivgverif/internal/ref"
	"ivgverif/internal/run"
)

// C13 — metadata: defaults, suggested palette, viewBox validation, chunk
// framing. Monitor: the arguments of Reset and the result of DecodeViewBox vs
// the reference metadata parser, over generated metadata sections.

func init() {
	run.Register(&run.Prop{
		ID:    "C13",
		Title: "Metadata: defaults, suggested palette, viewBox validation, chunk framing",
		Rule:  "every case is a hand-assembled stream whose metadata section is generated (0-2 chunks in increasing MID order, optional unknown/oversized trailing chunk, every palette format and count, viewBox numbers of every form and class, lengths and counts off in both directions) followed by 0-3 instructions; non-trivial = at least one chunk is present; distinctness by hash of the bytes",
		Assumptions: []string{
			"reference metadata parser ref.ParseMeta written from the specification",
			"metadata chunk identifiers are kept strictly increasing (order/repetition is a declared don't-care)",
		},
		Subs: []*run.Sub{
			{Name: "palette-bytes", N: func(string) uint64 { return 4 * 256 }, Run: c13PaletteBytes,
				Rule: "exhaustive over the first colour byte: for each palette format (1,2,3,4 bytes per colour) and each value 0..255 of the first byte, palettes of several entry counts whose other bytes are PRNG-chosen",
				Min:  map[string]int64{"accepted": 4000, "black_substituted": 500}},
			{Name: "sections", N: func(t string) uint64 {
				if t == "thorough" {
					return 120_000_000
				}
				return 2_000_000
			}, Run: c13Sections,
				Rule: "generated metadata sections as described in the property's quantifier",
				Min: map[string]int64{"accepted": 20000, "rejected": 20000, "viewbox_chunk": 10000, "palette_chunk": 10000, "degenerate_viewbox_accepted": 50, "all_zero_viewbox": 200, "repeated_chunk_identifiers": 50000,
					"rejected_viewbox_inverted": 100, "rejected_viewbox_nonfinite": 100, "rejected_length": 1000, "rejected_unknown_mid": 100, "rejected_count": 100, "huge_opposite_sign_viewbox": 1000, "nonfinite_bound_position_0": 500, "nonfinite_bound_position_3": 500}},
		},
	})
}

// c13Judge decodes b through Decode and DecodeViewBox and compares with the
// reference.
func c13Judge(c *run.Ctx, b []byte, note string) {
	c.Input(b)
	meta, merr := ref.ParseMeta(b)
	res := ref.Parse(b)
	detail := func(extra map[string]interface{}) interface{} {
		d := map[string]interface{}{"input": hx(b), "note": note}
		if merr != nil {
			d["reference_metadata_error"] = merr.Msg
		}
		for k, v := range extra {
			d[k] = v
		}
		return d
	}
	var ops []rec.Op
	var err error
	if !c.Guard("Decode", func() interface{} { return hx(b) }, func() { ops, err = decodeRec(b) }) {
		return
	}
	var vb ivg.ViewBox
	var verr error
	if !c.Guard("DecodeViewBox", func() interface{} { return hx(b) }, func() { vb, verr = decode.DecodeViewBox(b) }) {
		return
	}
	if merr != nil {
		c.Count("rejected", 1)
		switch merr.Msg {
		case "viewBox inverted":
			c.Count("rejected_viewbox_inverted", 1)
		case "viewBox not finite":
			c.Count("rejected_viewbox_nonfinite", 1)
		case "chunk length mismatch":
			c.Count("rejected_length", 1)
		case "unknown chunk identifier":
			c.Count("rejected_unknown_mid", 1)
		case "chunk length", "chunk identifier", "number of chunks", "viewBox number", "palette header", "palette colour":
			c.Count("rejected_count", 1)
		}
		if err == nil {
			c.Violate("invalid-metadata-accepted", detail(nil))
		}
		if verr == nil {
			c.Violate("DecodeViewBox-accepts-invalid-metadata", detail(map[string]interface{}{"viewbox": fmt.Sprint(vb)}))
		}
		if len(ops) != 0 {
			c.Violate("calls-before-valid-metadata", detail(map[string]interface{}{"first": ops[0].String()}))
		}
		return
	}
	// metadata valid
	if verr != nil {
		c.Violate("DecodeViewBox-rejects-valid-metadata", detail(map[string]interface{}{"error": verr.Error()}))
	} else if !sameVB(vb, meta.ViewBox) {
		c.Violate("DecodeViewBox-wrong-box", detail(map[string]interface{}{"got": fmt.Sprint(vb), "want": fmt.Sprint(meta.ViewBox)}))
	}
	if len(ops) == 0 {
		c.Violate("no-Reset-after-valid-metadata", detail(map[string]interface{}{"decode_error": errStr(err)}))
		return
	}
	o := ops[0]
	if o.K != rec.KReset {
		c.Violate("first-call-not-Reset", detail(map[string]interface{}{"first": o.String()}))
		return
	}
	if !sameVB(o.VB, meta.ViewBox) {
		c.Violate("Reset-viewbox", detail(map[string]interface{}{"got": fmt.Sprint(o.VB), "want": fmt.Sprint(meta.ViewBox)}))
	}
	if *o.Pal != meta.Palette {
		i := 0
		for ; i < 64 && o.Pal[i] == meta.Palette[i]; i++ {
		}
		c.Violate("Reset-palette", detail(map[string]interface{}{"index": i, "got": fmt.Sprint(o.Pal[i]), "want": fmt.Sprint(meta.Palette[i])}))
	}
	if (err == nil) != (res.Err == nil) {
		c.Violate("accept-reject", detail(map[string]interface{}{"decode_error": errStr(err), "reference": fmt.Sprint(res.Err)}))
	}
	if err == nil {
		c.Count("accepted", 1)
	} else {
		c.Count("rejected_in_instructions", 1)
	}
	if meta.ViewBox.MinX == meta.ViewBox.MaxX || meta.ViewBox.MinY == meta.ViewBox.MaxY {
		c.Count("degenerate_viewbox_accepted", 1)
	}
}

func sameVB(a, b ivg.ViewBox) bool {
	return rec.SameBits(a.MinX, b.MinX) && rec.SameBits(a.MinY, b.MinY) && rec.SameBits(a.MaxX, b.MaxX) && rec.SameBits(a.MaxY, b.MaxY)
}

func c13PaletteBytes(c *run.Ctx, idx uint64) {
	format := int(idx / 256)
	first := byte(idx % 256)
	r := c.Rng(idx)
	for _, cnt := range []int{1, 2, 7, 64} {
		for rep := 0; rep < 3; rep++ {
			var ch gen.Asm
			ch.Nat(1, 1)
			ch.Byte(byte(cnt-1) | byte(format)<<6)
			body := r.Bytes(cnt * (format + 1))
			pos := r.Intn(cnt) * (format + 1)
			body[pos] = first
			if format == 3 && rep == 1 {
				// make the probed entry premultiplied-valid or gradient-looking
				body[pos+3] = byte(r.Pick(0, 0xff, int(first)))
			}
			ch.Byte(body...)
			var a gen.Asm
			a.Magic()
			a.Nat(1, 1)
			a.NatMin(uint32(len(ch.B)))
			a.Byte(ch.B...)
			if rep == 2 {
				a.Byte(0x80, first) // one instruction using a 1-byte colour
			}
			c.Eval(run.HashBytes(a.B), true)
			if c.WantSample() {
				c.Sample(map[string]string{"stream": hx(a.B)})
			}
			// count entries that must turn black
			for i := 0; i < cnt; i++ {
				s := ref.DecodeColor(format, body[i*(format+1):(i+1)*(format+1)])
				if s.Typ != ivg.ColorTypeRGBA || s.RGBA.R > s.RGBA.A || s.RGBA.G > s.RGBA.A || s.RGBA.B > s.RGBA.A {
					c.Count("black_substituted", 1)
				}
			}
			c13Judge(c, a.B, "palette-bytes")
		}
	}
	c.Exhaustive()
}

func c13Sections(c *run.Ctx, idx uint64) {
	r := c.Rng(idx)
	var a gen.Asm
	a.Magic()
	if idx%16 == 9 {
		// Chunk identifiers that repeat or come out of order, some chunks invalid in
		// themselves: an invalid chunk is never redeemed by a later one; for valid
		// ones the decoder's own reading (chunk by chunk, later entries override)
		// is what both entry points must agree on.
		a.MetadataRepeated(r)
		c.Count("repeated_chunk_identifiers", 1)
		c13Judge(c, a.B, "repeated identifiers")
		return
	}
	f4 := func(f float32) uint32 { return math.Float32bits(f) >> 2 }
	// chunk bodies, MIDs increasing
	type chunk struct {
		body []byte
	}
	var chunks []chunk
	hasVB, hasPal := r.Chance(1, 2), r.Chance(1, 2)
	if hasVB {
		c.Count("viewbox_chunk", 1)
		var ch gen.Asm
		ch.Nat(0, gen.RandWidth(r))
		mode := r.Intn(13)
		coordNat := func(v int) { // v in 1/64 units, within [-8192, 8191]
			if v%64 == 0 && v/64 >= -64 && v/64 < 64 && r.Bool() {
				ch.Nat(uint32(v/64+64), 1)
			} else if r.Chance(2, 3) {
				ch.Nat(uint32(v+8192), 2)
			} else {
				ch.Nat(f4(float32(v)/64), 4)
			}
		}
		switch {
		case mode < 4: // ordered grid values (valid), sometimes degenerate
			x0, x1 := r.Range(-8192, 8191), r.Range(-8192, 8191)
			y0, y1 := r.Range(-8192, 8191), r.Range(-8192, 8191)
			if x0 > x1 {
				x0, x1 = x1, x0
			}
			if y0 > y1 {
				y0, y1 = y1, y0
			}
			if r.Chance(1, 8) {
				x1 = x0
			}
			if r.Chance(1, 8) {
				y1 = y0
			}
			coordNat(x0)
			coordNat(y0)
			coordNat(x1)
			coordNat(y1)
		case mode < 6: // arbitrary floats, ordered
			v := [4]float32{gen.Finite(r), gen.Finite(r), gen.Finite(r), gen.Finite(r)}
			if v[0] > v[2] {
				v[0], v[2] = v[2], v[0]
			}
			if v[1] > v[3] {
				v[1], v[3] = v[3], v[1]
			}
			for _, f := range v {
				ch.Nat(f4(f), 4)
			}
		case mode < 8: // arbitrary numbers in arbitrary forms (often inverted)
			for i := 0; i < 4; i++ {
				ch.Num(r)
			}
		case mode == 8: // one non-finite
			k := r.Intn(4)
			for i := 0; i < 4; i++ {
				if i == k {
					ch.Nat(f4(float32(r.PickF(math.Inf(1), math.Inf(-1), math.NaN()))), 4)
					if r.Bool() {
						ch.B[len(ch.B)-2] |= 1 // NaN payload variation
					}
				} else {
					ch.Nat(uint32(64+i*3), 1)
				}
			}
		case mode == 9: // wrong number of coordinates
			for i := r.Pick(0, 1, 2, 3, 5); i > 0; i-- {
				ch.Num(r)
			}
		case mode == 10: // huge finite bounds of opposite sign: valid although max-min overflows float32
			big := []float32{3.4028235e38, 2.5e38, 1.8e38, 1e38}
			c.Count("huge_opposite_sign_viewbox", 1)
			ch.Nat(f4(-big[r.Intn(4)]), 4)
			ch.Nat(f4(-big[r.Intn(4)]), 4)
			ch.Nat(f4(big[r.Intn(4)]), 4)
			ch.Nat(f4(big[r.Intn(4)]), 4)
		case mode == 12: // "special" boxes: all-zero (also with negative zeros), the default box stored explicitly, unit and point boxes around the origin
			c.Count("special_viewbox", 1)
			var v [4]float32
			switch r.Intn(4) {
			case 0: // (0,0,0,0)
				c.Count("all_zero_viewbox", 1)
			case 1:
				v = [4]float32{-32, -32, 32, 32}
			case 2:
				p := float32(r.Pick(-1, 0, 1, 32, -32))
				v = [4]float32{p, p, p, p}
			default:
				v = [4]float32{float32(r.Pick(-1, 0)), float32(r.Pick(-1, 0)), float32(r.Pick(0, 1)), float32(r.Pick(0, 1))}
			}
			for _, f := range v {
				switch {
				case f == 0 && r.Chance(1, 4):
					ch.Nat(f4(float32(math.Copysign(0, -1))), 4)
				case r.Chance(1, 3):
					ch.Nat(f4(f), 4)
				default:
					coordNat(int(f) * 64)
				}
			}
		default: // a non-finite bound of either sign in every position, the rest consistent with it
			k := r.Intn(4)
			nf := float32(r.PickF(math.Inf(1), math.Inf(-1), math.NaN(), -math.NaN()))
			c.Count("nonfinite_bound_position_"+fmt.Sprint(k), 1)
			for i := 0; i < 4; i++ {
				switch {
				case i == k:
					ch.Nat(f4(nf), 4)
				case i < 2:
					ch.Nat(f4(-5), 4)
				default:
					ch.Nat(f4(5), 4)
				}
			}
		}
		chunks = append(chunks, chunk{ch.B})
	}
	if hasPal {
		c.Count("palette_chunk", 1)
		var ch gen.Asm
		ch.Nat(1, gen.RandWidth(r))
		cnt, format := r.Pick(1, 2, 3, 63, 64, r.Range(1, 64)), r.Intn(4)
		ch.Byte(byte(cnt-1) | byte(format)<<6)
		n := cnt * (format + 1)
		if r.Chance(1, 8) {
			n += r.Pick(-2, -1, 1, 2)
			if n < 0 {
				n = 0
			}
		}
		for i := 0; i < n; i++ {
			switch r.Intn(4) {
			case 0:
				ch.Byte(byte(r.Pick(0, 0x7c, 0x7d, 0x7e, 0x7f, 0x80, 0xbf, 0xc0, 0xff, 0x40, 0x0f, 0xf0)))
			default:
				ch.Byte(r.Byte())
			}
		}
		chunks = append(chunks, chunk{ch.B})
	}
	if r.Chance(1, 12) {
		// trailing chunk with an unknown identifier
		var ch gen.Asm
		mid := uint32(r.Pick(2, 3, 64, 127, 128, 16383, 1<<20, 0x3fffffff))
		ch.NatMin(mid)
		ch.Byte(r.Bytes(r.Intn(5))...)
		chunks = append(chunks, chunk{ch.B})
	}
	// declared chunk count
	declared := uint32(len(chunks))
	switch r.Intn(16) {
	case 0:
		declared++
	case 1:
		if declared > 0 {
			declared--
		}
	case 2:
		declared = uint32(r.Pick(3, 100, 16384, 0x3fffffff))
	}
	w := gen.RandWidth(r)
	if declared >= 128 && w == 1 {
		w = 2
	}
	if declared >= 16384 {
		w = 4
	}
	a.Nat(declared, w)
	for _, ch := range chunks {
		l := uint32(len(ch.body))
		switch r.Intn(14) {
		case 0:
			l++
		case 1:
			l += 2
		case 2:
			if l > 0 {
				l--
			}
		case 3:
			if l > 1 {
				l -= 2
			}
		case 4:
			l *= 2
		case 5:
			l = 0
		case 6:
			l = 0x3fffffff
		}
		lw := gen.RandWidth(r)
		if l >= 128 && lw == 1 {
			lw = 2
		}
		if l >= 16384 {
			lw = 4
		}
		a.Nat(l, lw)
		a.Byte(ch.body...)
	}
	// 0..3 instructions
	drawing := false
	for n := r.Intn(4); n > 0; n-- {
		if !drawing {
			drawing = a.Instr(r, false, byte(r.Pick(0x05, 0x45, 0x80, 0x98, 0xa8, 0xc0, 0xc7)))
		} else {
			drawing = a.Instr(r, true, byte(r.Pick(0xe1, 0x00, 0xe6, 0x21)))
		}
	}
	b := a.B
	if r.Chance(1, 20) && len(b) > 4 {
		b = b[:r.Range(4, len(b))]
	}
	c.Eval(run.HashBytes(b), len(chunks) > 0)
	if c.WantSample() && len(chunks) > 0 {
		c.Sample(map[string]string{"stream": hx(b)})
	}
	c13Judge(c, b, "sections")
	_ = color.RGBA{}
}
