package props

import (
	"fmt"
	"image"
	"image/color"
	"math"

	"github.com/reactivego/ivg"
	"github.com/reactivego/ivg/decode"
	"github.com/reactivego/ivg/encode"
	"github.com/reactivego/ivg/render"

	"ivgverif/internal/gen"
	"ivgverif/internal/rec"
	"ivgverif/internal/ref"
	"ivgverif/internal/run"
)

// C04 — each path is painted with what the register machine prescribes, or
// not at all. Monitor: the paint snapshot taken at raster.Draw (and the
// absence of any rasterizer activity for skipped paths) vs the reference
// virtual machine fed the same calls.

func init() {
	run.Register(&run.Prop{
		ID:    "C04",
		Title: "Each path is painted with what the register machine prescribes, or not at all",
		Rule:  "every case is a styling/drawing program built to depend on machine state (selector wrap-around by ADJ and by increments, unwritten registers, blends resolved at store time, gradients at every CBASE/NBASE/NSTOPS incl. wrap and invalid stops, LOD pairs around the raster height) fed to a real Renderer over a recording rasterizer, directly and through hand-assembled bytes and the real decoder; non-trivial = at least one path whose paint depends on a register written by the program; distinctness by hash of the call list and configuration",
		Assumptions: []string{
			"reference machine ref.VM written from the specification",
			"gradients with fewer than 2 stops are not judged (specification silent; DESIGN.md 6.3)",
			"gradient transform compared within 1e-6 of the sum of term magnitudes (the renderer keeps its scale in float32)",
		},
		Subs: []*run.Sub{
			{Name: "programs", N: func(t string) uint64 {
				if t == "thorough" {
					return 20_000_000
				}
				return 400_000
			}, Run: c04Program,
				Min: map[string]int64{"paths": 100000, "flat": 10000, "gradient_linear": 1000, "gradient_radial": 1000, "skip_transparent": 1000, "skip_non-premultiplied": 1000, "skip_lod": 1000,
					"skip_stop-not-premultiplied": 100, "skip_stop-offset-out-of-range": 100, "skip_stop-offsets-not-increasing": 100, "paths_after_skipped_path": 1000, "wrapped_stop_registers": 100, "selector_wraps": 1000, "rectangle_set_again_after_reset": 10000, "renderer_value_copied": 10000, "through_destination_logger": 10000}},
			{Name: "via-decoder", N: func(t string) uint64 {
				if t == "thorough" {
					return 10_000_000
				}
				return 200_000
			}, Run: c04ViaDecoder,
				Rule: "the same oracle applied to hand-assembled streams (all styling opcodes, non-canonical forms) decoded by the real decoder into a recorder that forwards to the Renderer",
				Min:  map[string]int64{"paths": 20000, "flat": 1000, "skip_non-premultiplied": 1000}},
		},
	})
}

type c04Cfg struct {
	vb   ivg.ViewBox
	pal  [64]color.RGBA
	rect image.Rectangle
	// given, when set, is the empty rectangle actually handed to SetRasterizer
	// (no width, no height, corners the wrong way round); rect is then the zero
	// rectangle: an empty target has no pixels, its raster height is 0
	given *image.Rectangle
}

// target returns the rectangle to hand to SetRasterizer.
func (cfg c04Cfg) target() image.Rectangle {
	if cfg.given != nil {
		return *cfg.given
	}
	return cfg.rect
}

func c04Config(r *run.Rng) c04Cfg {
	var cfg c04Cfg
	cfg.vb = ivg.DefaultViewBox
	if r.Bool() {
		cfg.vb.MinX, cfg.vb.MinY = float32(r.Uniform(-80, 20)), float32(r.Uniform(-80, 20))
		cfg.vb.MaxX, cfg.vb.MaxY = cfg.vb.MinX+float32(r.Uniform(1, 150)), cfg.vb.MinY+float32(r.Uniform(1, 150))
	}
	cfg.pal = ivg.DefaultPalette
	if r.Chance(3, 4) {
		for i := range cfg.pal {
			cfg.pal[i] = gen.Premul(r)
		}
		if r.Chance(1, 3) {
			// a Renderer can be Reset with any palette, also nonsensical entries
			cfg.pal[r.Intn(64)] = gen.AnyRGBA(r)
		}
	}
	w, h := r.Range(1, 100), r.Range(1, 600)
	cfg.rect = image.Rect(0, 0, w, h).Add(image.Pt(r.Range(-30, 50), r.Range(-30, 50))) // origins of either sign
	if r.Chance(1, 20) {
		// an empty target rectangle: height 0 for the LOD test, nothing to scale to
		o := cfg.rect.Min
		g := image.Rectangle{}
		switch r.Intn(6) {
		case 1:
			g = image.Rectangle{Min: o, Max: o.Add(image.Pt(0, h))} // no width
		case 2:
			g = image.Rectangle{Min: o, Max: o.Add(image.Pt(w, 0))} // no height
		case 3:
			g = image.Rectangle{Min: o.Add(image.Pt(w, 0)), Max: o.Add(image.Pt(0, h))} // corners swapped in x
		case 4:
			g = image.Rectangle{Min: o.Add(image.Pt(0, h)), Max: o.Add(image.Pt(w, 0))} // corners swapped in y
		case 5:
			g = image.Rectangle{Min: o.Add(image.Pt(w, h)), Max: o}
		}
		cfg.given, cfg.rect = &g, image.Rectangle{}
	}
	return cfg
}

// c04Body is the drawing part of every generated path.
func c04Body(r *run.Rng) []rec.Op {
	ops := []rec.Op{{K: rec.KAbsLineTo, F: [6]float32{1, 0}}}
	if r.Bool() {
		ops = append(ops, rec.Op{K: rec.KRelArcTo, Sweep: true, F: [6]float32{1, 1, 0, 3, 3}})
	}
	if r.Chance(1, 4) {
		// an arc that degenerates to a straight line (a radius that is zero or not a
		// number): in a path that is not painted it must stay as silent as any other operation
		rx, ry := float32(r.PickF(0, 0, 2, math.NaN())), float32(r.PickF(0, 3, 0, 1))
		k := rec.KAbsArcTo
		if r.Bool() {
			k = rec.KRelArcTo
		}
		ops = append(ops, rec.Op{K: k, LargeArc: r.Bool(), Sweep: r.Bool(), F: [6]float32{rx, ry, 0.25, 5, 2}})
	}
	if r.Bool() {
		ops = append(ops, rec.Op{K: rec.KClosePathRelMoveTo, F: [6]float32{1, 1}}, rec.Op{K: rec.KAbsQuadTo, F: [6]float32{1, 2, 3, 4}})
	}
	if r.Chance(1, 3) {
		ops = append(ops, rec.Op{K: rec.KRelSmoothCubeTo, F: [6]float32{1, 2, 3, 4}}, rec.Op{K: rec.KAbsHLineTo, F: [6]float32{2}}, rec.Op{K: rec.KRelVLineTo, F: [6]float32{2}})
	}
	return append(ops, rec.Op{K: rec.KClosePathEndPath})
}

// c04Gradient emits the calls that set up a gradient (often a valid one).
func c04Gradient(r *run.Rng, ops []rec.Op) []rec.Op {
	nstops := r.Pick(2, 2, 3, 3, 4, 5, 8, 20, 58, 63, 0, 1)
	cbase, nbase := r.Intn(64), r.Intn(64)
	if r.Chance(1, 4) {
		cbase, nbase = 64-r.Range(1, nstops+1), 64-r.Range(1, nstops+1) // wrap around 63 -> 0
		cbase, nbase = cbase&63, nbase&63
	}
	// matrix in NREG[nbase-6 .. nbase-1]
	ops = append(ops, rec.Op{K: rec.KSetNSel, Sel: uint8(nbase)})
	for i := 6; i >= 1; i-- {
		ops = append(ops, rec.Op{K: rec.KSetNReg, Adj: uint8(i), F: [6]float32{float32(r.Uniform(-2, 2))}})
	}
	// offsets, increasing
	corrupt := r.Intn(10)
	off := r.Uniform(0, 0.3)
	if r.Chance(1, 3) {
		off = 0
	}
	for i := 0; i < nstops; i++ {
		o := off
		if corrupt == 0 && i == nstops/2 {
			o = r.PickF(-0.01, 1.01, 2, math.NaN())
		}
		if corrupt == 1 && i == nstops-1 && i > 0 {
			o = off - r.PickF(0, 0.01, 0.5) // equal or decreasing
			if o < 0 {
				o = 0
			}
		}
		ops = append(ops, rec.Op{K: rec.KSetNReg, Incr: true, F: [6]float32{float32(o)}})
		off += r.Uniform(0.001, (1-off)/float64(nstops-i)+0.001)
		if off > 1 {
			off = 1
		}
	}
	// stop colours
	ops = append(ops, rec.Op{K: rec.KSetCSel, Sel: uint8(cbase)})
	for i := 0; i < nstops; i++ {
		col := ivg.RGBAColor(gen.Premul(r))
		switch {
		case corrupt == 2 && i == nstops/2:
			col = ivg.RGBAColor(color.RGBA{0x80, 0x10, 0x10, 0x40})
		case r.Chance(1, 8):
			col = ivg.PaletteIndexColor(r.Byte())
		case r.Chance(1, 12):
			col = ivg.BlendColor(r.Byte(), r.Byte(), r.Byte())
		}
		ops = append(ops, rec.Op{K: rec.KSetCReg, Incr: true, Col: col})
	}
	// the gradient value itself, into the register the next path will use
	sel := r.Intn(64)
	ops = append(ops, rec.Op{K: rec.KSetCSel, Sel: uint8(sel)})
	adj := uint8(r.Intn(7))
	ops = append(ops, rec.Op{K: rec.KSetCReg, Adj: adj, Col: ivg.RGBAColor(gen.MakeGradientValue(cbase, nbase, r.Intn(2), r.Intn(4), nstops))})
	// occasionally overwrite a stop afterwards (resolution happens at path start for stops)
	if r.Chance(1, 6) && nstops > 0 {
		ops = append(ops, rec.Op{K: rec.KSetCSel, Sel: uint8((cbase + r.Intn(nstops)) & 63)}, rec.Op{K: rec.KSetCReg, Col: gen.Color(r)}, rec.Op{K: rec.KSetCSel, Sel: uint8(sel)})
	}
	ops = append(ops, rec.Op{K: rec.KStartPath, Adj: adj, F: [6]float32{0, 0}})
	ops = append(ops, c04Body(r)...)
	if nstops >= 2 && r.Chance(1, 12) {
		// The same gradient value fills another path after a long stretch of register
		// writes (around the widths of 8-bit counters), one of which changed the
		// first stop's colour: the second path shows the new colour.
		n := r.Pick(254, 255, 256, 257, 511, 512, 513)
		pathReg := (sel - int(adj)) & 63
		other := -1
		for k := 0; k < 64; k++ {
			if k != pathReg && (k-cbase)&63 >= nstops {
				other = k
				break
			}
		}
		if other >= 0 {
			ops = append(ops, rec.Op{K: rec.KSetCSel, Sel: uint8(cbase)}, rec.Op{K: rec.KSetCReg, Col: ivg.RGBAColor(color.RGBA{0x11, 0x77, 0x33, 0xff})})
			ops = append(ops, rec.Op{K: rec.KSetCSel, Sel: uint8(other)}, rec.Op{K: rec.KSetNSel, Sel: uint8((nbase + nstops + 1) & 63)})
			for i := 1; i < n; i++ {
				if i%3 == 0 && (nstops+7) < 64 {
					ops = append(ops, rec.Op{K: rec.KSetNReg, F: [6]float32{float32(i)}}) // NREG[nbase+nstops+1]: neither an offset nor a matrix entry
				} else {
					ops = append(ops, rec.Op{K: rec.KSetCReg, Col: ivg.RGBAColor(color.RGBA{uint8(i), 0, 0, 0xff})})
				}
			}
			ops = append(ops, rec.Op{K: rec.KSetCSel, Sel: uint8(sel)}, rec.Op{K: rec.KStartPath, Adj: adj, F: [6]float32{0, 0}})
			ops = append(ops, c04Body(r)...)
		}
	}
	return ops
}

func c04Program(c *run.Ctx, idx uint64) {
	r := c.Rng(idx)
	cfg := c04Config(r)
	H := float32(cfg.rect.Dy())
	if cfg.given != nil {
		c.Count("empty_target_rectangles", 1)
		if cfg.given.Dy() != 0 {
			c.Count("empty_target_rectangles_with_a_height", 1)
		}
	}
	regNum := func(r *run.Rng) float32 {
		if r.Chance(1, 4) {
			return float32(r.Intn(5)) / 4
		}
		return float32(r.Uniform(-0.1, 1.2))
	}
	o := gen.Opts{RegNum: regNum}
	var ops []rec.Op
	n := r.Range(5, 120)
	for len(ops) < n {
		switch k := r.Intn(14); {
		case k < 7:
			op := gen.StylingOp(r, &o)
			if op.K == rec.KSetLOD {
				op.F[0] = float32(r.PickF(0, float64(H-1), float64(H), float64(H+1), math.Inf(-1), math.NaN(), float64(r.Intn(700))))
				op.F[1] = float32(r.PickF(float64(H-1), float64(H), float64(H+1), math.Inf(1), math.Inf(1), math.Inf(1), math.NaN(), float64(r.Intn(700))))
				if cfg.given != nil && cfg.given.Dy() != 0 && r.Bool() {
					// bounds that tell the height 0 of an empty target from the
					// distance between the two y coordinates it was described with
					g := float32(cfg.given.Dy())
					if g < 0 {
						g = -g
					}
					switch r.Intn(3) {
					case 0:
						op.F[0], op.F[1] = 0, (g+1)/2
					case 1:
						op.F[0], op.F[1] = (g+1)/2, g+1
					default:
						op.F[0], op.F[1] = 1, float32(math.Inf(1))
					}
				}
			}
			ops = append(ops, op)
		case k < 8:
			// many increments in a row: the selector wraps
			cnt := r.Range(1, 70)
			for i := 0; i < cnt; i++ {
				if r.Bool() {
					ops = append(ops, rec.Op{K: rec.KSetCReg, Incr: true, Col: gen.Color(r)})
				} else {
					ops = append(ops, rec.Op{K: rec.KSetNReg, Incr: true, F: [6]float32{regNum(r)}})
				}
			}
		case k < 10:
			ops = c04Gradient(r, ops)
		default:
			ops = append(ops, rec.Op{K: rec.KStartPath, Adj: uint8(r.Intn(7)), F: [6]float32{0, 0}})
			ops = append(ops, c04Body(r)...)
		}
	}
	c.Eval(rec.HashOps(ops)^run.Hash64(uint64(cfg.rect.Dy()), uint64(cfg.pal[3].R)), true)
	if c.WantSample() {
		c.Sample(map[string]interface{}{"rect": cfg.rect.String(), "viewBox": fmt.Sprint(cfg.vb), "program": rec.Strings(clip(ops, 30)), "calls": len(ops)})
	}
	rz := &rec.Raster{}
	var z render.Renderer
	z.SetRasterizer(rz, cfg.target())
	if r.Bool() {
		// The machine's initial state is established by Reset, not by the
		// zero value: dirty every register first.
		c.Count("reset_after_dirty_state", 1)
		z.Reset(ivg.ViewBox{MinX: 1, MinY: 2, MaxX: 3, MaxY: 4}, [64]color.RGBA{{R: 1, G: 2, B: 3, A: 4}})
		z.SetLOD(5, 6)
		for i := 0; i < 64; i++ {
			z.SetCReg(0, true, ivg.RGBAColor(color.RGBA{9, 9, 9, 9}))
			z.SetNReg(0, true, 0.25+float32(i)/256)
		}
		z.SetCSel(uint8(r.Intn(64)))
		z.SetNSel(uint8(r.Intn(64)))
	}
	if !c.Guard("reset", nil, func() { z.Reset(cfg.vb, cfg.pal) }) {
		return
	}
	switch r.Intn(4) {
	case 0:
		// the rectangle (and with it the raster height of the LOD test) is
		// set again after Reset, through another rasterizer object
		z.SetRasterizer(&rec.Raster{}, image.Rect(0, 0, cfg.rect.Dx()+7, cfg.rect.Dy()+13))
		z.SetRasterizer(rz, cfg.target())
		c.Count("rectangle_set_again_after_reset", 1)
	case 1:
		// the rasterizer object was used for something of another size before
		rz.Reset(cfg.rect.Dx()+40, cfg.rect.Dy()+40)
		rz.ResetLog()
	}
	vm := ref.NewVM(cfg.vb, cfg.pal)
	dst, logged := viaLogger(r, 8, &z)
	if logged {
		c.Count("through_destination_logger", 1)
	}
	if !logged && r.Chance(1, 8) {
		// the configured Renderer value is copied and the copy does the work
		zc := z
		dst = &zc
		c.Count("renderer_value_copied", 1)
	}
	c04Feed(c, dst, rz, vm, cfg, ops, "direct")
}

// c04Feed feeds ops to dst (the Renderer, possibly behind a recorder) and
// judges every path against the reference machine.
func c04Feed(c *run.Ctx, dst ivg.Destination, rz *rec.Raster, vm *ref.VM, cfg c04Cfg, ops []rec.Op, family string) bool {
	var exp ref.Expect
	pathStart := 0
	mutAtStart := 0
	prevSkipped := false
	for i := range ops {
		o := &ops[i]
		if o.K == rec.KStartPath {
			exp = vm.PaintFor(int(o.Adj), cfg.rect.Dy())
			pathStart = i
			mutAtStart = rz.NMut
			if vm.CSel-int(o.Adj) < 0 {
				c.Count("selector_wraps", 1)
			}
		}
		csBefore := vm.CSel
		vm.Step(o)
		if (o.K == rec.KSetCReg || o.K == rec.KSetNReg) && o.Incr && csBefore == 63 && vm.CSel == 0 {
			c.Count("selector_wraps", 1)
		}
		if dst != nil {
			if !c.Guard("render", func() interface{} {
				return map[string]interface{}{"family": family, "op_index": i, "program": rec.Strings(clip(ops, 200))}
			}, func() { rec.Apply(dst, o) }) {
				return false
			}
		}
		if o.K != rec.KClosePathEndPath {
			continue
		}
		// judge the path that just ended
		c.Count("paths", 1)
		if prevSkipped {
			c.Count("paths_after_skipped_path", 1)
		}
		calls := rz.Calls[len(rz.Calls)-(rz.NMut-mutAtStart):]
		fail := func(sig string, extra map[string]interface{}) {
			lo := pathStart - 12
			if lo < 0 {
				lo = 0
			}
			d := map[string]interface{}{"family": family, "rect": cfg.rect.String(), "viewBox": fmt.Sprint(cfg.vb), "path_start_index": pathStart,
				"register_value": fmt.Sprint(vm.CReg[((vm.CSel-int(ops[pathStart].Adj))%64+64)%64]), "lod": []string{rec.FB(vm.LOD0), rec.FB(vm.LOD1)},
				"calls_before_path": rec.Strings(ops[lo:pathStart]), "start": ops[pathStart].String(), "raster_calls": rec.RStrings(clipR(calls, 12)), "expected_skip": exp.Skip}
			for k, v := range extra {
				d[k] = v
			}
			c.Violate(sig, d)
		}
		prevSkipped = exp.Skip != ""
		if exp.Skip != "" {
			c.Count("skip_"+exp.Skip, 1)
			if exp.Skip == "nstops<2" {
				// The specification is silent about gradients with fewer than two
				// stops (DESIGN 6.3), so neither "skipped" nor a particular paint is
				// demanded. The property's own clause still applies: a path whose
				// paint is fully transparent causes no rasterizer activity.
				for k := range calls {
					if p := calls[k].Paint; calls[k].K == rec.RDraw && p != nil {
						if (p.Kind == 0 && p.Uniform.A == 0) || (p.Kind == 1 && len(p.Colors) == 0) {
							fail("activity-with-fully-transparent-paint/nstops<2", map[string]interface{}{"paint": fmt.Sprintf("%+v", *p)})
							return false
						}
					}
				}
				continue
			}
			if rz.NMut != mutAtStart {
				fail("activity-on-skipped-path/"+exp.Skip, nil)
				return false
			}
			continue
		}
		var draws []*rec.RCall
		for k := range calls {
			if calls[k].K == rec.RDraw {
				draws = append(draws, &calls[k])
			}
		}
		if len(draws) != 1 || calls[len(calls)-1].K != rec.RDraw {
			fail("path-not-drawn-exactly-once", map[string]interface{}{"draws": len(draws)})
			return false
		}
		p := draws[0].Paint
		if !exp.Grad {
			c.Count("flat", 1)
			want := exp.Flat
			if p.Kind != 0 || !p.UniOK || p.UniRGBA != want {
				fail("flat-colour", map[string]interface{}{"expected": fmt.Sprint(want), "paint": fmt.Sprintf("%+v", *p)})
				return false
			}
			w16 := color.RGBA64{uint16(want.R) * 0x101, uint16(want.G) * 0x101, uint16(want.B) * 0x101, uint16(want.A) * 0x101}
			if p.Uniform != w16 {
				fail("flat-colour-16bit", map[string]interface{}{"expected": fmt.Sprint(w16), "got": fmt.Sprint(p.Uniform)})
			}
			continue
		}
		if exp.Shape == 0 {
			c.Count("gradient_linear", 1)
		} else {
			c.Count("gradient_radial", 1)
		}
		if exp.CBase+exp.NStops > 64 || exp.NBase+exp.NStops > 64 || exp.NBase < 6 {
			c.Count("wrapped_stop_registers", 1)
		}
		if p.Kind != 1 {
			fail("gradient-expected", map[string]interface{}{"paint": p.Type})
			return false
		}
		if p.Shape != exp.Shape || p.Spread != exp.Spread {
			fail("gradient-shape-or-spread", map[string]interface{}{"got": []int{p.Shape, p.Spread}, "expected": []int{exp.Shape, exp.Spread}})
			return false
		}
		if len(p.Colors) != exp.NStops || len(p.Offsets) != exp.NStops {
			fail("gradient-stop-count", map[string]interface{}{"got": len(p.Colors), "expected": exp.NStops})
			return false
		}
		for k := 0; k < exp.NStops; k++ {
			if p.Colors[k] != exp.Colors[k] {
				fail("gradient-stop-colour", map[string]interface{}{"stop": k, "got": fmt.Sprint(p.Colors[k]), "expected": fmt.Sprint(exp.Colors[k])})
				return false
			}
			if p.Offsets[k] != exp.Offsets[k] {
				fail("gradient-stop-offset", map[string]interface{}{"stop": k, "got": p.Offsets[k], "expected": exp.Offsets[k]})
				return false
			}
		}
		if cfg.rect.Empty() {
			c.Count("gradient_on_empty_rectangle", 1)
			continue // no pixel map to compose with
		}
		want := ref.Pix2Grad(exp.VB2Grad, cfg.vb, cfg.rect.Dx(), cfg.rect.Dy())
		for k := 0; k < 6; k++ {
			row := k / 3 * 3
			sum := math.Abs(want[row]) + math.Abs(want[row+1]) + math.Abs(exp.VB2Grad[row+2]) +
				math.Abs(exp.VB2Grad[row]*float64(cfg.vb.MinX)) + math.Abs(exp.VB2Grad[row+1]*float64(cfg.vb.MinY))
			if k%3 != 2 {
				sum = math.Abs(want[k])
			}
			if math.Abs(p.M[k]-want[k]) > 1e-6*sum+1e-300 {
				fail("gradient-transform", map[string]interface{}{"term": k, "got": p.M[k], "expected": want[k]})
				return false
			}
		}
	}
	return true
}

func clipR(cs []rec.RCall, n int) []rec.RCall {
	if len(cs) > n {
		return cs[:n]
	}
	return cs
}

// c04ViaDecoder assembles a stream by hand (through the repository's encoder
// for the path bodies is avoided: gen.Asm only), decodes it into a recorder
// that forwards to the Renderer, and applies the same oracle to the recorded
// calls.
func c04ViaDecoder(c *run.Ctx, idx uint64) {
	r := c.Rng(idx)
	cfg := c04Config(r)
	var a gen.Asm
	a.Magic()
	a.Nat(0, 1) // default metadata; the palette is supplied as a decode option below
	drawing := false
	n := r.Range(3, 60)
	for i := 0; i < n; i++ {
		if !drawing {
			if r.Chance(1, 4) {
				a.Byte(0xc0 + byte(r.Intn(7)))
				a.Nat(uint32(64+r.Intn(8)), 1)
				a.Nat(uint32(64+r.Intn(8)), 1)
				drawing = true
				continue
			}
			op := gen.StylingOpcode(r)
			if op >= 0xa8 && op < 0xc0 && r.Chance(2, 3) {
				// number registers: mostly values in [0,1] so that gradients can be valid
				a.Byte(0xb8 | op&7)
				a.Nat(uint32(r.Intn(121)), 1)
				continue
			}
			if op == 0xc7 {
				a.Byte(op)
				H := uint32(cfg.rect.Dy())
				a.NatMin(uint32(r.Pick(0, int(H)-1, int(H), int(H)+1, 0) & 0x3fff))
				if r.Bool() {
					a.Nat(0x7f800000>>2, 4)
				} else {
					a.NatMin(uint32(r.Pick(int(H)-1, int(H), int(H)+1, 700) & 0x3fff))
				}
				continue
			}
			a.Instr(r, false, op)
		} else {
			if r.Chance(1, 2) {
				a.Byte(0xe1)
				drawing = false
			} else {
				// short drawing ops with small coordinates
				op := byte(r.Pick(0x00, 0x20, 0x40, 0x60, 0xa0, 0xe2, 0xe6, 0xe9))
				sh := gen.Shape(true, op)
				a.Byte(op)
				for k := 0; k < sh.Nums*sh.Reps; k++ {
					a.Nat(uint32(60+r.Intn(10)), 1)
				}
			}
		}
	}
	if drawing {
		a.Byte(0xe1)
	}
	b := a.B
	c.Input(b)
	rz := &rec.Raster{}
	var z render.Renderer
	z.SetRasterizer(rz, cfg.target())
	d := &rec.Dest{Tee: &z}
	pal := cfg.pal
	for i := range pal {
		if !(pal[i].R <= pal[i].A && pal[i].G <= pal[i].A && pal[i].B <= pal[i].A) {
			pal[i] = color.RGBA{0, 0, 0, 0xff} // what the option sanitising must do anyway (C14)
		}
	}
	cfg.pal = pal
	cfg.vb = ivg.DefaultViewBox
	var err error
	if !c.Guard("decode", func() interface{} { return hx(b) }, func() { err = decode.Decode(d, b, decode.WithPalette(pal)) }) {
		return
	}
	if err != nil {
		c.Count("stream_rejected", 1)
		return
	}
	c.Eval(run.HashBytes(b), len(d.Ops) > 3)
	if c.WantSample() {
		c.Sample(map[string]interface{}{"stream": hx(b), "rect": cfg.rect.String()})
	}
	vm := ref.NewVM(cfg.vb, cfg.pal)
	// the calls were already applied; replay them through the oracle only,
	// slicing the rasterizer log per path
	c04Replay(c, rz, vm, cfg, d.Ops[1:], b)
	_ = encode.Encoder{}
}

// c04Replay judges an already-rendered call list: the rasterizer log is cut
// into per-path segments at Reset calls.
func c04Replay(c *run.Ctx, rz *rec.Raster, vm *ref.VM, cfg c04Cfg, ops []rec.Op, b []byte) {
	// Re-render the recorded calls on a fresh Renderer so that rasterizer
	// activity can be attributed call by call.
	rz2 := &rec.Raster{}
	var z2 render.Renderer
	z2.SetRasterizer(rz2, cfg.target())
	z2.Reset(cfg.vb, cfg.pal)
	if !c04Feed(c, &z2, rz2, vm, cfg, ops, "via-decoder") {
		return
	}
	// and the log produced while decoding must be the same log
	if len(rz.Calls) != len(rz2.Calls) {
		c.Violate("decoder-driven-rendering-differs", map[string]interface{}{"stream": hx(b), "calls_while_decoding": len(rz.Calls), "calls_replayed": len(rz2.Calls)})
		return
	}
	for i := range rz.Calls {
		if rz.Calls[i].K != rz2.Calls[i].K || rz.Calls[i].A != rz2.Calls[i].A {
			c.Violate("decoder-driven-rendering-differs", map[string]interface{}{"stream": hx(b), "call": i, "while_decoding": rz.Calls[i].String(), "replayed": rz2.Calls[i].String()})
			return
		}
	}
}
