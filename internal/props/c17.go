package props

import (
	"bytes"
	"fmt"
	"image"
	"image/color"
	"image/draw"
	"math"

	"github.com/reactivego/ivg"
	"github.com/reactivego/ivg/decode"
	"github.com/reactivego/ivg/encode"
	"github.com/reactivego/ivg/generate"
	"github.com/reactivego/ivg/raster/vec"
	"github.com/reactivego/ivg/render"

	"ivgverif/internal/gen"
	"ivgverif/internal/rec"
	"ivgverif/internal/ref"
	"ivgverif/internal/run"
)

// C17 — Encoders and Renderers carry no state across Reset; output is
// deterministic. Monitor: reused-vs-fresh differential over (earlier history
// A, later program B) pairs.

func init() {
	run.Register(&run.Prop{
		ID:          "C17",
		Title:       "Encoders and Renderers carry no state across Reset; output is deterministic",
		Rule:        "every case is a pair (A, B): A a history that dirties the object (well-formed, erroneous of every error class, truncated mid-path, high resolution on, every register/selector/LOD/smooth state changed, run-length arguments pending), B a well-formed program built to depend on reset defaults (fills from palette-initialised registers, blends and gradients reading unwritten registers, default LOD, ADJ from selector 0, smooth operation first in a path); the object is reused for B and compared with a fresh object; non-trivial = A leaves at least one piece of state different from the reset state; distinctness by hash of both call lists",
		Assumptions: []string{"equality is exact: bytes, rasterizer call logs with paint snapshots, pixels"},
		Subs: []*run.Sub{
			{Name: "encoder", N: func(t string) uint64 {
				if t == "thorough" {
					return 5_000_000
				}
				return 120_000
			}, Run: c17Encoder,
				Min: map[string]int64{"pairs": 100000, "A_erroneous": 10000, "A_mid_path": 10000, "A_highres": 10000, "A_pending_run": 10000, "bytes_twice": 100000, "encode_twice": 100000, "flag_before_reset": 10000, "B_all_zero_metadata": 5000, "encodings_with_observers_between_calls": 100000, "B_metadata_equals_A_metadata": 2000}},
			{Name: "renderer", N: func(t string) uint64 {
				if t == "thorough" {
					return 4_000_000
				}
				return 80_000
			}, Run: c17Renderer,
				Min: map[string]int64{"pairs": 60000, "A_truncated_stream": 10000, "A_decode_error": 10000, "A_mid_path": 5000, "B_gradient_from_default_registers": 5000, "B_smooth_first": 5000, "draws_compared": 50000, "pixel_pairs": 2000, "A_other_rectangle": 10000, "B_viewbox_is_A_viewbox_moved": 3000, "B_palette_equals_A_palette": 3000, "pixel_pairs_A_into_empty_rectangle": 500, "B_is_a_blank_graphic": 2000, "A_rectangle_same_size_other_origin": 3000, "B_degenerate_viewbox": 3000, "pixel_pairs_operator_left_by_A": 100, "A_is_B_in_another_colour_theme": 5000, "B_applied_call_by_call_with_nonsensical_palette_entries": 5000, "A_writes_top_registers_by_wraparound_only": 5000}},
		},
	})
}

// c17ProgramB builds a well-formed program that depends on reset defaults.
func c17ProgramB(r *run.Rng) []rec.Op {
	coord := func(r *run.Rng) float32 { return gen.Moderate(r, 40) }
	o := gen.Opts{Coord: coord, RegNum: func(r *run.Rng) float32 { return float32(r.Uniform(-0.1, 1.1)) }, Angle: func(r *run.Rng) float32 { return float32(r.F64()) }, Styling: true, MaxPaths: 3, MaxRuns: 4, ShortRun: true, NoReset: true}
	var ops []rec.Op
	// a path that starts with a smooth operation, filled from an unwritten register via ADJ from selector 0
	first := []rec.Op{{K: rec.KStartPath, Adj: uint8(r.Intn(7)), F: [6]float32{coord(r), coord(r)}}}
	first = append(first, gen.DrawOp(r, gen.DrawVerbs[8+2*r.Intn(2)+4*r.Intn(2)], &o)) // T or S family first
	first = append(first, gen.DrawOp(r, gen.DrawVerbs[r.Intn(len(gen.DrawVerbs))], &o), rec.Op{K: rec.KClosePathEndPath})
	// In one program in three the gradient-filled path below is the very first
	// path of the graphic (per-path flags left by the previous graphic's last
	// path then meet a gradient fill first), otherwise the smooth path is.
	gradFirst := r.Chance(1, 3)
	if !gradFirst {
		ops = append(ops, first...)
	}
	// a gradient whose stops/matrix are partly left at their defaults
	if gradFirst || r.Bool() {
		nst := r.Pick(2, 3)
		// number base 30, or 0: then the matrix lives in the top registers 58..63
		// (five of them left at their default) and the first offset in NREG[0]
		nb, cb := uint8(30), 30
		if r.Chance(1, 3) {
			nb, cb = 0, r.Pick(30, 61)
		}
		ops = append(ops, rec.Op{K: rec.KSetNSel, Sel: nb}, rec.Op{K: rec.KSetNReg, Adj: 6, F: [6]float32{0.03}}) // other five matrix registers stay 0
		ops = append(ops, rec.Op{K: rec.KSetNSel, Sel: nb + 1})                                                   // NREG[nb] stays 0: first offset
		for i := 1; i < nst; i++ {
			ops = append(ops, rec.Op{K: rec.KSetNReg, Incr: true, F: [6]float32{float32(i) / float32(nst)}})
		}
		// stop colours: palette-initialised registers cb.. (unwritten)
		ops = append(ops, rec.Op{K: rec.KSetCSel, Sel: 5}, rec.Op{K: rec.KSetCReg, Col: ivg.RGBAColor(gen.MakeGradientValue(cb, int(nb), r.Intn(2), r.Intn(4), nst))})
		ops = append(ops, rec.Op{K: rec.KStartPath, F: [6]float32{-20, -20}}, rec.Op{K: rec.KAbsLineTo, F: [6]float32{20, -20}}, rec.Op{K: rec.KAbsLineTo, F: [6]float32{0, 20}}, rec.Op{K: rec.KClosePathEndPath})
	}
	if gradFirst {
		ops = append(ops, rec.Op{K: rec.KSetCSel, Sel: 0}, rec.Op{K: rec.KSetNSel, Sel: 0})
		ops = append(ops, first...)
	}
	// a gradient with fewer than two stops, all registers at their defaults: what
	// the Renderer does with it is unspecified, but it must not depend on whether
	// an earlier graphic painted a gradient
	if r.Chance(1, 3) {
		ops = append(ops, rec.Op{K: rec.KSetCSel, Sel: 6}, rec.Op{K: rec.KSetCReg, Col: ivg.RGBAColor(gen.MakeGradientValue(40, 40, r.Intn(2), r.Intn(4), r.Intn(2)))})
		ops = append(ops, rec.Op{K: rec.KStartPath, F: [6]float32{-10, -10}}, rec.Op{K: rec.KAbsLineTo, F: [6]float32{10, -10}}, rec.Op{K: rec.KAbsLineTo, F: [6]float32{0, 10}}, rec.Op{K: rec.KClosePathEndPath})
	}
	// blends and references of unwritten registers
	ops = append(ops, rec.Op{K: rec.KSetCSel, Sel: uint8(r.Intn(64))}, rec.Op{K: rec.KSetCReg, Adj: uint8(r.Intn(7)), Col: ivg.BlendColor(r.Byte(), 0xc0|uint8(r.Intn(64)), 0x80|uint8(r.Intn(64)))})
	ops = append(ops, rec.Op{K: rec.KStartPath, Adj: uint8(r.Intn(7)), F: [6]float32{coord(r), coord(r)}}, gen.DrawOp(r, gen.DrawVerbs[r.Intn(len(gen.DrawVerbs))], &o), rec.Op{K: rec.KClosePathEndPath})
	return append(ops, gen.Program(r, o)...)
}

// c17HistoryA builds a dirtying history; kind says what it is.
func c17HistoryA(c *run.Ctx, r *run.Rng) (ops []rec.Op, hires bool, kind string) {
	if r.Chance(1, 16) {
		// Next to nothing, on an object that was never Reset: no call at all (the
		// harness may still ask for Bytes), or a single selector / level-of-detail
		// call. The object holds little more than what a zero value implies.
		c.Count("A_next_to_nothing_on_a_never_reset_object", 1)
		switch r.Intn(4) {
		case 1:
			ops = append(ops, rec.Op{K: rec.KSetCSel, Sel: uint8(r.Intn(64))})
		case 2:
			ops = append(ops, rec.Op{K: rec.KSetNSel, Sel: uint8(r.Intn(64))})
		case 3:
			ops = append(ops, rec.Op{K: rec.KSetLOD, F: [6]float32{1, 2}})
		}
		return ops, false, "well-formed"
	}
	if r.Chance(1, 8) {
		// A history that keeps both selectors low and reaches the top registers
		// only by wrap-around addressing (register (SEL-ADJ) mod 64 with SEL < ADJ):
		// what Reset has to clear is every register, not the ones up to the highest
		// selector value seen.
		c.Count("A_writes_top_registers_by_wraparound_only", 1)
		ops = append(ops, rec.Op{K: rec.KSetNSel, Sel: uint8(r.Intn(3))}, rec.Op{K: rec.KSetCSel, Sel: uint8(r.Intn(3))})
		for adj := uint8(1); adj <= 6; adj++ {
			ops = append(ops, rec.Op{K: rec.KSetNReg, Adj: adj, F: [6]float32{float32(r.Uniform(0.2, 2))}}, rec.Op{K: rec.KSetCReg, Adj: adj, Col: ivg.RGBAColor(gen.Premul(r))})
		}
		ops = append(ops, rec.Op{K: rec.KStartPath, F: [6]float32{-9, -9}}, rec.Op{K: rec.KAbsLineTo, F: [6]float32{9, -9}}, rec.Op{K: rec.KAbsLineTo, F: [6]float32{0, 9}}, rec.Op{K: rec.KClosePathEndPath})
		return ops, r.Bool(), "well-formed"
	}
	o := gen.Opts{Styling: true, MaxPaths: 5, MaxRuns: 6, NoReset: r.Bool()}
	if !o.NoReset {
		vb := gen.ViewBox(r)
		pal := gen.Palette(r)
		o.ViewBox, o.Palette = &vb, &pal
	}
	ops = gen.Program(r, o)
	// dirty every kind of state
	ops = append(ops, rec.Op{K: rec.KSetCSel, Sel: uint8(r.Intn(64))}, rec.Op{K: rec.KSetNSel, Sel: uint8(r.Intn(64))}, rec.Op{K: rec.KSetLOD, F: [6]float32{float32(r.Intn(50)), float32(r.Range(50, 900))}})
	for n := r.Range(1, 70); n > 0; n-- {
		ops = append(ops, rec.Op{K: rec.KSetNReg, Incr: true, F: [6]float32{float32(r.Uniform(-2, 2))}}, rec.Op{K: rec.KSetCReg, Incr: true, Col: gen.Color(r)})
	}
	if r.Bool() {
		// history A has painted a valid two-stop gradient (its paint object, ranges and caches are warm)
		ops = append(ops, rec.Op{K: rec.KSetNSel, Sel: 50}, rec.Op{K: rec.KSetNReg, Adj: 6, F: [6]float32{0.02}}, rec.Op{K: rec.KSetNReg, Incr: true, F: [6]float32{0}}, rec.Op{K: rec.KSetNReg, Incr: true, F: [6]float32{1}},
			rec.Op{K: rec.KSetCSel, Sel: 50}, rec.Op{K: rec.KSetCReg, Incr: true, Col: ivg.RGBAColor(color.RGBA{0xff, 0, 0, 0xff})}, rec.Op{K: rec.KSetCReg, Incr: true, Col: ivg.RGBAColor(color.RGBA{0, 0, 0xff, 0xff})},
			rec.Op{K: rec.KSetCSel, Sel: 3}, rec.Op{K: rec.KSetCReg, Col: ivg.RGBAColor(gen.MakeGradientValue(50, 50, 0, 1, 2))}, rec.Op{K: rec.KSetLOD, F: [6]float32{0, float32(math.Inf(1))}},
			rec.Op{K: rec.KStartPath, F: [6]float32{-9, -9}}, rec.Op{K: rec.KAbsLineTo, F: [6]float32{9, -9}}, rec.Op{K: rec.KAbsLineTo, F: [6]float32{0, 9}}, rec.Op{K: rec.KClosePathEndPath})
		c.Count("A_painted_a_gradient", 1)
	}
	if r.Chance(1, 3) {
		// the last path of history A was not drawn: transparent paint, a colour
		// that is not premultiplied, or a height outside the level-of-detail range
		switch r.Intn(3) {
		case 0:
			ops = append(ops, rec.Op{K: rec.KSetCSel, Sel: 7}, rec.Op{K: rec.KSetCReg, Col: ivg.RGBAColor(color.RGBA{})})
		case 1:
			ops = append(ops, rec.Op{K: rec.KSetCSel, Sel: 7}, rec.Op{K: rec.KSetCReg, Col: ivg.RGBAColor(color.RGBA{0xff, 0, 0, 0x20})})
		default:
			ops = append(ops, rec.Op{K: rec.KSetCSel, Sel: 7}, rec.Op{K: rec.KSetCReg, Col: ivg.RGBAColor(color.RGBA{0x80, 0, 0, 0xff})}, rec.Op{K: rec.KSetLOD, F: [6]float32{5000, 6000}})
		}
		ops = append(ops, rec.Op{K: rec.KStartPath, F: [6]float32{-5, -5}}, rec.Op{K: rec.KAbsLineTo, F: [6]float32{5, -5}}, rec.Op{K: rec.KAbsLineTo, F: [6]float32{0, 5}}, rec.Op{K: rec.KClosePathEndPath})
		c.Count("A_last_path_not_drawn", 1)
	}
	hires = r.Chance(1, 3)
	if hires {
		c.Count("A_highres", 1)
	}
	kind = "well-formed"
	switch r.Intn(5) {
	case 0:
		kind = "erroneous"
		c.Count("A_erroneous", 1)
		switch r.Intn(4) {
		case 0:
			ops = append(ops, rec.Op{K: rec.KAbsLineTo, F: [6]float32{1, 2}}) // drawing outside a path
		case 1:
			ops = append(ops, rec.Op{K: rec.KStartPath, F: [6]float32{1, 2}}, rec.Op{K: rec.KSetCSel, Sel: 3}) // styling inside a path
		case 2:
			ops = append(ops, rec.Op{K: rec.KSetCReg, Adj: 9, Col: gen.Color(r)})
		default:
			ops = append(ops, rec.Op{K: rec.KSetNReg, Adj: 3, Incr: true, F: [6]float32{1}})
		}
		if r.Bool() {
			ops = append(ops, gen.Program(r, gen.Opts{Styling: true, NoReset: true})...)
		}
	case 1, 2:
		kind = "mid-path"
		c.Count("A_mid_path", 1)
		ops = append(ops, rec.Op{K: rec.KStartPath, Adj: uint8(r.Intn(7)), F: [6]float32{3, 4}})
		k := gen.DrawVerbs[2+r.Intn(len(gen.DrawVerbs)-2)]
		po := gen.Opts{Coord: gen.Any, Angle: gen.Any}
		for n := r.Pick(1, 3, 16, 17, 33); n > 0; n-- {
			ops = append(ops, gen.DrawOp(r, k, &po)) // a run whose arguments are still buffered
		}
		c.Count("A_pending_run", 1)
		if r.Bool() {
			ops = append(ops, gen.DrawOp(r, gen.DrawVerbs[8+r.Intn(8)], &po)) // leaves smooth-curve memory behind
		}
	}
	return
}

func c17Encoder(c *run.Ctx, idx uint64) {
	r := c.Rng(idx)
	a, hiresA, kind := c17HistoryA(c, r)
	b := c17ProgramB(r)
	vbB, palB := ivg.DefaultViewBox, ivg.DefaultPalette
	if r.Bool() {
		vbB, palB = gen.ViewBox(r), gen.Palette(r)
	}
	// Metadata for which a Reset might think "nothing changed": the all-zero
	// Metadata (what a never-Reset zero-value Encoder holds), the default one
	// (what it behaves as), and the one history A was Reset with.
	switch r.Intn(8) {
	case 0:
		vbB, palB = ivg.ViewBox{}, [64]color.RGBA{}
		c.Count("B_all_zero_metadata", 1)
	case 1:
		for i := len(a) - 1; i >= 0; i-- {
			if a[i].K == rec.KReset && a[i].Pal != nil {
				vbB, palB = a[i].VB, *a[i].Pal
				c.Count("B_metadata_equals_A_metadata", 1)
				break
			}
		}
	case 2:
		vbB, palB = ivg.DefaultViewBox, ivg.DefaultPalette
	}
	hiresB := r.Chance(1, 3)
	flagBefore := r.Chance(1, 4) // set the public flag before Reset: Reset must clear it
	c.Count("pairs", 1)
	c.Eval(rec.HashOps(a)^rec.HashOps(b)*31, true)
	desc := func(extra map[string]interface{}) interface{} {
		d := map[string]interface{}{"A_kind": kind, "A_highres": hiresA, "A_tail": rec.Strings(a[max0(len(a)-12):]), "B": rec.Strings(clip(b, 40)), "B_highres": hiresB, "flag_set_before_reset": flagBefore}
		for k, v := range extra {
			d[k] = v
		}
		return d
	}
	if c.WantSample() {
		c.Sample(map[string]interface{}{"A_kind": kind, "A_calls": len(a), "B": rec.Strings(clip(b, 12))})
	}
	helperAt := -1
	if r.Chance(1, 3) {
		helperAt = r.Intn(len(b) + 1) // a gradient helper reads the selectors back: they are part of the state
		for helperAt < len(b) && (b[helperAt].K.IsDrawing()) {
			helperAt++
		}
		c.Count("B_with_helper_readback", 1)
	}
	selMismatch := ""
	observe := false
	lodFirst := r.Bool()
	callerTransforms := append(make([]generate.Aff3, 0, 4), generate.Scale(2, 3), generate.Translate(-5, 4), generate.Scale(0.5))
	// runB encodes program B on e: after Reset(vbB, palB), or — reset false, only
	// used with the default metadata — on a never-Reset zero-value Encoder. The
	// gradient helper in B comes from g (a Generator that lives as long as the
	// Encoder does) or, when g is nil, from a Generator made on the spot.
	runB := func(e *encode.Encoder, g *generate.Generator, reset bool) ([]byte, error) {
		if reset {
			e.Reset(vbB, palB)
			if cs, ns := e.CSel(), e.NSel(); cs != 0 || ns != 0 {
				selMismatch = fmt.Sprintf("CSel()=%d NSel()=%d right after Reset", cs, ns)
			}
			if e.HighResolutionCoordinates {
				selMismatch = "HighResolutionCoordinates still set right after Reset"
			}
		}
		e.HighResolutionCoordinates = hiresB
		if !reset && lodFirst {
			e.LOD() // an observer as the very first call of a never-Reset Encoder
		}
		for i := range b {
			if i == helperAt {
				if g == nil {
					g = &generate.Generator{}
					g.SetDestination(e)
				}
				g.SetLinearGradient(0, 0, 8, 8, generate.GradientSpreadPad, []generate.GradientStop{{Offset: 0, Color: color.Black}, {Offset: 1, Color: color.White}})
				// the caller keeps its transforms in a slice and hands it over for every graphic
				g.SetTransform(callerTransforms...)
				g.SetPathData("M1 2l3 4h2V7z", 1)
			}
			rec.Apply(e, &b[i])
			if observe {
				// pure observers between the calls: they must not change what is encoded
				switch i % 3 {
				case 0:
					e.Bytes()
				case 1:
					e.CSel()
				default:
					e.NSel()
					e.Bytes()
				}
			}
		}
		out, err := e.Bytes()
		return append([]byte(nil), out...), err
	}
	var reused, fresh, fresh2, again3, zero, observed []byte
	var errR, errF, err3, errZ, errO error
	defaultMeta := vbB == ivg.DefaultViewBox && palB == ivg.DefaultPalette
	ok := c.Guard("encoder reuse", func() interface{} { return desc(nil) }, func() {
		var e encode.Encoder
		var gR generate.Generator // lives as long as e does
		gR.SetDestination(&e)
		e.HighResolutionCoordinates = hiresA
		for i := range a {
			rec.Apply(&e, &a[i])
			if a[i].K == rec.KReset {
				e.HighResolutionCoordinates = hiresA
			}
		}
		if r.Bool() {
			e.Bytes() // an intermediate Bytes call must not matter either
		}
		if flagBefore {
			c.Count("flag_before_reset", 1)
			e.HighResolutionCoordinates = true
			e.Reset(vbB, palB)
			if e.HighResolutionCoordinates {
				c.Violate("encoder/reset-does-not-clear-resolution-flag", desc(nil))
			}
		}
		reused, errR = runB(&e, &gR, true)
		// Bytes twice
		again, err2 := e.Bytes()
		c.Count("bytes_twice", 1)
		if (err2 == nil) != (errR == nil) || !bytes.Equal(again, reused) {
			c.Violate("encoder/bytes-twice-differ", desc(map[string]interface{}{"first": hx(reused), "second": hx(again)}))
		}
		// the same program once more on the same Encoder, through the same Generator
		again3, err3 = runB(&e, &gR, true)
		var f encode.Encoder
		fresh, errF = runB(&f, nil, true)
		var f2 encode.Encoder
		// Reset clears the public resolution flag also when it is the very
		// first call on a zero-value Encoder
		f2.HighResolutionCoordinates = true
		fresh2, _ = runB(&f2, nil, true)
		c.Count("encode_twice", 1)
		{
			// the same calls with Bytes/CSel/NSel read between them
			var fo encode.Encoder
			observe = true
			observed, errO = runB(&fo, nil, true)
			observe = false
			c.Count("encodings_with_observers_between_calls", 1)
		}
		if defaultMeta {
			// a fresh object is also a zero-value Encoder that is never Reset (default metadata implied)
			var f0 encode.Encoder
			zero, errZ = runB(&f0, nil, false)
			c.Count("never_reset_zero_value_encoders", 1)
		}
	})
	if !ok {
		return
	}
	if errF != nil {
		c.Violate("harness/program-B-rejected", desc(map[string]interface{}{"error": errF.Error()}))
		return
	}
	if selMismatch != "" {
		c.Violate("encoder/state-survives-reset", desc(map[string]interface{}{"observed": selMismatch}))
		return
	}
	if !bytes.Equal(fresh, fresh2) {
		c.Violate("encoder/same-calls-different-bytes", desc(map[string]interface{}{"first": hx(fresh), "second": hx(fresh2)}))
		return
	}
	if errR != nil {
		c.Violate("encoder/error-survives-reset", desc(map[string]interface{}{"error": errR.Error()}))
		return
	}
	if !bytes.Equal(reused, fresh) {
		i := 0
		for ; i < len(reused) && i < len(fresh) && reused[i] == fresh[i]; i++ {
		}
		c.Violate("encoder/reused-differs-from-fresh", desc(map[string]interface{}{"first_difference_at": i, "reused": hx(reused), "fresh": hx(fresh)}))
		return
	}
	if err3 != nil || !bytes.Equal(again3, fresh) {
		c.Violate("encoder/same-program-again-on-same-objects-differs", desc(map[string]interface{}{"error": errStr(err3), "again": hx(again3), "fresh": hx(fresh)}))
		return
	}
	if errO != nil || !bytes.Equal(observed, fresh) {
		c.Violate("encoder/observer-calls-between-the-calls-change-the-bytes", desc(map[string]interface{}{"error": errStr(errO), "with_observers": hx(observed), "without": hx(fresh)}))
		return
	}
	if defaultMeta && (errZ != nil || !bytes.Equal(zero, fresh)) {
		c.Violate("encoder/never-reset-zero-value-differs-from-reset-encoder", desc(map[string]interface{}{"error": errStr(errZ), "zero_value": hx(zero), "reset": hx(fresh)}))
	}
}

func max0(i int) int {
	if i < 0 {
		return 0
	}
	return i
}

func sameRCalls(a, b []rec.RCall) (int, string) {
	n := len(a)
	if len(b) < n {
		n = len(b)
	}
	for i := 0; i < n; i++ {
		x, y := &a[i], &b[i]
		if x.K != y.K {
			return i, "call"
		}
		for k := 0; k < 6; k++ {
			if !rec.SameBits(x.A[k], y.A[k]) {
				return i, "coordinates"
			}
		}
		if x.K == rec.RDraw {
			if x.R != y.R || x.SP != y.SP {
				return i, "draw-rectangle"
			}
			p, q := x.Paint, y.Paint
			if p.Kind != q.Kind || p.Uniform != q.Uniform || p.Shape != q.Shape || p.Spread != q.Spread || len(p.Colors) != len(q.Colors) || p.M != q.M {
				return i, "paint"
			}
			for k := range p.Colors {
				if p.Colors[k] != q.Colors[k] || p.Offsets[k] != q.Offsets[k] {
					return i, "paint-stops"
				}
			}
			for k := range p.Probes {
				if p.Probes[k] != q.Probes[k] {
					return i, "paint-values"
				}
			}
		}
	}
	if len(a) != len(b) {
		return n, "call-count"
	}
	return -1, ""
}

func c17Renderer(c *run.Ctx, idx uint64) {
	r := c.Rng(idx)
	a, hiresA, kind := c17HistoryA(c, r)
	// A as bytes: only well-formed prefixes can be encoded; errors come from truncation/corruption
	aWell := a
	var bytesA []byte
	{
		// encode the longest well-formed part (stop before the first protocol violation), closing an open path or not
		var e encode.Encoder
		e.HighResolutionCoordinates = hiresA
		inPath := false
		n := 0
		for i := range aWell {
			o := &aWell[i]
			bad := (o.K.IsDrawing() && !inPath) || (!o.K.IsDrawing() && o.K != rec.KReset && inPath) || ((o.K == rec.KSetCReg || o.K == rec.KSetNReg || o.K == rec.KStartPath) && o.Adj > 6) || (o.Incr && o.Adj != 0)
			if bad || (o.K == rec.KReset && inPath) {
				break
			}
			rec.Apply(&e, o)
			if o.K == rec.KReset {
				e.HighResolutionCoordinates = hiresA
			}
			if o.K == rec.KStartPath {
				inPath = true
			} else if o.K == rec.KClosePathEndPath {
				inPath = false
			}
			n++
		}
		if inPath {
			// the Encoder keeps run-length arguments buffered until the next different verb: emit one
			e.AbsHLineTo(1)
			e.RelVLineTo(1)
		}
		bb, _ := e.Bytes()
		bytesA = append([]byte(nil), bb...)
		if inPath {
			c.Count("A_mid_path", 1)
		}
	}
	switch r.Intn(4) {
	case 0:
		if len(bytesA) > 6 {
			bytesA = bytesA[:r.Range(5, len(bytesA)-1)]
			c.Count("A_truncated_stream", 1)
			kind += "+truncated"
		}
	case 1:
		if len(bytesA) > 6 {
			bytesA[r.Range(5, len(bytesA)-1)] = byte(r.Pick(0xff, 0xc8, 0xe0, 0xe5, 0xea))
			kind += "+corrupted"
		}
	}
	b := c17ProgramB(r)
	vbB, palB := ivg.DefaultViewBox, ivg.DefaultPalette
	if r.Bool() {
		vbB = ivg.ViewBox{MinX: float32(r.Uniform(-60, 0)), MinY: float32(r.Uniform(-60, 0)), MaxX: float32(r.Uniform(1, 60)), MaxY: float32(r.Uniform(1, 60))}
		palB = gen.Palette(r)
	}
	// What the earlier graphic's metadata was matters too: B's viewBox is
	// often A's moved elsewhere (same size, so the same scale factors), and
	// B's palette often equals A's ("nothing changed" shortcuts in Reset).
	if mA, e := ref.ParseMeta(bytesA); e == nil && r.Chance(1, 3) {
		w, h := float64(mA.ViewBox.MaxX)-float64(mA.ViewBox.MinX), float64(mA.ViewBox.MaxY)-float64(mA.ViewBox.MinY)
		if w > 0.5 && h > 0.5 && w < 1e4 && h < 1e4 && math.Abs(float64(mA.ViewBox.MinX)) < 1e4 && math.Abs(float64(mA.ViewBox.MinY)) < 1e4 {
			dx, dy := float32(r.Range(-20, 20)), float32(r.Range(-20, 20))
			vbB = ivg.ViewBox{MinX: mA.ViewBox.MinX + dx, MinY: mA.ViewBox.MinY + dy, MaxX: mA.ViewBox.MaxX + dx, MaxY: mA.ViewBox.MaxY + dy}
			c.Count("B_viewbox_is_A_viewbox_moved", 1)
		}
		if r.Bool() {
			palB = mA.Palette
			c.Count("B_palette_equals_A_palette", 1)
		}
	}
	degenerateB := false
	if r.Chance(1, 10) {
		// a viewBox without extent in x and/or y (the decoder accepts it): whatever a
		// Renderer makes of it, a reused one must make the same of it as a fresh one
		x, y := float32(r.Range(-30, 30)), float32(r.Range(-30, 30))
		switch r.Intn(3) {
		case 0:
			vbB = ivg.ViewBox{MinX: x, MinY: y, MaxX: x, MaxY: y}
		case 1:
			vbB = ivg.ViewBox{MinX: x, MinY: y, MaxX: x, MaxY: y + float32(r.Range(1, 60))}
		default:
			vbB = ivg.ViewBox{MinX: x, MinY: y, MaxX: x + float32(r.Range(1, 60)), MaxY: y}
		}
		degenerateB = true
		c.Count("B_degenerate_viewbox", 1)
	}
	if r.Chance(1, 16) {
		// a graphic that consists of its metadata only: Reset is all it delivers
		b = nil
		c.Count("B_is_a_blank_graphic", 1)
	}
	var eB encode.Encoder
	eB.Reset(vbB, palB)
	eB.HighResolutionCoordinates = true
	rec.ApplyAll(&eB, b)
	bb, errB := eB.Bytes()
	if errB != nil {
		c.Violate("harness/program-B-rejected", map[string]interface{}{"error": errB.Error()})
		return
	}
	bytesB := append([]byte(nil), bb...)
	theme := false
	if r.Chance(1, 6) && len(b) > 0 {
		// History A is graphic B itself in another colour theme: the same calls
		// in the same order (hence the same number of register writes before every
		// path and byte-identical gradient descriptors), but another palette
		// (B's gradient stops are palette-initialised registers), other direct
		// colours and other gradient offsets, decoded into the same rectangle.
		theme = true
		kind = "same-icon-other-theme"
		c.Count("A_is_B_in_another_colour_theme", 1)
		themed := append([]rec.Op(nil), b...)
		for i := range themed {
			o := &themed[i]
			switch o.K {
			case rec.KSetCReg:
				if sp := rec.Spec(o.Col); sp.Typ == ivg.ColorTypeRGBA && !(sp.RGBA.A == 0 && sp.RGBA.B >= 0x80) && r.Chance(2, 3) {
					o.Col = ivg.RGBAColor(gen.Premul(r))
				}
			case rec.KSetNReg:
				if o.F[0] > 0 && o.F[0] < 1 && r.Bool() {
					o.F[0] *= 0.9
				}
			}
		}
		palA := gen.Palette(r)
		vbA := vbB
		if r.Chance(1, 3) {
			vbA = ivg.DefaultViewBox
		}
		var eA encode.Encoder
		eA.Reset(vbA, palA)
		eA.HighResolutionCoordinates = true
		rec.ApplyAll(&eA, themed)
		if ab, e := eA.Bytes(); e == nil {
			bytesA = append([]byte(nil), ab...)
		}
	}
	for i := range b {
		if b[i].K == rec.KSetCReg {
			if s := rec.Spec(b[i].Col); s.Typ == ivg.ColorTypeRGBA && s.RGBA.A == 0 && s.RGBA.B >= 0x80 && s.RGBA.G&0x3f == 30 {
				c.Count("B_gradient_from_default_registers", 1)
			}
		}
	}
	c.Count("B_smooth_first", 1)
	rect := image.Rect(0, 0, r.Range(1, 200), r.Range(1, 600)).Add(image.Pt(r.Intn(30), r.Intn(30)))
	pixels := r.Chance(1, 8) && !degenerateB // non-finite coordinates are not given to golang.org/x/image/vector (DESIGN 6.5)
	if pixels {
		rect = image.Rect(0, 0, r.Range(1, 100), r.Range(1, 100)).Add(image.Pt(r.Intn(30), r.Intn(30)))
	}
	// One pair in six hands graphic B to the Renderers call by call instead of
	// through the decoder, with a palette in which some entries are not valid
	// premultiplied colours (the decoder would never pass those on; a caller, a
	// Generator or a logger may): whatever a Renderer makes of such entries, a
	// reused one must make the same of them as a fresh one.
	direct := r.Chance(1, 6)
	palDirect := palB
	if direct {
		c.Count("B_applied_call_by_call_with_nonsensical_palette_entries", 1)
		for n := r.Range(1, 12); n > 0; n-- {
			k := gen.AnyRGBA(r)
			if r.Chance(1, 3) {
				k = gen.MakeGradientValue(30, 30, r.Intn(2), r.Intn(4), 2)
			}
			palDirect[r.Pick(r.Intn(64), 30, 31, 32)] = k
		}
	}
	c.Count("pairs", 1)
	c.Eval(run.HashBytes(bytesA)^run.HashBytes(bytesB)*31, true)
	desc := func(extra map[string]interface{}) interface{} {
		d := map[string]interface{}{"A_kind": kind, "A_bytes": hx(bytesA), "B_bytes": hx(bytesB), "rect": rect.String()}
		if direct {
			d["B_applied_call_by_call_with_palette"] = fmt.Sprint(palDirect)
		}
		for k, v := range extra {
			d[k] = v
		}
		return d
	}
	if c.WantSample() {
		c.Sample(map[string]interface{}{"A_kind": kind, "A_bytes": len(bytesA), "B_bytes": hx(bytesB)})
	}
	// the Renderer may be pointed at another rasterizer / rectangle between decodes
	rectA := rect
	if r.Chance(1, 3) && !theme {
		rectA = image.Rect(0, 0, r.Range(1, 300), r.Range(1, 300)).Add(image.Pt(r.Intn(90), r.Intn(90)))
		if r.Chance(1, 3) {
			rectA = rect.Add(image.Pt(r.Range(1, 70), r.Range(-20, 50))) // the same size somewhere else (cells of an atlas)
			c.Count("A_rectangle_same_size_other_origin", 1)
		}
		c.Count("A_other_rectangle", 1)
	}
	applyB := func(z *render.Renderer) error {
		if direct {
			z.Reset(vbB, palDirect)
			rec.ApplyAll(z, b)
			return nil
		}
		return decode.Decode(z, bytesB)
	}
	probes := []image.Point{{0, 0}, {3, 5}, {rect.Dx() - 1, rect.Dy() - 1}}
	var reused, fresh []rec.RCall
	var errR, errF error
	var selR, selF [2]uint8
	ok := c.Guard("renderer reuse", func() interface{} { return desc(nil) }, func() {
		rz := &rec.Raster{Probes: probes}
		var z render.Renderer
		z.SetRasterizer(rz, rectA)
		if err := decode.Decode(&z, bytesA); err != nil {
			c.Count("A_decode_error", 1)
		}
		if rectA != rect {
			if r.Bool() {
				z.SetRasterizer(rz, rect)
			} else {
				rz = &rec.Raster{Probes: probes}
				z.SetRasterizer(rz, rect)
			}
		}
		if r.Chance(1, 4) && !theme {
			// the same Renderer also used directly in between
			z.SetLOD(7, 8)
			z.SetCSel(9)
		}
		zp := &z
		var handedOn render.Renderer
		if r.Chance(1, 4) {
			// The used Renderer is handed on by value (a field of a struct that is
			// copied, an element of a slice that grew): the copy is an object of
			// its own, whatever the original goes on to do.
			c.Count("used_renderer_handed_on_by_value", 1)
			handedOn = z
			zp = &handedOn
			z.Reset(ivg.DefaultViewBox, ivg.DefaultPalette)
			z.SetCReg(0, false, ivg.RGBAColor(color.RGBA{0x33, 0x22, 0x11, 0x44}))
			z.StartPath(0, 0, 0)
			z.AbsLineTo(1, 1)
			z.ClosePathEndPath()
		}
		rz.ResetLog()
		errR = applyB(zp)
		reused = rz.Calls
		selR = [2]uint8{zp.CSel(), zp.NSel()}
		rzF := &rec.Raster{Probes: probes}
		var zf render.Renderer
		zf.SetRasterizer(rzF, rect)
		errF = applyB(&zf)
		fresh = rzF.Calls
		selF = [2]uint8{zf.CSel(), zf.NSel()}
	})
	if !ok {
		return
	}
	if errF != nil || errR != nil {
		c.Violate("renderer/valid-stream-rejected", desc(map[string]interface{}{"reused": errStr(errR), "fresh": errStr(errF)}))
		return
	}
	for i := range fresh {
		if fresh[i].K == rec.RDraw {
			c.Count("draws_compared", 1)
		}
	}
	if selR != selF {
		c.Violate("renderer/selectors-after-the-decode-differ-from-fresh", desc(map[string]interface{}{"reused_csel_nsel": selR[:], "fresh_csel_nsel": selF[:]}))
		return
	}
	if i, why := sameRCalls(reused, fresh); i >= 0 {
		d := map[string]interface{}{"call_index": i}
		if i < len(reused) {
			d["reused"] = reused[i].String()
		}
		if i < len(fresh) {
			d["fresh"] = fresh[i].String()
		}
		d["reused_calls"], d["fresh_calls"] = len(reused), len(fresh)
		c.Violate("renderer/reused-differs-from-fresh/"+why, desc(d))
		return
	}
	// pixels through the bundled rasterizer, reusing rasterizer and renderer
	if pixels {
		c.Count("pixel_pairs", 1)
		bounds := image.Rect(0, 0, rect.Max.X+2, rect.Max.Y+2)
		img1, img2 := image.NewRGBA(bounds), image.NewRGBA(bounds)
		bgSeed := r.U64()
		fillPattern(img1, bgSeed) // a non-blank background, so that the compositing operator matters
		fillPattern(img2, bgSeed)
		scratch := image.NewRGBA(bounds)
		vz := &vec.Rasterizer{Dst: scratch, DrawOp: draw.Src}
		var z render.Renderer
		rectA2 := rect
		if r.Chance(1, 4) {
			// history A was rendered into an empty rectangle
			rectA2 = image.Rectangle{Min: rect.Min, Max: image.Pt(rect.Min.X, rect.Max.Y)}
			c.Count("pixel_pairs_A_into_empty_rectangle", 1)
		}
		z.SetRasterizer(vz, rectA2)
		// vec.Rasterizer.DrawOp is documented as one-shot: the next Draw call uses
		// it and sets it to draw.Over. Half of the pairs re-arm it before B (as a
		// caller who wants Src would), the other half leave what history A left:
		// Over if A reached a Draw call (whatever the rectangle), Src otherwise.
		rearm := r.Bool()
		opB := draw.Src
		moderate, drawsA := moderateStream(bytesA, rectA2)
		if moderate {
			if !rearm && drawsA > 0 {
				opB = draw.Over
				c.Count("pixel_pairs_operator_left_by_A", 1)
			}
			// History A may be hostile; golang.org/x/image/vector itself can panic on
			// it (DESIGN 6.5: integer divide by zero in its fixed-point span loop for an
			// almost horizontal, very long segment). A history that ends in a panic of
			// the third-party rasteriser is outside the property (and leaves that
			// rasteriser in an undefined state), so such a pair is skipped, counted.
			if ok, _ := c.GuardDep("pixel reuse, history A", "golang.org/x/image/", func() interface{} { return desc(nil) }, func() { decode.Decode(&z, bytesA) }); !ok {
				return
			}
		}
		okp := c.Guard("pixel reuse", func() interface{} {
			return desc(map[string]interface{}{"A_rectangle": rectA2.String(), "operator_rearmed": rearm})
		}, func() {
			vz.Dst = img1
			if rearm {
				vz.DrawOp = draw.Src
			}
			if rectA2 != rect {
				z.SetRasterizer(vz, rect)
			}
			decode.Decode(&z, bytesB)
			var zf render.Renderer
			zf.SetRasterizer(&vec.Rasterizer{Dst: img2, DrawOp: opB}, rect)
			decode.Decode(&zf, bytesB)
		})
		if okp && !bytes.Equal(img1.Pix, img2.Pix) {
			c.Violate("renderer/reused-pixels-differ-from-fresh", desc(map[string]interface{}{"A_rectangle": rectA2.String(), "operator_rearmed": rearm, "operator_for_fresh": fmt.Sprint(opB)}))
		}
	}
	_ = color.RGBA{}
	_ = fmt.Sprint
}

// moderateStream reports whether rendering the stream drives the rasterizer
// with coordinates of moderate magnitude only (x/image/vector's cost is
// unbounded in coordinate magnitude).
func moderateStream(b []byte, rect image.Rectangle) (moderate bool, draws int) {
	rz := &rec.Raster{Discard: true}
	var z render.Renderer
	z.SetRasterizer(rz, rect)
	decode.Decode(&z, b)
	return rz.MaxAbs <= 1e5 && !math.IsNaN(rz.MaxAbs), rz.NDraw
}
