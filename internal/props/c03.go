package props

import (
	"ivgverif/internal/corpus"
	"ivgverif/internal/gen"
	"ivgverif/internal/run"
)

// C03 — the decoder implements exactly the FFV0 instruction grammar.
// Monitor: accept/reject and delivered call list of the real decoder vs the
// independent reference parser (ref.Parse).

func init() {
	run.Register(&run.Prop{
		ID:    "C03",
		Title: "The decoder implements exactly the FFV0 instruction grammar",
		Rule:  "every case is one byte string decoded by the real decoder and by the reference parser; non-trivial = the stream has valid magic and metadata and at least one instruction byte (so the instruction grammar is exercised); distinctness by hash of the bytes",
		Assumptions: []string{
			"reference parser ref.Parse written from spec/iconvg-spec-v0.md",
			"1- and 2-byte zero-to-one numbers may differ from the correctly rounded quotient by 1 ulp",
			"metadata chunk order/repetition is not judged (streams with non-increasing MIDs are skipped)",
		},
		Subs: []*run.Sub{
			{
				Name: "opcode-widths",
				N:    func(string) uint64 { return 512 },
				Run:  c03Opcode,
				Rule: "exhaustive: every opcode byte in styling and drawing mode (2x256), each followed by every combination of operand widths for its first repetition (up to 3^6) with edge-biased values, intact and cut short by 1..3 bytes",
				Min:  map[string]int64{"accepted": 10000, "rejected": 10000, "opcodes_styling": 256, "opcodes_drawing": 256},
			},
			{
				Name: "structured",
				N: func(t string) uint64 {
					if t == "thorough" {
						return 40_000_000
					}
					return 250_000
				},
				Run:  c03Structured,
				Rule: "hand-assembled streams: random metadata (0-2 chunks), 1..40 instructions over all opcodes, non-canonical number forms, repeat counts up to 32, optional reserved opcodes and truncation",
				Min:  map[string]int64{"accepted": 1000, "rejected": 1000, "metadata_only_streams": 5000, "streams_beyond_64KiB": 30},
			},
			{
				Name: "corpus-mutation",
				N: func(t string) uint64 {
					if t == "thorough" {
						return 40_000_000
					}
					return 300_000
				},
				Run:  c03Corpus,
				Rule: "corpus files (971 real graphics) intact and under truncation, byte substitution, insertion, deletion and splicing",
				Min:  map[string]int64{"accepted": 1000, "rejected": 1000},
			},
		},
	})
}

func c03Judge(c *run.Ctx, b []byte, family string) {
	nontrivial := false
	if len(b) > 5 {
		if m, e := refMetaEnd(b); e && m < len(b) {
			nontrivial = true
		}
	}
	c.Eval(run.HashBytes(b), nontrivial)
	if c.WantSample() && nontrivial {
		c.Sample(map[string]string{"family": family, "stream": hx(b)})
	}
	compareWithRef(c, b, family)
}

func c03Opcode(c *run.Ctx, idx uint64) {
	drawing := idx >= 256
	op := byte(idx & 0xff)
	r := c.Rng(idx)
	sh := gen.Shape(drawing, op)
	if drawing {
		c.Count("opcodes_drawing", 1)
	} else {
		c.Count("opcodes_styling", 1)
	}
	widths := [3]int{1, 2, 4}
	combos := 1
	for i := 0; i < sh.Nums; i++ {
		combos *= 3
	}
	valueDraws := 6
	if combos > 100 {
		valueDraws = 3
	}
	if c.Thorough() {
		valueDraws *= 8
	}
	for combo := 0; combo < combos; combo++ {
		for v := 0; v < valueDraws; v++ {
			var a gen.Asm
			a.Magic()
			if v%2 == 0 {
				a.Nat(0, 1)
			} else {
				a.Metadata(r)
			}
			// a little styling traffic before
			if v%3 == 1 {
				a.Instr(r, false, gen.StylingOpcode(r))
			}
			if drawing {
				a.Byte(0xc0 + byte(r.Intn(7)))
				a.Num(r)
				a.Num(r)
				if v%3 == 2 {
					a.Instr(r, true, gen.DrawingOpcode(r))
				}
			}
			a.Byte(op)
			mode := drawing
			if sh.OK {
				for i := 0; i < sh.ColorLen; i++ {
					if r.Chance(1, 3) {
						a.Byte(byte(r.Pick(0, 0x7c, 0x7d, 0x7e, 0x7f, 0x80, 0xbf, 0xc0, 0xff)))
					} else {
						a.Byte(r.Byte())
					}
				}
				cc := combo
				for rep := 0; rep < sh.Reps; rep++ {
					for i := 0; i < sh.Nums; i++ {
						if rep == 0 {
							a.NumW(r, widths[cc%3])
							cc /= 3
						} else {
							a.Num(r)
						}
					}
				}
				if sh.ToDraw {
					mode = true
				}
				if sh.ToStyle {
					mode = false
				}
			}
			full := len(a.B)
			// what follows the instruction under test
			switch r.Intn(4) {
			case 0:
			case 1:
				if mode {
					a.Byte(0xe1)
				} else {
					a.Byte(byte(r.Intn(0x80)))
				}
			default:
				if mode {
					mode = a.Instr(r, true, gen.DrawingOpcode(r))
					a.Byte(0xe1)
				} else {
					mode = a.Instr(r, false, gen.StylingOpcode(r))
				}
			}
			c03Judge(c, a.B, "opcode-widths")
			// cut inside / right after the instruction under test
			for cut := 1; cut <= 3 && cut < full-5; cut++ {
				c03Judge(c, a.B[:full-cut], "opcode-widths-cut")
			}
		}
	}
	c.Exhaustive()
}

func c03Structured(c *run.Ctx, idx uint64) {
	r := c.Rng(idx)
	n := r.Range(1, 40)
	if r.Chance(1, 12) {
		n = 0 // the stream ends with its metadata
		c.Count("metadata_only_streams", 1)
	}
	if r.Chance(1, 2500) {
		n = r.Range(15000, 30000) // a stream beyond 64 KiB (the width of a 16-bit length or offset)
		c.Count("streams_beyond_64KiB", 1)
	}
	cut := 0
	if r.Chance(1, 4) {
		cut = r.Range(1, 6)
	}
	b := gen.Stream(r, n, r.Chance(1, 3) && n < 1000, cut)
	if idx%16 == 5 {
		// chunk identifiers that repeat or are out of order, some chunks invalid in themselves
		var a gen.Asm
		a.Magic()
		a.MetadataRepeated(r)
		for k := r.Intn(4); k > 0; k-- {
			a.Instr(r, false, gen.StylingOpcode(r))
		}
		b = a.B
		c.Count("repeated_metadata_identifiers", 1)
	}
	c03Judge(c, b, "structured")
}

func c03Corpus(c *run.Ctx, idx uint64) {
	fs := corpus.Files()
	if len(fs) == 0 {
		return
	}
	r := c.Rng(idx)
	f := fs[int(idx)%len(fs)]
	if idx < uint64(len(fs)) {
		c03Judge(c, f.Data, "corpus")
		return
	}
	other := fs[r.Intn(len(fs))]
	b := gen.Mutate(r, f.Data, other.Data)
	if r.Chance(1, 5) {
		b = gen.Mutate(r, b, other.Data)
	}
	c03Judge(c, b, "corpus-mutation")
}
