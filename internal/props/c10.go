package props

import (
	"bytes"
	"fmt"
	"image/color"

	"github.com/reactivego/ivg"
	"github.com/reactivego/ivg/encode"

	"ivgverif/internal/gen"
	"ivgverif/internal/rec"
	"ivgverif/internal/ref"
	"ivgverif/internal/run"
)

// C10 — the Encoder accepts exactly protocol-respecting histories; errors are
// sticky. Monitor: a specification automaton stepped online after every call
// of a history executed on real Encoders (a zero value and a Reset one).

const (
	l10Reset = iota
	l10Read
	l10StyleOK
	l10StyleBadAdj
	l10StyleBadIncr
	l10StartOK
	l10StartBad
	l10Draw
	l10CloseMove
	l10End
	l10Bytes
	n10
)

var l10Names = [...]string{"reset", "read", "styling", "styling-bad-adj", "styling-bad-incr", "start", "start-bad-adj", "draw", "close-move", "end", "bytes"}

type st10 struct {
	drawing bool
	err     bool
}

func (s st10) String() string {
	switch {
	case s.err:
		return "error"
	case s.drawing:
		return "drawing"
	}
	return "styling"
}

func step10(s st10, l int) st10 {
	if l == l10Reset {
		return st10{}
	}
	if s.err {
		return s
	}
	switch l {
	case l10StyleOK:
		if s.drawing {
			s.err = true
		}
	case l10StyleBadAdj, l10StyleBadIncr, l10StartBad:
		s.err = true
	case l10StartOK:
		if s.drawing {
			s.err = true
		} else {
			s.drawing = true
		}
	case l10Draw, l10CloseMove:
		if !s.drawing {
			s.err = true
		}
	case l10End:
		if !s.drawing {
			s.err = true
		} else {
			s.drawing = false
		}
	}
	return s
}

func pow11(n int) uint64 {
	p := uint64(1)
	for i := 0; i < n; i++ {
		p *= n10
	}
	return p
}

func c10Depth(tier string) (prefix, suffix int) {
	if tier == "thorough" {
		return 4, 4
	}
	return 3, 3
}

func init() {
	run.Register(&run.Prop{
		ID:    "C10",
		Title: "The Encoder accepts exactly protocol-respecting histories; errors are sticky",
		Rule:  "bounded-exhaustive: every history over the 11 call classes (reset, selector read, styling ok/bad-adj/bad-incr, start ok/bad, draw, close-move, end, bytes) up to depth 6 (quick) / 8 (thorough), each class instantiated with PRNG-chosen concrete methods and arguments; every distinct prefix is judged once at its own last step; plus long PRNG histories. Non-trivial = the history contains at least one call besides reads; distinctness by construction (enumeration) / by hash",
		Assumptions: []string{
			"the 3-state specification automaton (styling, drawing, error) written from the property; a fresh Encoder starts in styling",
			"which EncodeError is returned is only compared between steps of the same history (stickiness), not against a table",
			"Encoder.LOD() is not part of the zero-value equivalence (DESIGN.md 6.10)",
		},
		Subs: []*run.Sub{
			{Name: "exhaustive", N: func(t string) uint64 { p, _ := c10Depth(t); return pow11(p) }, Run: c10Exhaustive,
				Rule: "all histories of the depth bound, enumerated as (prefix = case index) x (all suffixes)",
				Min: map[string]int64{"state_styling": 1000, "state_drawing": 1000, "state_error": 1000, "transition_styling>error": 100, "transition_drawing>error": 100,
					"transition_error>styling": 100, "transition_drawing>styling": 100, "transition_styling>drawing": 100, "accepted_histories_decoded": 1000, "sticky_checks": 1000}},
			{Name: "long-random", N: func(t string) uint64 {
				if t == "thorough" {
					return 1_500_000
				}
				return 40_000
			}, Run: c10Random,
				Rule: "PRNG histories of 20..200 calls (one in 64: 3000..6000 calls), biased to stay legal for long stretches, with resets and errors in the middle and with runs of 15..65 calls of one drawing verb (new operands each) followed by a decode check",
				Min:  map[string]int64{"state_error": 1000, "accepted_histories_decoded": 1000, "runs_of_one_verb": 5000, "runs_of_arcs": 300, "runs_of_255_or_more": 1000, "histories_beyond_64KiB": 20, "histories_assigning_the_resolution_field": 10000, "resolution_field_assigned_inside_an_open_path": 50000}},
		},
	})
}

// do10 performs one concrete call of class l on e and returns the op (for
// legal calls that end up in the stream).
func do10(e *encode.Encoder, l int, r *run.Rng, o *gen.Opts) (op rec.Op, recorded bool) {
	switch l {
	case l10Reset:
		vb, pal := ivg.DefaultViewBox, ivg.DefaultPalette
		// the viewBox and the suggested palette are chosen independently: either,
		// both or neither differs from the default (none, one or two metadata chunks)
		switch r.Intn(5) {
		case 1:
			vb = ivg.ViewBox{MinX: 0, MinY: 0, MaxX: 48, MaxY: 48}
		case 2:
			// boxes on the boundary of what a decoder accepts: no extent in x, in y or in both
			x, y := float32(r.Range(-9, 9)), float32(r.Range(-9, 9))
			vb = ivg.ViewBox{MinX: x, MinY: y, MaxX: x + float32(r.Pick(0, 0, 5)), MaxY: y + float32(r.Pick(0, 7, 0))}
		case 3:
			// finite, ordered bounds whose difference is beyond float32
			vb = ivg.ViewBox{MinX: -2.5e38, MinY: -1, MaxX: 2.5e38, MaxY: 1}
		}
		switch r.Intn(4) {
		case 1:
			pal[0] = color.RGBA{0x10, 0x20, 0x30, 0x40}
		case 2:
			// a palette that mixes colours of the different encodable classes in any order
			pal = gen.Palette(r)
			if r.Bool() {
				pal[r.Intn(8)] = color.RGBA{0x40, 0x80, 0xc0, 0xff} // 1-byte colour without a 2-byte form
				pal[r.Intn(8)] = color.RGBA{0x33, 0x88, 0x00, 0xff} // 2-byte colour without a 1-byte form
				pal[r.Intn(64)] = color.RGBA{0x40, 0x40, 0x40, 0x40}
			}
		}
		p := pal
		op = rec.Op{K: rec.KReset, VB: vb, Pal: &p}
		rec.Apply(e, &op)
		return op, true
	case l10Read:
		switch r.Intn(3) {
		case 0:
			e.CSel()
		case 1:
			e.NSel()
		default:
			e.LOD()
		}
		return op, false
	case l10StyleOK:
		op = gen.StylingOp(r, o)
	case l10StyleBadAdj:
		adj := uint8(r.Pick(7, 8, 9, 63, 64, 128, 255, r.Range(7, 255)))
		if r.Bool() {
			op = rec.Op{K: rec.KSetCReg, Adj: adj, Incr: r.Chance(1, 4), Col: gen.Color(r)}
		} else {
			op = rec.Op{K: rec.KSetNReg, Adj: adj, Incr: r.Chance(1, 4), F: [6]float32{1}}
		}
	case l10StyleBadIncr:
		adj := uint8(r.Range(1, 6))
		if r.Bool() {
			op = rec.Op{K: rec.KSetCReg, Adj: adj, Incr: true, Col: gen.Color(r)}
		} else {
			op = rec.Op{K: rec.KSetNReg, Adj: adj, Incr: true, F: [6]float32{0.5}}
		}
	case l10StartOK:
		op = rec.Op{K: rec.KStartPath, Adj: uint8(r.Intn(7)), F: [6]float32{o.Coord(r), o.Coord(r)}}
	case l10StartBad:
		op = rec.Op{K: rec.KStartPath, Adj: uint8(r.Pick(7, 8, 255, r.Range(7, 255))), F: [6]float32{1, 2}}
	case l10Draw:
		k := gen.DrawVerbs[2+r.Intn(len(gen.DrawVerbs)-2)]
		if c10RunVerb >= 0 {
			k = gen.DrawVerbs[c10RunVerb] // inside a run: the same verb again, new operands
		}
		op = gen.DrawOp(r, k, o)
	case l10CloseMove:
		op = gen.DrawOp(r, gen.DrawVerbs[r.Intn(2)], o)
	case l10End:
		op = rec.Op{K: rec.KClosePathEndPath}
	case l10Bytes:
		e.Bytes()
		return op, false
	}
	rec.Apply(e, &op)
	return op, true
}

// c10RunVerb, when >= 0, is the index in gen.DrawVerbs of the verb that
// l10Draw calls use: long-random histories contain runs of one verb around the
// Encoder's run-length chunk sizes (a worker process runs one case at a time).
var c10RunVerb = -1

type h10 struct {
	c        *run.Ctx
	z, r     encode.Encoder // zero value / Reset with default metadata
	shadow   encode.Encoder // same calls, Bytes after every call: remembers the first error
	s        st10
	firstErr error
	ops      []rec.Op // calls since the last Reset (incl. it)
	lowres   []bool   // per entry of ops: written under a latched low resolution
	letters  []int
	// toggle: the exported HighResolutionCoordinates field is assigned at
	// arbitrary moments of the history, also inside open paths (it is not a call
	// of the alphabet; the Encoder latches it at every StartPath, Reset clears it)
	toggle         bool
	field, latched bool
	toggles        int
}

func (h *h10) start() {
	h.z = encode.Encoder{}
	h.r = encode.Encoder{}
	h.r.Reset(ivg.DefaultViewBox, ivg.DefaultPalette)
	h.shadow = encode.Encoder{}
	h.s = st10{}
	h.firstErr = nil
	h.ops = h.ops[:0]
	h.lowres = h.lowres[:0]
	h.field, h.latched = false, false
	h.letters = h.letters[:0]
}

func (h *h10) desc() interface{} {
	names := make([]string, len(h.letters))
	for i, l := range h.letters {
		names[i] = l10Names[l]
	}
	return map[string]interface{}{"history": names, "calls_since_reset": rec.Strings(clip(h.ops, 60))}
}

// call performs one letter on both encoders and steps the automaton; with
// judge set, the oracle is applied after the call.
func (h *h10) call(l int, rng *run.Rng, o *gen.Opts, judge, decodeCheck bool) bool {
	c := h.c
	h.letters = append(h.letters, l)
	if h.toggle && rng.Chance(1, 8) {
		h.field = rng.Bool()
		h.z.HighResolutionCoordinates, h.shadow.HighResolutionCoordinates, h.r.HighResolutionCoordinates = h.field, h.field, h.field
		h.toggles++
		if h.s.drawing && !h.s.err {
			c.Count("resolution_field_assigned_inside_an_open_path", 1)
		}
	}
	// both encoders must receive identical arguments
	state := *rng
	op, recorded := do10(&h.z, l, rng, o)
	*rng = state
	do10(&h.shadow, l, rng, o)
	*rng = state
	do10(&h.r, l, rng, o)
	prev := h.s
	h.s = step10(h.s, l)
	if l == l10Reset {
		h.firstErr = nil
		h.ops = h.ops[:0]
		h.lowres = h.lowres[:0]
		h.field, h.latched = false, false
	}
	if _, es := h.shadow.Bytes(); h.s.err && h.firstErr == nil && es != nil {
		h.firstErr = es
	}
	if recorded && !h.s.err {
		if op.K == rec.KStartPath {
			h.latched = h.field
		}
		h.ops = append(h.ops, op)
		h.lowres = append(h.lowres, !h.latched)
	}
	if !judge {
		return true
	}
	c.Count("state_"+h.s.String(), 1)
	if prev != h.s {
		c.Count("transition_"+prev.String()+">"+h.s.String(), 1)
	}
	bz, ez := h.z.Bytes()
	bz = append([]byte(nil), bz...)
	br, er := h.r.Bytes()
	if (ez != nil) != h.s.err {
		if h.s.err {
			c.Violate("violation-not-reported", h.desc())
		} else {
			c.Violate("legal-history-rejected", map[string]interface{}{"history": h.desc(), "error": ez.Error()})
		}
		return false
	}
	if (er != nil) != h.s.err {
		c.Violate("zero-value-and-reset-encoder-disagree-on-error", map[string]interface{}{"history": h.desc(), "zero": errStr(ez), "reset": errStr(er)})
		return false
	}
	if h.s.err {
		if _, ok := ez.(encode.EncodeError); !ok {
			c.Violate("error-not-EncodeError", map[string]interface{}{"history": h.desc(), "error": ez.Error()})
		}
		if h.firstErr != nil && prev.err {
			c.Count("sticky_checks", 1)
			if ez != h.firstErr {
				c.Violate("first-error-not-kept", map[string]interface{}{"history": h.desc(), "first": h.firstErr.Error(), "now": ez.Error()})
				return false
			}
		}
		if ez != er {
			c.Violate("zero-value-and-reset-encoder-disagree-on-error", map[string]interface{}{"history": h.desc(), "zero": errStr(ez), "reset": errStr(er)})
			return false
		}
		if bz != nil && len(bz) > 0 {
			c.Violate("bytes-returned-with-error", h.desc())
		}
	} else {
		if !bytes.Equal(bz, br) {
			c.Violate("zero-value-encoder-differs-from-reset-encoder", map[string]interface{}{"history": h.desc(), "zero": hx(bz), "reset": hx(br)})
			return false
		}
	}
	if h.z.CSel() != h.r.CSel() || h.z.NSel() != h.r.NSel() {
		c.Violate("zero-value-encoder-selectors-differ", h.desc())
		return false
	}
	if !h.s.err && !h.s.drawing && decodeCheck {
		// accepted history with all paths ended: must decode to the history
		c.Count("accepted_histories_decoded", 1)
		out, derr := decodeRec(bz)
		if derr != nil {
			c.Violate("accepted-history-does-not-decode", map[string]interface{}{"history": h.desc(), "bytes": hx(bz), "error": derr.Error()})
			return false
		}
		want := h.ops
		shift := 0
		if len(want) == 0 || want[0].K != rec.KReset {
			pal := ivg.DefaultPalette
			want = append([]rec.Op{{K: rec.KReset, VB: ivg.DefaultViewBox, Pal: &pal}}, want...)
			shift = 1
		}
		res := ref.Parse(bz)
		lowresAt := func(i int) bool {
			if j := i - shift; j >= 0 && j < len(h.lowres) {
				return h.lowres[j]
			}
			return true
		}
		if i, why := compareEncodedPer(want, out, lowresAt, res.ShortZTO); i >= 0 {
			c.Violate("decoded-stream-differs-from-history/"+why, map[string]interface{}{"history": h.desc(), "bytes": hx(bz), "index": i, "written": opStr(want, i), "delivered": opStr(out, i)})
			return false
		}
	}
	return true
}

func c10Exhaustive(c *run.Ctx, idx uint64) {
	np, ns := c10Depth(c.Tier)
	depth := np + ns
	letters := make([]int, depth)
	x := idx
	for i := np - 1; i >= 0; i-- {
		letters[i] = int(x % n10)
		x /= n10
	}
	o := gen.Opts{Coord: func(r *run.Rng) float32 { return gen.Moderate(r, 140) }, RegNum: gen.Any, Angle: gen.Any}
	h := &h10{c: c}
	total := pow11(ns)
	var evals, nt int64
	for sfx := uint64(0); sfx < total; sfx++ {
		y := sfx
		// first position (from the left) that changed since the previous suffix
		changed := np
		if sfx > 0 {
			changed = depth - 1
			for t := sfx; t%n10 == 0; t /= n10 {
				changed--
			}
		}
		for i := depth - 1; i >= np; i-- {
			letters[i] = int(y % n10)
			y /= n10
		}
		// Every distinct history prefix is judged where it first appears in
		// the enumeration (the first suffix of a case re-judges its own
		// prefix, which is harmless).
		judgeFrom := changed
		if sfx == 0 {
			judgeFrom = 0
		}
		h.start()
		rng := run.NewRng(run.Hash64(c.Seed, 0xc10, idx, sfx))
		for i := 0; i < depth; i++ {
			judge := i >= judgeFrom
			if judge {
				evals++
				if letters[i] != l10Read {
					nt++
				}
			}
			if !h.call(letters[i], rng, &o, judge, judge) {
				break
			}
		}
		if c.WantSample() && sfx == total/2 {
			c.Sample(h.desc())
		}
	}
	c.EvalBulk(evals, nt)
	c.Exhaustive()
}

func c10Random(c *run.Ctx, idx uint64) {
	r := c.Rng(idx)
	n := r.Range(20, 200)
	long := r.Chance(1, 64)
	if long {
		n = r.Range(3000, 6000) // streams of tens of kilobytes
	}
	huge := r.Chance(1, 700)
	if huge {
		// streams beyond 64 KiB (the width of a 16-bit length or offset); judged every 64th call and at the end
		long, n = true, r.Range(25000, 40000)
		c.Count("histories_beyond_64KiB", 1)
	}
	o := gen.Opts{Coord: gen.Any, RegNum: gen.Any, Angle: gen.Any}
	h := &h10{c: c}
	h.start()
	if h.toggle = r.Chance(1, 2); h.toggle {
		c.Count("histories_assigning_the_resolution_field", 1)
	}
	hash := uint64(0)
	runLeft, runPending := 0, false
	c10RunVerb = -1
	defer func() { c10RunVerb = -1 }()
	for i := 0; i < n; i++ {
		var l int
		rare := 1
		if long {
			rare = 40 // long histories must grow: few resets and errors
		}
		if runLeft == 0 {
			c10RunVerb = -1
			if h.s.drawing && !h.s.err && r.Chance(1, 25) {
				// a run of one drawing verb around the run-length chunk sizes (16 per chunk, 32 for the 1-operand-pair verbs)
				c10RunVerb = 2 + r.Intn(len(gen.DrawVerbs)-2)
				runLeft = r.Pick(15, 16, 17, 18, 31, 32, 33, 34, 49, 65)
				if r.Chance(1, 12) {
					runLeft = r.Pick(255, 256, 257, 300, 513) // around the widths of 8-bit counters
					c.Count("runs_of_255_or_more", 1)
				}
				if i+runLeft+3 > n {
					n = i + runLeft + 3 // the history grows to hold the run and the end of its path
				}
				runPending = true
				c.Count("runs_of_one_verb", 1)
				if k := gen.DrawVerbs[c10RunVerb]; k == rec.KAbsArcTo || k == rec.KRelArcTo {
					c.Count("runs_of_arcs", 1)
				}
			}
		}
		switch {
		case runLeft > 0:
			runLeft--
			l = l10Draw
		case r.Chance(1, 60*rare):
			l = r.Intn(n10) // anything, often illegal
		case r.Chance(1, 40*rare):
			l = l10Reset
		case h.s.err:
			l = r.Intn(n10)
		case h.s.drawing:
			l = r.Pick(l10Draw, l10Draw, l10Draw, l10CloseMove, l10End, l10Read, l10Bytes)
		default:
			l = r.Pick(l10StyleOK, l10StyleOK, l10StartOK, l10Read, l10Bytes)
		}
		hash = run.Hash64(hash, uint64(l))
		decodeCheck := i == n-1 || (!long && r.Chance(1, 10))
		if runPending && l == l10End {
			decodeCheck, runPending = true, false // a run is always followed by a decode check at the end of its path
		}
		if !h.call(l, r, &o, !huge || i%64 == 0 || i == n-1 || decodeCheck, decodeCheck) {
			break
		}
	}
	c.Eval(hash, true)
	if c.WantSample() {
		c.Sample(h.desc())
	}
	_ = fmt.Sprint
}
