package props

import (
	"fmt"
	"math"

	"github.com/reactivego/ivg"

	"ivgverif/internal/run"
)

// C12 — aspect-preserving viewBox placement (ivg.ViewBox.AspectMeet,
// AspectSlice, Size). Monitor: return values vs. the property's own predicate
// evaluated in float64.

func init() {
	run.Register(&run.Prop{
		ID:    "C12",
		Title: "Aspect-preserving viewBox placement fits or fills and honours alignment",
		Rule:  "cases are PRNG-chosen (viewBox, target size, alignment) tuples with sizes log-uniform over 1e-4..1e6 (two in three) or with box and target magnitudes anywhere in 1e-25..1e28, or from the edges of the float32 range (aspect ratios that overflow float32, boxes a few subnormal steps wide, targets above 1.7e38), plus a fixed boundary list; a case is non-trivial when the target aspect differs from the viewBox aspect by more than 1% (meet and slice then differ); distinctness by hash of the argument bits",
		Assumptions: []string{
			"float32 rounding allowance: sizes within 1e-5 relative, positions within 1e-5 of max(target, size) per dimension",
			"a slice is not judged when its correct size exceeds the float32 range, nor when the box's aspect ratio is itself not a normal float32 (more than 3.4e38:1; the functions form that quotient in float32 first); aspect ratios of subnormal results are not judged", "viewBox width/height and target sizes finite, positive; aspect ratios within 1e-10..1e10 (1e-7..1e7 for the wide-magnitude cases) so that every correct result is a finite float32",
		},
		Subs: []*run.Sub{
			{
				Name: "boundary",
				N:    func(string) uint64 { return uint64(len(c12Boundary())) },
				Run: func(c *run.Ctx, idx uint64) {
					b := c12Boundary()[idx]
					c12Check(c, b.vb, b.dx, b.dy, b.ax, b.ay)
				},
				Rule: "fixed list: square/non-square boxes, equal aspect, extreme aspect, alignments 0/.5/1, off-origin boxes",
			},
			{
				Name: "random",
				N: func(t string) uint64 {
					if t == "thorough" {
						return 1_000_000_000
					}
					return 6_000_000
				},
				Run:  c12Random,
				Rule: "log-uniform sizes over ten decades, origins anywhere, alignments {0,.5,1} or uniform; 1/5 square boxes, 1/7 equal aspect, 1/11 aspect equal up to 1 ulp",
				Min:  map[string]int64{"meet_width_limited": 1000, "meet_height_limited": 1000, "align_interior": 1000, "equal_aspect": 1000, "wide_magnitudes": 100000, "cross_product_outside_float32": 10000, "extreme_aspect_ratios": 50000, "subnormal_boxes": 50000, "targets_in_the_top_octave": 50000, "target_equals_box_size_in_one_dimension": 10000, "alignment_by_named_constant": 10000},
			},
		},
	})
}

type c12Case struct {
	vb             ivg.ViewBox
	dx, dy, ax, ay float32
}

var c12B []c12Case

func c12Boundary() []c12Case {
	if c12B != nil {
		return c12B
	}
	boxes := []ivg.ViewBox{
		{-32, -32, 32, 32}, {0, 0, 48, 48}, {0, 0, 24, 24}, {0, 0, 64, 32}, {0, 0, 32, 64}, {-10, 5, 90, 25},
		{100, 100, 101, 103}, {-1e5, -1e5, 1e5, 2e5}, {0, 0, 1e-3, 2e-3}, {0, 0, 1, 1e4}, {0, 0, 1e4, 1}, {-3, -7, -1, -2},
		// boxes that touch the origin with another corner or edge than the usual one
		{-48, -24, 0, 0}, {-48, 0, 0, 24}, {0, -24, 48, 0}, {-20, -7, 0, 3}, {-5, -30, 9, 0},
	}
	sizes := [][2]float32{{256, 256}, {64, 64}, {100, 50}, {50, 100}, {1, 1}, {1920, 1080}, {1080, 1920}, {3, 1e4}, {1e4, 3}, {0.5, 0.25}, {17, 17.000002}}
	aligns := []float32{0, 0.5, 1, 0.25}
	for _, vb := range boxes {
		for _, s := range sizes {
			for _, ax := range aligns {
				for _, ay := range aligns {
					c12B = append(c12B, c12Case{vb, s[0], s[1], ax, ay})
				}
			}
		}
		// exactly equal aspect
		w, h := vb.Size()
		c12B = append(c12B, c12Case{vb, w * 3, h * 3, 0.5, 0.5}, c12Case{vb, w / 4, h / 4, 0, 1})
	}
	return c12B
}

func c12Random(c *run.Ctx, idx uint64) {
	r := c.Rng(idx)
	lu := func() float64 { return r.LogUniform(1e-4, 1e6) }
	// One case in three takes the box and the target from anywhere in the
	// float32 range (each with its own magnitude, the aspect ratios within
	// 1e-6..1e6 so that every correct result is representable): products such
	// as dx*height then leave the float32 range although every quotient the
	// computation needs is an ordinary number.
	if r.Chance(1, 6) {
		c12Extreme(c, r)
		return
	}
	wide := r.Chance(1, 3)
	if wide {
		mv, mt := r.LogUniform(1e-25, 1e28), r.LogUniform(1e-25, 1e28)
		lv := func() float64 { return mv * r.LogUniform(1e-3, 1e3) }
		lt := func() float64 { return mt * r.LogUniform(1e-3, 1e3) }
		w, h := lv(), lv()
		ox, oy := 0.0, 0.0
		if r.Bool() {
			ox, oy = r.Uniform(-1, 1)*mv, r.Uniform(-1, 1)*mv
		}
		vb := ivg.ViewBox{MinX: float32(ox), MinY: float32(oy), MaxX: float32(ox + w), MaxY: float32(oy + h)}
		sw, sh := vb.MaxX-vb.MinX, vb.MaxY-vb.MinY
		if !(sw > 0 && sh > 0) || float64(sw)/float64(sh) > 1e7 || float64(sw)/float64(sh) < 1e-7 {
			c.Count("skipped_degenerate_box", 1)
			return
		}
		dx, dy := float32(lt()), float32(lt())
		if r.Chance(1, 6) {
			dy = float32(float64(dx) * float64(sh) / float64(sw))
		}
		if !(dx > 0 && dy > 0) || math.IsInf(float64(dy), 0) {
			return
		}
		c.Count("wide_magnitudes", 1)
		if p := dx * sh; p == 0 || math.IsInf(float64(p), 0) {
			c.Count("cross_product_outside_float32", 1)
		} else if p := dy * sw; p == 0 || math.IsInf(float64(p), 0) {
			c.Count("cross_product_outside_float32", 1)
		}
		ax, ay := float32(r.F64()), float32(r.F64())
		if r.Bool() {
			ax, ay = float32(r.Pick(0, 1, 2))/2, float32(r.Pick(0, 1, 2))/2
		}
		c12Check(c, vb, dx, dy, ax, ay)
		return
	}
	w, h := lu(), lu()
	ox, oy := r.Uniform(-1, 1)*lu(), r.Uniform(-1, 1)*lu()
	vb := ivg.ViewBox{MinX: float32(ox), MinY: float32(oy), MaxX: float32(ox + w), MaxY: float32(oy + h)}
	if idx%5 == 0 {
		vb = ivg.ViewBox{MinX: 0, MinY: 0, MaxX: float32(w), MaxY: float32(w)}
	} else if r.Chance(1, 4) {
		// a box that touches an axis with one of its edges, or the origin with
		// one of its corners: any of the four coordinates exactly zero
		switch r.Intn(3) {
		case 0:
			vb.MinX, vb.MaxX = 0, float32(w)
		case 1:
			vb.MinX, vb.MaxX = -float32(w), 0
		}
		switch r.Intn(3) {
		case 0:
			vb.MinY, vb.MaxY = 0, float32(h)
		case 1:
			vb.MinY, vb.MaxY = -float32(h), 0
		}
		if vb.MaxX == 0 && vb.MaxY == 0 {
			c.Count("box_with_its_far_corner_at_the_origin", 1)
		}
		c.Count("box_edge_on_an_axis", 1)
	}
	sw, sh := vb.MaxX-vb.MinX, vb.MaxY-vb.MinY
	// The origin may swallow a small size in float32; the property is about
	// boxes of positive size with a representable aspect ratio.
	if !(sw > 0 && sh > 0) || float64(sw)/float64(sh) > 1e10 || float64(sw)/float64(sh) < 1e-10 {
		c.Count("skipped_degenerate_box", 1)
		return
	}
	dx, dy := float32(lu()), float32(lu())
	if idx%7 == 0 {
		dy = float32(float64(dx) * float64(sh) / float64(sw))
		c.Count("equal_aspect", 1)
	} else if idx%11 == 0 {
		dy = float32(float64(dx) * float64(sh) / float64(sw))
		dy = math.Float32frombits(math.Float32bits(dy) + uint32(r.Intn(5)) - 2)
		c.Count("near_equal_aspect", 1)
	}
	if !(dy > 0) || math.IsInf(float64(dy), 0) {
		return
	}
	if idx%13 == 0 {
		// the target equals the box's own size, bit for bit, in exactly one
		// dimension (an icon shown at its natural width in a strip of another height)
		if r.Bool() {
			dx = sw
		} else {
			dy = sh
		}
		c.Count("target_equals_box_size_in_one_dimension", 1)
	}
	ax, ay := float32(r.F64()), float32(r.F64())
	switch r.Intn(6) {
	case 0:
		ax, ay = 0, 1
	case 1:
		ax, ay = 0.5, 0.5
	case 2:
		ax, ay = 1, 0
	case 3:
		// the library's own names for the three fractions
		named := [3]float32{ivg.Min, ivg.Mid, ivg.Max}
		want := [3]float32{0, 0.5, 1}
		i, j := r.Intn(3), r.Intn(3)
		ax, ay = named[i], named[j]
		c.Count("alignment_by_named_constant", 1)
		if named != want {
			c.Violate("named-alignment-constants", map[string]interface{}{"Min_Mid_Max": fmt.Sprint(named), "want": fmt.Sprint(want)})
			return
		}
	}
	c12Check(c, vb, dx, dy, ax, ay)
}

// c12Extreme draws from the edges of the float32 range, where every input is
// still a finite positive number: boxes whose aspect ratio itself overflows or
// underflows float32, boxes a few subnormal steps wide, targets in the top
// octave (sums of two sizes overflow), with the alignment constants.
func c12Extreme(c *run.Ctx, r *run.Rng) {
	var vb ivg.ViewBox
	dx, dy := float32(r.LogUniform(1e-3, 1e4)), float32(r.LogUniform(1e-3, 1e4))
	switch r.Intn(3) {
	case 0:
		w, h := float32(r.LogUniform(1e-38, 1e38)), float32(r.LogUniform(1e-38, 1e38))
		vb = ivg.ViewBox{MaxX: w, MaxY: h}
		c.Count("extreme_aspect_ratios", 1)
	case 1:
		u := float32(math.SmallestNonzeroFloat32)
		ox, oy := float32(r.Intn(12))*u, float32(r.Intn(12))*u
		vb = ivg.ViewBox{MinX: ox, MinY: oy, MaxX: ox + float32(r.Range(1, 20))*u, MaxY: oy + float32(r.Range(1, 20))*u}
		c.Count("subnormal_boxes", 1)
	default:
		vb = ivg.DefaultViewBox
		if r.Bool() {
			vb = ivg.ViewBox{MinX: 0, MinY: 0, MaxX: float32(r.Range(1, 100)), MaxY: float32(r.Range(1, 100))}
		}
		dx, dy = float32(r.Uniform(1.7e38, 3.4e38)), float32(r.Uniform(1.7e38, 3.4e38))
		if r.Bool() {
			dx = float32(r.LogUniform(1, 1e38))
		}
		c.Count("targets_in_the_top_octave", 1)
	}
	sw, sh := vb.MaxX-vb.MinX, vb.MaxY-vb.MinY
	if !(sw > 0 && sh > 0) || math.IsInf(float64(dx), 0) || math.IsInf(float64(dy), 0) {
		return
	}
	// a quotient that is itself subnormal has lost most of its digits: what the
	// functions then return is right only to that precision (not judged)
	if q := sw / sh; q != 0 && q < 1.1754944e-38 {
		c.Count("skipped_subnormal_aspect_ratio", 1)
		return
	}
	ax, ay := float32(r.Pick(0, 1, 2))/2, float32(r.Pick(0, 1, 2))/2
	if r.Chance(1, 3) {
		ax, ay = float32(r.F64()), float32(r.F64())
	}
	c12Check(c, vb, dx, dy, ax, ay)
}

func c12Check(c *run.Ctx, vb ivg.ViewBox, dx, dy, ax, ay float32) {
	sw, sh := vb.Size()
	desc := func() interface{} {
		return map[string]interface{}{"viewBox": fmt.Sprint(vb), "dx": dx, "dy": dy, "ax": ax, "ay": ay}
	}
	if sw != vb.MaxX-vb.MinX || sh != vb.MaxY-vb.MinY {
		c.Violate("size-not-max-minus-min", desc())
	}
	vw, vh := float64(sw), float64(sh)
	DX, DY := float64(dx), float64(dy)
	ar := vw / vh
	tr := DX / DY
	nontrivial := math.Abs(tr/ar-1) > 0.01
	h := run.Hash64(uint64(math.Float32bits(vb.MinX))<<32|uint64(math.Float32bits(vb.MaxX)), uint64(math.Float32bits(vb.MinY))<<32|uint64(math.Float32bits(vb.MaxY)),
		uint64(math.Float32bits(dx))<<32|uint64(math.Float32bits(dy)), uint64(math.Float32bits(ax))<<32|uint64(math.Float32bits(ay)))
	c.Eval(h, nontrivial)
	if c.WantSample() {
		c.Sample(desc())
	}
	if ax > 0 && ax < 1 && ay > 0 && ay < 1 && ax != 0.5 {
		c.Count("align_interior", 1)
	}
	const rel = 1e-5
	for mode := 0; mode < 2; mode++ {
		var x0, y0, x1, y1 float32
		name := "meet"
		if mode == 0 {
			x0, y0, x1, y1 = vb.AspectMeet(dx, dy, ax, ay)
		} else {
			name = "slice"
			x0, y0, x1, y1 = vb.AspectSlice(dx, dy, ax, ay)
		}
		W, H := float64(x1)-float64(x0), float64(y1)-float64(y0)
		X0, Y0, X1, Y1 := float64(x0), float64(y0), float64(x1), float64(y1)
		// a slice whose correct size is not a finite float32 has no correct answer
		if mode == 1 {
			sw64, sh64 := DX, DX/ar
			if !((tr < ar) == (mode == 0)) {
				sw64, sh64 = DY*ar, DY
			}
			if sw64 > 3e38 || sh64 > 3e38 {
				c.Count("slice_result_not_representable", 1)
				continue
			}
			// The functions form the aspect ratio in float32 first. When that
			// quotient is not a normal number (the box is more than 3.4e38 times wider
			// than high, or the reverse) a slice is not judged (DESIGN 6.12); the meet
			// of the same case is, its result never exceeds the target.
			if q := sw / sh; q == 0 || math.IsInf(float64(q), 0) {
				c.Count("slice_not_judged_aspect_ratio_not_a_normal_float32", 1)
				continue
			}
		}
		fail := func(what string) {
			c.Violate(name+"/"+what, map[string]interface{}{"case": desc(), "got": fmt.Sprint([]float32{x0, y0, x1, y1}), "W": W, "H": H})
		}
		if math.IsNaN(W) || math.IsNaN(H) || math.IsInf(W, 0) || math.IsInf(H, 0) || W < 0 || H < 0 {
			fail("negative-or-non-finite-size")
			continue
		}
		// (1) aspect ratio preserved. W and H are differences of float32
		// coordinates, so each carries the rounding of the coordinates
		// themselves (relative to the offset, not to the size).
		if W > 1.2e-38 && H > 1.2e-38 { // a subnormal size has lost the digits a ratio needs
			slackW := (math.Abs(X0) + math.Abs(X1)) * 1.2e-7 / W
			slackH := (math.Abs(Y0) + math.Abs(Y1)) * 1.2e-7 / H
			if e := math.Abs((W/H)/ar - 1); e > rel*4+2*(slackW+slackH) {
				fail("aspect-ratio")
			}
		}
		ex := rel * math.Max(DX, W)
		ey := rel * math.Max(DY, H)
		// (2) inside / covering, and equal in at least one dimension
		eqW := math.Abs(W-DX) <= ex
		eqH := math.Abs(H-DY) <= ey
		if !eqW && !eqH {
			fail("touches-neither-dimension")
		}
		if mode == 0 {
			if W > DX+ex || H > DY+ey {
				fail("not-inside-target")
			}
			if X0 < -ex || Y0 < -ey || X1 > DX+ex || Y1 > DY+ey {
				fail("rect-outside-target")
			}
			if nontrivial {
				if tr < ar {
					c.Count("meet_width_limited", 1)
				} else {
					c.Count("meet_height_limited", 1)
				}
			}
		} else {
			if W < DX-ex || H < DY-ey {
				fail("does-not-cover-target")
			}
			if X0 > ex || Y0 > ey || X1 < DX-ex || Y1 < DY-ey {
				fail("rect-does-not-cover-target")
			}
		}
		// (3) the expected size, per dimension (which dimension is the free
		// one follows from the predicate above; this pins the value)
		var iw, ih float64
		if (tr < ar) == (mode == 0) {
			iw, ih = DX, DX/ar
		} else {
			iw, ih = DY*ar, DY
		}
		if math.Abs(W-iw) > rel*math.Max(DX, iw) {
			fail("width")
		}
		if math.Abs(H-ih) > rel*math.Max(DY, ih) {
			fail("height")
		}
		if d := math.Abs(W-iw) / iw; d < 1 {
			c.MaxF("worst_rel_size_error", d)
		}
		// (4) alignment: min = a*(target-size), target-max = (1-a)*(target-size)
		AX, AY := float64(ax), float64(ay)
		if math.Abs(X0-AX*(DX-W)) > ex || math.Abs((DX-X1)-(1-AX)*(DX-W)) > ex {
			fail("alignment-x")
		}
		if math.Abs(Y0-AY*(DY-H)) > ey || math.Abs((DY-Y1)-(1-AY)*(DY-H)) > ey {
			fail("alignment-y")
		}
	}
}
