package props

import (
	"fmt"
	"math"
	"sort"

	"github.com/reactivego/ivg"
	"github.com/reactivego/ivg/generate"
	"github.com/reactivego/ivg/mdicons"
	"golang.org/x/image/math/f32"

	"ivgverif/internal/gen"
	"ivgverif/internal/rec"
	"ivgverif/internal/run"
)

// C20 — SVG path-data front ends emit the path they were given, transformed.
// Monitor: the calls recorded at the Destination boundary vs the operations
// the generated string spells (known by construction), transformed in
// float64.

const c20Tol = 4e-6

func init() {
	run.Register(&run.Prop{
		ID:    "C20",
		Title: "SVG path-data front ends emit the path they were given, transformed",
		Rule:  "every case is a path string generated from a known operation list in one of the two dialects exactly as delimited by the property (all verbs, implicit repeats, every separator and number spelling allowed), fed to Generator.SetPathData under a PRNG scale-and-translate transform or to mdicons.ParsePathData / ParsePath under a PRNG (size, offset, outSize) triple with opacity and circle lists; non-trivial = at least 3 operations; distinctness by hash of string and configuration",
		Assumptions: []string{
			"expected operations are known from the generator of the string, not from a second parser",
			"coordinates compared within 4e-6 of the magnitudes involved (front ends compute in float32)",
			"opacity register value: floor(255*opacity) computed from the float32 opacity; a product within one float32 rounding of an integer may give either neighbour",
		},
		Subs: []*run.Sub{
			{Name: "generator", N: func(t string) uint64 {
				if t == "thorough" {
					return 16_000_000
				}
				return 150_000
			}, Run: c20Generator,
				Min: map[string]int64{"strings": 100000, "implicit_repeats": 20000, "move_demoted_to_line": 5000, "subpaths": 20000, "arcs": 20000, "no_transform": 10000, "with_transform": 50000, "relative_first_move": 10000, "transform_slice_reused": 10000, "transform_reset_to_identity": 10000, "reset_through_generator_after_settransform": 10000, "after_an_earlier_malformed_call": 5000, "generator_value_copied": 10000, "transform_replaced": 10000, "pure_translation_transforms": 2000,
					"verb_H": 1000, "verb_h": 1000, "verb_V": 1000, "verb_v": 1000, "verb_T": 1000, "verb_t": 1000, "verb_S": 1000, "verb_s": 1000, "verb_Q": 1000, "verb_q": 1000, "verb_C": 1000, "verb_c": 1000, "verb_A": 1000, "verb_a": 1000}},
			{Name: "converter", N: func(t string) uint64 {
				if t == "thorough" {
					return 16_000_000
				}
				return 150_000
			}, Run: c20Converter,
				Min: map[string]int64{"strings": 100000, "with_opacity": 20000, "opacity_register_reused": 5000, "circles": 20000, "circle_only_paths": 1000, "offsets_nonzero": 20000, "icons_with_six_distinct_opacities": 2000, "zero_radius_circles": 3000, "explicit_opacity_of_one": 5000, "opacity_of_exactly_zero": 3000}},
			{Name: "file", N: func(t string) uint64 {
				if t == "thorough" {
					return 3_000_000
				}
				return 40_000
			}, Run: c20File,
				Rule: "a PRNG SVG document (0..6 paths in the converter dialect with fill and opacity attributes, 0..3 circles anywhere in the document, a viewBox origin that may lie elsewhere) written to a scratch file and converted by mdicons.ParseFile; the byte-slice literal it writes is read back and compared with the composition of its paths and circles; non-trivial = at least 2 elements",
				Min:  map[string]int64{"files": 30000, "paths": 40000, "circles": 20000, "files_with_circles_only": 2000, "table_paths_with_another_fill": 2000, "table_paths_with_matching_fill": 2000, "circles_after_a_first_path_from_the_table": 300, "icons_sharing_opacity_registers": 5000, "files_with_viewbox_origin_elsewhere": 3000, "files_whose_width_differs_from_the_configured_size": 3000, "files_without_width_and_height": 3000}},
			{Name: "concat", N: func(t string) uint64 {
				if t == "thorough" {
					return 8_000_000
				}
				return 100_000
			}, Run: c20Concat,
				Rule: "Concat of 0..4 PRNG matrices applied to a point vs applying the matrices one after the other (float64)",
				Min:  map[string]int64{"concats": 50000}},
		},
	})
}

var c20Kind = map[byte]rec.Kind{'L': rec.KAbsLineTo, 'l': rec.KRelLineTo, 'H': rec.KAbsHLineTo, 'h': rec.KRelHLineTo, 'V': rec.KAbsVLineTo, 'v': rec.KRelVLineTo,
	'C': rec.KAbsCubeTo, 'c': rec.KRelCubeTo, 'S': rec.KAbsSmoothCubeTo, 's': rec.KRelSmoothCubeTo, 'Q': rec.KAbsQuadTo, 'q': rec.KRelQuadTo, 'T': rec.KAbsSmoothQuadTo, 't': rec.KRelSmoothQuadTo,
	'A': rec.KAbsArcTo, 'a': rec.KRelArcTo, 'M': rec.KClosePathAbsMoveTo, 'm': rec.KClosePathRelMoveTo}

type expOp struct {
	k      rec.Kind
	adj    uint8
	f      [6]float64
	mag    [6]float64
	la, sw bool
}

// c20Expect computes the expected calls for an operation list under
// x' = sx*x + tx (absolute) / sx*x (relative).
func c20Expect(ops []gen.PathOp, adj uint8, sx, sy, tx, ty float64) []expOp {
	var out []expOp
	for i, p := range ops {
		rel := p.Verb >= 'a'
		e := expOp{k: c20Kind[p.Verb]}
		if i == 0 {
			e.k, e.adj, rel = rec.KStartPath, adj, false
		}
		X := func(v float64) (float64, float64) {
			if rel {
				return sx * v, math.Abs(sx * v)
			}
			return sx*v + tx, math.Abs(sx*v) + math.Abs(tx)
		}
		Y := func(v float64) (float64, float64) {
			if rel {
				return sy * v, math.Abs(sy * v)
			}
			return sy*v + ty, math.Abs(sy*v) + math.Abs(ty)
		}
		switch gen.PathNArgs[p.Verb] {
		case 1:
			if p.Verb == 'H' || p.Verb == 'h' {
				e.f[0], e.mag[0] = X(p.N[0])
			} else {
				e.f[0], e.mag[0] = Y(p.N[0])
			}
		case 7:
			e.f[0], e.mag[0] = sx*p.N[0], math.Abs(sx*p.N[0])
			e.f[1], e.mag[1] = sy*p.N[1], math.Abs(sy*p.N[1])
			e.f[2], e.mag[2] = p.N[2]/360, math.Abs(p.N[2]/360)
			e.f[3], e.mag[3] = X(p.N[5])
			e.f[4], e.mag[4] = Y(p.N[6])
			e.la, e.sw = p.N[3] != 0, p.N[4] != 0
		default:
			for j, v := range p.N {
				if j%2 == 0 {
					e.f[j], e.mag[j] = X(v)
				} else {
					e.f[j], e.mag[j] = Y(v)
				}
			}
		}
		out = append(out, e)
	}
	return out
}

func c20Compare(got []rec.Op, exp []expOp) (int, string) {
	n := len(got)
	if len(exp) < n {
		n = len(exp)
	}
	for i := 0; i < n; i++ {
		g, e := &got[i], &exp[i]
		if g.K != e.k {
			return i, "operation"
		}
		if g.K == rec.KStartPath && g.Adj != e.adj {
			return i, "register-adjustment"
		}
		if g.LargeArc != e.la || g.Sweep != e.sw {
			return i, "arc-flags"
		}
		infinite := false
		for j := 0; j < g.K.NArgs(); j++ {
			infinite = infinite || math.IsInf(e.f[j], 0) || math.IsNaN(e.f[j])
		}
		if infinite {
			// An operand beyond the float32 range is an infinite coordinate. What an
			// affine map makes of an operation with an infinite operand (inf times a zero
			// matrix entry is not a number) is not judged; that the operation is emitted is.
			continue
		}
		for j := 0; j < g.K.NArgs(); j++ {
			if math.Abs(float64(g.F[j])-e.f[j]) > c20Tol*(e.mag[j]+1) {
				what := "coordinate"
				if g.K == rec.KAbsArcTo || g.K == rec.KRelArcTo {
					what = []string{"arc-radius", "arc-radius", "arc-rotation", "arc-endpoint", "arc-endpoint"}[j]
				}
				return i, what
			}
		}
	}
	if len(got) != len(exp) {
		return n, "operation-count"
	}
	return -1, ""
}

func expStrings(exp []expOp) []string {
	var out []string
	for _, e := range exp {
		out = append(out, fmt.Sprintf("%s adj=%d %v la=%v sw=%v", e.k, e.adj, e.f[:e.k.NArgs()], e.la, e.sw))
	}
	return out
}

func c20Generator(c *run.Ctx, idx uint64) {
	r := c.Rng(idx)
	s, ops := gen.PathString(r, true)
	adj := uint8(r.Intn(7))
	sx, sy, tx, ty := 1.0, 1.0, 0.0, 0.0
	g := generate.Generator{}
	d := &rec.Dest{}
	g.SetDestination(d)
	mode := r.Intn(8)
	var tdesc string
	switch mode {
	case 0:
		c.Count("no_transform", 1)
		tdesc = "none"
	case 6:
		// a Generator that had a transform, reset to the identity by SetTransform()
		g.SetTransform(generate.Scale(3, 0.5), generate.Translate(7, -9))
		if r.Bool() {
			pre := &rec.Dest{}
			g.SetDestination(pre)
			g.SetPathData("M1 2L3 4z", 0)
			g.SetDestination(d)
		}
		g.SetTransform()
		c.Count("transform_reset_to_identity", 1)
		tdesc = "Scale(3,0.5) Translate(7,-9), then SetTransform() with no arguments"
	case 7:
		// a second SetTransform replaces the first, it does not compose with it
		g.SetTransform(generate.Scale(3, 0.5), generate.Translate(7, -9))
		fsx, ftx, fty := float32(r.PickF(2, 0.25, -1.5)), float32(r.Range(-20, 20)), float32(r.Range(-20, 20))
		g.SetTransform(generate.Scale(fsx), generate.Translate(ftx, fty))
		sx, sy, tx, ty = float64(fsx), float64(fsx), float64(ftx), float64(fty)
		c.Count("transform_replaced", 1)
		tdesc = fmt.Sprintf("Scale(3,0.5) Translate(7,-9), then replaced by Scale(%g) Translate(%g,%g)", fsx, ftx, fty)
	default:
		c.Count("with_transform", 1)
		fsx, fsy := float32(r.LogUniform(0.05, 20)), float32(r.LogUniform(0.05, 20))
		if r.Chance(1, 6) {
			fsx = -fsx
		}
		ftx, fty := float32(r.Uniform(-100, 100)), float32(r.Uniform(-100, 100))
		if r.Chance(1, 4) {
			// scale factors a fast path might single out: exactly 1 (a pure translation), -1, powers of two
			fsx, fsy = float32(r.PickF(1, 1, -1, 2, 0.5)), float32(r.PickF(1, 1, -1, 2, 0.5))
			if fsx == 1 && fsy == 1 {
				c.Count("pure_translation_transforms", 1)
			}
		}
		if r.Chance(1, 10) {
			ftx, fty = 0, 0
		}
		switch mode {
		case 1: // uniform scale, then translate
			fsy = fsx
			g.SetTransform(generate.Scale(fsx), generate.Translate(ftx, fty))
			sx, sy, tx, ty = float64(fsx), float64(fsx), float64(ftx), float64(fty)
			tdesc = fmt.Sprintf("Scale(%g) then Translate(%g,%g)", fsx, ftx, fty)
		case 2: // translate first, then scale: x -> s*(x+t)
			g.SetTransform(generate.Translate(ftx, fty), generate.Scale(fsx, fsy))
			sx, sy, tx, ty = float64(fsx), float64(fsy), float64(fsx)*float64(ftx), float64(fsy)*float64(fty)
			tdesc = fmt.Sprintf("Translate(%g,%g) then Scale(%g,%g)", ftx, fty, fsx, fsy)
		case 3: // a single explicit matrix
			g.SetTransform(generate.Aff3{fsx, 0, ftx, 0, fsy, fty})
			sx, sy, tx, ty = float64(fsx), float64(fsy), float64(ftx), float64(fty)
			tdesc = fmt.Sprintf("Aff3{%g,0,%g,0,%g,%g}", fsx, ftx, fsy, fty)
		case 4: // three factors
			f2 := float32(r.PickF(0.5, 2, 3, 1))
			if r.Chance(1, 4) && (fsx == 2 || fsx == 0.5) {
				f2 = 1 / fsx // the factors cancel: net scale exactly 1 in x
			}
			g.SetTransform(generate.Scale(fsx, fsy), generate.Translate(ftx, fty), generate.Scale(f2))
			sx, sy, tx, ty = float64(fsx)*float64(f2), float64(fsy)*float64(f2), float64(ftx)*float64(f2), float64(fty)*float64(f2)
			tdesc = fmt.Sprintf("Scale(%g,%g) Translate(%g,%g) Scale(%g)", fsx, fsy, ftx, fty, f2)
		default:
			g.SetTransform(generate.Scale(fsx, fsy), generate.Translate(ftx, fty))
			sx, sy, tx, ty = float64(fsx), float64(fsy), float64(ftx), float64(fty)
			tdesc = fmt.Sprintf("Scale(%g,%g) then Translate(%g,%g)", fsx, fsy, ftx, fty)
		}
		if mode == 5 {
			// The caller keeps its transforms in a slice and configures the
			// generator from it before every path; the slice is the caller's.
			ts := []generate.Aff3{generate.Scale(fsx, fsy), generate.Translate(ftx, fty)}
			keep := append([]generate.Aff3(nil), ts...)
			g.SetTransform(ts...)
			pre := &rec.Dest{}
			g.SetDestination(pre)
			g.SetPathData("M1 2L3 4z", 0)
			g.SetTransform(ts...)
			g.SetDestination(d)
			c.Count("transform_slice_reused", 1)
			tdesc += " (from a caller-held slice, configured twice)"
			if ts[0] != keep[0] || ts[1] != keep[1] {
				c.Violate("generator/caller-transform-slice-modified", map[string]interface{}{"transform": tdesc, "slice_now": fmt.Sprint(ts)})
				return
			}
		}
	}
	if r.Chance(1, 6) {
		// a copy of the configured Generator value goes its own way: what is done to
		// the copy (another transform, a path) does not reach the original
		cp := g
		cp.SetTransform(generate.Scale(7, 9), generate.Translate(-3, 11))
		cp.SetDestination(&rec.Dest{})
		cp.SetPathData("M1 2L3 4z", 0)
		c.Count("generator_value_copied", 1)
	}
	resetAfterTransform := r.Chance(1, 5)
	if resetAfterTransform {
		// the transform was configured once, up front; the graphic is started afterwards
		// (Reset reaches the destination through the Generator)
		g.Reset(ivg.DefaultViewBox, ivg.DefaultPalette)
		c.Count("reset_through_generator_after_settransform", 1)
	}
	if r.Chance(1, 8) {
		// an earlier call on this Generator was given something that is not path data
		// (outside the claim, whatever it does); the well-formed call that follows is inside
		// (same destination, not set again: the recorder simply forgets what that call delivered)
		func() {
			defer func() { recover() }() // what a malformed string does is not judged
			g.SetPathData(r.PickS("R4 4z", "M1 2X3z"), 0)
		}()
		d.Ops = d.Ops[:0]
		if resetAfterTransform {
			g.Reset(ivg.DefaultViewBox, ivg.DefaultPalette)
		}
		c.Count("after_an_earlier_malformed_call", 1)
	}
	c.Count("strings", 1)
	for i, p := range ops {
		if i > 0 {
			c.Count("verb_"+string(p.Verb), 1)
		}
		if p.Verb == 'A' || p.Verb == 'a' {
			c.Count("arcs", 1)
		}
	}
	if s[0] == 'm' {
		c.Count("relative_first_move", 1)
	}
	// structure counters from the string itself
	for i := 1; i < len(s); i++ {
		if s[i-1] == 'z' && (s[i] == 'M' || s[i] == 'm') {
			c.Count("subpaths", 1)
		}
	}
	nVerbLetters := 0
	for i := 0; i < len(s); i++ {
		if _, ok := gen.PathNArgs[s[i]]; ok {
			nVerbLetters++
		}
	}
	if len(ops) > nVerbLetters {
		c.Count("implicit_repeats", int64(len(ops)-nVerbLetters))
	}
	for i := 1; i < len(ops); i++ {
		if (ops[i].Verb == 'L' || ops[i].Verb == 'l') && (ops[i-1].Verb == 'M' || ops[i-1].Verb == 'm' || i == 1) && len(ops) > nVerbLetters {
			c.Count("move_demoted_to_line", 1)
			break
		}
	}
	c.Eval(run.Hash64(run.HashString(s), uint64(mode)<<8|uint64(adj), math.Float64bits(sx), math.Float64bits(tx)), len(ops) >= 3)
	if c.WantSample() {
		c.Sample(map[string]interface{}{"dialect": "generator", "path": s, "transform": tdesc, "adj": adj})
	}
	var err error
	if !c.Guard("SetPathData", func() interface{} { return map[string]interface{}{"path": s, "transform": tdesc} }, func() { err = g.SetPathData(s, adj) }) {
		return
	}
	exp := append(c20Expect(ops, adj, sx, sy, tx, ty), expOp{k: rec.KClosePathEndPath})
	if err != nil {
		c.Violate("generator/well-formed-path-rejected", map[string]interface{}{"path": s, "error": err.Error()})
		return
	}
	if resetAfterTransform && len(d.Ops) > 0 && d.Ops[0].K == rec.KReset {
		d.Ops = d.Ops[1:]
	}
	if i, why := c20Compare(d.Ops, exp); i >= 0 {
		dd := map[string]interface{}{"path": s, "transform": tdesc, "adj": adj, "index": i, "got": opStr(d.Ops, i)}
		if i < len(exp) {
			dd["expected"] = expStrings(exp[i : i+1])[0]
		}
		dd["n_got"], dd["n_expected"] = len(d.Ops), len(exp)
		c.Violate("generator/"+why, dd)
	}
}

func c20Converter(c *run.Ctx, idx uint64) {
	r := c.Rng(idx)
	size := float32(r.PickF(12, 18, 24, 36, 48, 20))
	outSize := float32(r.PickF(48, 24, 64, 100, 48))
	off := f32.Vec2{0, 0}
	if r.Chance(2, 3) {
		off = f32.Vec2{float32(r.Range(-4, 4)), float32(r.Range(-4, 4))}
		if off[0] != 0 || off[1] != 0 {
			c.Count("offsets_nonzero", 1)
		}
	}
	sc := float64(outSize / size) // the converter scales in float32
	tx, ty := -float64(outSize)/2-float64(off[0]), -float64(outSize)/2-float64(off[1])
	c.Count("strings", 1)
	if r.Chance(1, 3) {
		// ParsePathData alone
		s, ops := gen.PathString(r, false)
		adj := uint8(r.Intn(7))
		d := &rec.Dest{}
		var err error
		c.Eval(run.Hash64(run.HashString(s), uint64(math.Float32bits(size))<<32|uint64(math.Float32bits(outSize)), uint64(adj)), len(ops) >= 3)
		if !c.Guard("ParsePathData", func() interface{} { return s }, func() { err = mdicons.ParsePathData(d, s, adj, size, off, outSize) }) {
			return
		}
		if err != nil {
			c.Violate("converter/well-formed-path-rejected", map[string]interface{}{"path": s, "error": err.Error()})
			return
		}
		exp := c20Expect(ops, adj, sc, sc, tx, ty)
		if i, why := c20Compare(d.Ops, exp); i >= 0 {
			dd := map[string]interface{}{"path": s, "size": size, "offset": fmt.Sprint(off), "outSize": outSize, "index": i, "got": opStr(d.Ops, i), "n_got": len(d.Ops), "n_expected": len(exp)}
			if i < len(exp) {
				dd["expected"] = expStrings(exp[i : i+1])[0]
			}
			c.Violate("converter/"+why, dd)
		}
		if c.WantSample() {
			c.Sample(map[string]interface{}{"dialect": "converter", "path": s, "size": size, "offset": fmt.Sprint(off), "outSize": outSize})
		}
		return
	}
	// ParsePath: several paths of one icon sharing the opacity registers
	adjs := map[float32]uint8{}
	wantAdj := map[float32]uint8{}
	// 0.5, 0.501 and 0.502 are distinct opacities that give the same 8-bit blend weight
	opacities := []float32{0.3, 0.54, 0.87, 0.38, 0.26, 0.12, 0.9, 0.5, 0.501, 0.502, 0.2, 0.7, 0.6, 0, float32(r.Intn(100)) / 100}
	nPaths := r.Range(1, 5)
	many := r.Chance(1, 4) // an icon with many paths and as many distinct opacities as there are registers for (six)
	if many {
		nPaths = r.Range(6, 10)
	}
	h := uint64(0)
	for pi := 0; pi < nPaths; pi++ {
		p := &mdicons.Path{}
		var ops []gen.PathOp
		if !r.Chance(1, 8) {
			p.D, ops = gen.PathString(r, false)
		}
		opacity := float32(1)
		wantNew := r.Chance(1, 2)
		if many {
			wantNew = r.Chance(4, 5)
		}
		if wantNew && len(wantAdj) < 6 || len(wantAdj) > 0 && r.Chance(1, 3) {
			// a new opacity (while fewer than 6 exist) or one already used
			if len(wantAdj) < 6 && (many || r.Bool()) {
				opacity = opacities[r.Intn(len(opacities))]
			} else {
				// one already used: chosen by value, not by map order (replays are deterministic)
				var used []float64
				for o := range wantAdj {
					used = append(used, float64(o))
				}
				sort.Float64s(used)
				if len(used) > 0 {
					opacity = float32(used[r.Intn(len(used))])
				}
			}
			if opacity == 1 {
				opacity = 0.3
			}
			if opacity == 0 {
				// an opacity of exactly 0 is an opacity like any other: its own
				// register (blend weight 0), the path emitted, circles kept
				c.Count("opacity_of_exactly_zero", 1)
			}
			if _, ok := wantAdj[opacity]; !ok && len(wantAdj) >= 6 {
				opacity = 1
			}
		}
		if opacity != 1 {
			o := opacity
			switch r.Intn(4) {
			case 0, 1:
				p.Opacity = &o
			case 2:
				p.FillOpacity = &o
			default:
				// both attributes: the opacity wins, whatever the fill-opacity says
				other := float32(r.PickF(1, 0.25, 0.75))
				p.Opacity, p.FillOpacity = &o, &other
			}
			c.Count("with_opacity", 1)
		} else if r.Chance(1, 6) {
			// an explicit opacity of exactly 1 is an opacity: the path stays opaque
			// even if a fill-opacity says otherwise
			one, other := float32(1), float32(r.PickF(0.4, 0.5, 1))
			p.Opacity = &one
			if r.Bool() {
				p.FillOpacity = &other
			}
			c.Count("explicit_opacity_of_one", 1)
		}
		var circles []mdicons.Circle
		if pi == 0 && r.Chance(1, 3) || p.D == "" {
			for n := r.Range(1, 3); n > 0; n-- {
				circles = append(circles, mdicons.Circle{Cx: float32(r.Range(2, 40)) + float32(r.Intn(2))/2, Cy: float32(r.Range(2, 40)), R: float32(r.Range(1, 8)) + float32(r.Intn(4))/4})
				if r.Chance(1, 8) {
					circles[len(circles)-1].R = 0 // a circle list may hold a point: it still is two half-turn arcs
					c.Count("zero_radius_circles", 1)
				}
				c.Count("circles", 1)
			}
			if p.D == "" {
				c.Count("circle_only_paths", 1)
			}
		}
		d := &rec.Dest{}
		var err error
		desc := func() map[string]interface{} {
			return map[string]interface{}{"path": p.D, "opacity": opacity, "circles": fmt.Sprint(circles), "size": size, "offset": fmt.Sprint(off), "outSize": outSize, "path_number": pi, "opacities_so_far": fmt.Sprint(wantAdj)}
		}
		if !c.Guard("ParsePath", func() interface{} { return desc() }, func() { err = mdicons.ParsePath(d, p, adjs, size, off, outSize, circles) }) {
			return
		}
		h = run.Hash64(h, run.HashString(p.D), uint64(math.Float32bits(opacity)), uint64(len(circles)))
		if err != nil {
			c.Violate("converter/well-formed-path-rejected", map[string]interface{}{"case": desc(), "error": err.Error()})
			return
		}
		// expected calls
		var exp []expOp
		got := d.Ops
		adj := uint8(0)
		if opacity != 1 {
			a, seen := wantAdj[opacity]
			if !seen {
				a = uint8(len(wantAdj) + 1)
				wantAdj[opacity] = a
				// one SetCReg(adj, false, blend(floor(255*o), transparent, palette[0]))
				if len(got) == 0 || got[0].K != rec.KSetCReg {
					c.Violate("converter/opacity-register-not-set", desc())
					return
				}
				s := rec.Spec(got[0].Col)
				exact := float64(opacity) * 255
				t0, t1 := math.Floor(exact), math.Floor(exact*(1+1e-6))
				if got[0].Adj != a || got[0].Incr || s.Typ != ivg.ColorTypeBlend || s.C0 != 0x7f || s.C1 != 0x80 || (float64(s.T) != t0 && float64(s.T) != t1) {
					dd := desc()
					dd["got"], dd["expected_adj"], dd["expected_blend_weight"] = got[0].String(), a, t0
					c.Violate("converter/opacity-register-value", dd)
					return
				}
				got = got[1:]
			} else {
				c.Count("opacity_register_reused", 1)
				if len(got) > 0 && got[0].K == rec.KSetCReg {
					c.Violate("converter/opacity-register-set-twice", desc())
					return
				}
			}
			adj = a
		}
		if p.D != "" {
			exp = c20Expect(ops, adj, sc, sc, tx, ty)
		}
		for ci, cc := range circles {
			cx := float64(cc.Cx)*sc + tx
			cy := float64(cc.Cy)*sc + ty
			rr := float64(cc.R) * sc
			mag := math.Abs(float64(cc.Cx)*sc) + math.Abs(tx) + rr
			k := rec.KClosePathAbsMoveTo
			e := expOp{k: k, f: [6]float64{cx - rr, cy}, mag: [6]float64{mag, mag}}
			if p.D == "" && ci == 0 {
				e.k, e.adj = rec.KStartPath, adj
			}
			exp = append(exp, e,
				expOp{k: rec.KRelArcTo, sw: true, f: [6]float64{rr, rr, 0, 2 * rr, 0}, mag: [6]float64{rr, rr, 0, 2 * rr, 0}},
				expOp{k: rec.KRelArcTo, sw: true, f: [6]float64{rr, rr, 0, -2 * rr, 0}, mag: [6]float64{rr, rr, 0, 2 * rr, 0}})
		}
		exp = append(exp, expOp{k: rec.KClosePathEndPath})
		if i, why := c20Compare(got, exp); i >= 0 {
			dd := desc()
			dd["index"], dd["got"], dd["n_got"], dd["n_expected"] = i, opStr(got, i), len(got), len(exp)
			if i < len(exp) {
				dd["expected"] = expStrings(exp[i : i+1])[0]
			}
			c.Violate("converter/"+why, dd)
			return
		}
		if c.WantSample() && pi == 0 {
			c.Sample(desc())
		}
	}
	c.Eval(h, true)
	if len(wantAdj) == 6 {
		c.Count("icons_with_six_distinct_opacities", 1)
	}
	if len(adjs) != len(wantAdj) {
		c.Violate("converter/opacity-register-count", map[string]interface{}{"registers": fmt.Sprint(adjs), "expected": fmt.Sprint(wantAdj)})
	}
}

func c20Concat(c *run.Ctx, idx uint64) {
	r := c.Rng(idx)
	n := r.Pick(0, 1, 2, 2, 3, 4, 8)
	ms := make([]generate.Aff3, n, n+r.Intn(3))
	for i := range ms {
		switch r.Intn(6) {
		case 4:
			ms[i] = generate.Scale() // no argument: the identity
			if ms[i] != (generate.Aff3{1, 0, 0, 0, 1, 0}) {
				c.Violate("concat/scale-without-arguments-not-identity", map[string]interface{}{"got": fmt.Sprint(ms[i])})
				return
			}
		case 5:
			a, b := float32(r.Uniform(-3, 3)), float32(r.Uniform(-3, 3))
			ms[i] = generate.Scale(a, b, 7) // further arguments are ignored
			if ms[i] != (generate.Aff3{a, 0, 0, 0, b, 0}) {
				c.Violate("concat/scale-with-three-arguments", map[string]interface{}{"got": fmt.Sprint(ms[i]), "x": a, "y": b})
				return
			}
		case 0:
			ms[i] = generate.Translate(float32(r.Uniform(-50, 50)), float32(r.Uniform(-50, 50)))
		case 1:
			ms[i] = generate.Scale(float32(r.Uniform(-3, 3)), float32(r.Uniform(-3, 3)))
		case 2:
			ms[i] = generate.Scale(float32(r.Uniform(0.1, 3)))
		default:
			for k := range ms[i] {
				ms[i][k] = float32(r.Uniform(-2, 2))
			}
		}
	}
	x, y := float32(r.Uniform(-100, 100)), float32(r.Uniform(-100, 100))
	c.Count("concats", 1)
	c.Eval(run.Hash64(uint64(n), uint64(math.Float32bits(x))<<32|uint64(math.Float32bits(y)), uint64(math.Float32bits(float32(idx)))), n >= 2)
	var cat generate.Aff3
	var gx, gy float32
	keep := append([]generate.Aff3(nil), ms...)
	if !c.Guard("Concat", nil, func() { cat = generate.Concat(ms...); gx, gy = generate.MulAff3(x, y, cat) }) {
		return
	}
	for i := range ms {
		if ms[i] != keep[i] {
			c.Violate("concat/caller-slice-modified", map[string]interface{}{"index": i, "before": fmt.Sprint(keep), "after": fmt.Sprint(ms)})
			return
		}
	}
	// reference: apply one after the other in float64
	fx, fy := float64(x), float64(y)
	mag := math.Abs(fx) + math.Abs(fy) + 1
	for _, m := range ms {
		nx := float64(m[0])*fx + float64(m[1])*fy + float64(m[2])
		ny := float64(m[3])*fx + float64(m[4])*fy + float64(m[5])
		mag = (math.Abs(float64(m[0]))+math.Abs(float64(m[1]))+math.Abs(float64(m[3]))+math.Abs(float64(m[4])))*mag + math.Abs(float64(m[2])) + math.Abs(float64(m[5])) + 1
		fx, fy = nx, ny
	}
	if math.Abs(float64(gx)-fx) > 1e-5*mag || math.Abs(float64(gy)-fy) > 1e-5*mag {
		c.Violate("concat/not-matrix-composition", map[string]interface{}{"matrices": fmt.Sprint(ms), "point": []float32{x, y}, "got": []float32{gx, gy}, "expected": []float64{fx, fy}})
	}
	if c.WantSample() && n >= 2 {
		c.Sample(map[string]interface{}{"matrices": fmt.Sprint(ms), "point": []float32{x, y}})
	}
	// the scale/translate helpers themselves
	if generate.Scale() != (generate.Aff3{1, 0, 0, 0, 1, 0}) || generate.Concat() != (generate.Aff3{1, 0, 0, 0, 1, 0}) {
		c.Violate("concat/identity", nil)
	}
}
