package props

import (
	"bytes"
	"image"
	"image/color"
	"image/draw"
	"math"
	"runtime"

	"github.com/reactivego/ivg"
	"github.com/reactivego/ivg/decode"
	"github.com/reactivego/ivg/encode"
	"github.com/reactivego/ivg/raster"
	"github.com/reactivego/ivg/raster/vec"
	"github.com/reactivego/ivg/render"

	"ivgverif/internal/corpus"
	"ivgverif/internal/gen"
	"ivgverif/internal/rec"
	"ivgverif/internal/ref"
	"ivgverif/internal/run"
)

// C02 — decoding arbitrary bytes is safe, bounded and never delivers garbage
// early. Monitors: invariants asserted at the Destination and Rasterizer
// boundary for every hostile input; crashes and non-termination are caught by
// the driver (child process per shard, CPU-time watchdog, input kept in the
// progress page).

func init() {
	big := func(q, t uint64) func(string) uint64 {
		return func(tier string) uint64 {
			if tier == "thorough" {
				return t
			}
			return q
		}
	}
	run.Register(&run.Prop{
		ID:    "C02",
		Title: "Decoding arbitrary bytes is safe, bounded and never delivers garbage early",
		Rule:  "every case is one hostile byte string pushed through Decode (recorder, Encoder, Renderer over a recording rasterizer, and x/image/vector when coordinates are moderate), DecodeViewBox and Disassemble; non-trivial = the input differs from every intact corpus file (it is a truncation, corruption, splice or generated string); distinctness by hash of the bytes",
		Assumptions: []string{
			"memory errors in pure Go surface as panics (the library has no unsafe or cgo); the -race build of the thorough tier adds checkptr",
			"non-termination = one isolated input exceeds 20 CPU-seconds where its siblings take microseconds (CPU time, not wall clock)",
			"golang.org/x/image/vector is only driven with coordinates |v| <= 1e5: its own cost is unbounded in coordinate magnitude",
		},
		Subs: []*run.Sub{
			{Name: "corpus-truncate", N: func(string) uint64 { return uint64(len(corpus.Files())) }, Run: c02Truncate, CaseCPU: 40,
				Rule: "every truncation point of every corpus file; prefix-monotone delivery checked for every k",
				Min:  map[string]int64{"inputs": 100000, "prefix_checks": 100000, "rejected": 10000, "accepted": 10000}},
			{Name: "corpus-substitute", N: func(t string) uint64 { return uint64(len(c02Chunks(c02ChunkSize(t)))) }, Run: c02Substitute, CaseCPU: 40,
				Rule: "every byte position of every corpus file replaced by {^0x01, ^0x80, 0x00, 0xff, 3 PRNG values} (quick) or all 255 other values (thorough)",
				Min:  map[string]int64{"inputs": 500000, "rejected": 10000, "accepted": 10000, "raster_draws": 1000}},
			{Name: "generated", N: big(200_000, 8_000_000), Run: c02Generated, CaseCPU: 8,
				Rule: "splices/insertions/deletions of corpus files, hand-assembled streams with reserved opcodes and truncation, uniformly random tails behind a valid magic, non-finite and huge operands; prefix property on PRNG-chosen cut points",
				Min:  map[string]int64{"inputs": 100000, "rejected": 10000, "accepted": 10000, "long_run_inputs": 10000}},
			{Name: "adversarial-metadata", N: big(60_000, 2_000_000), Run: c02Metadata, CaseCPU: 20,
				Rule: "chunk counts and lengths up to 2^30-1, lengths past EOF, palettes of every format cut short, unknown identifiers, repeated and out-of-order chunks",
				Min:  map[string]int64{"inputs": 30000, "rejected": 10000, "lengths_wrong_by_a_power_of_256": 3000}},
			{Name: "huge-runs", N: big(24, 96), Run: c02Huge, CaseCPU: 60,
				Rule: "inputs of 5..9 MiB that consist of one short instruction repeated millions of times (selector opcodes, 1-byte register writes, empty paths; one path holding a single run of millions of H/h/V/v or line operations): decoded into a counting Destination and by DecodeViewBox, the single runs also into an Encoder and a Renderer; depth of recursion, stack, memory and CPU time (the per-case limit of 60 CPU-seconds is about a hundred times what the unchanged tree needs) must not grow faster than the input",
				Min:  map[string]int64{"huge_inputs": 16, "inputs_beyond_16_MiB": 1, "calls_delivered": 50_000_000, "huge_runs_of_one_drawing_operation": 6}},
			{Name: "race-checkptr", N: big(0, 400_000), Run: c02Generated, Race: true, CaseCPU: 40,
				Rule: "the generated family again under the -race build (which enables checkptr instrumentation)"},
		},
	})
}

type c02State struct {
	d    rec.Dest
	rz   rec.Raster
	orig []byte
	img  *image.RGBA
	// depCPU: CPU seconds of the current case spent in the pass that ends in
	// golang.org/x/image/vector (not the library's work)
	depCPU float64
	// slow counts the inputs of this worker that exceeded the CPU-time bound
	slow int
}

// c02WorkLimit bounds the CPU time all decodes of one input of at most 64 KiB
// may take together (recorder, logger, Encoder, Renderer over the recording
// rasterizer, DecodeViewBox, Disassemble). The unchanged tree needs well under a
// millisecond per KiB; the bound is some thousand times that, in CPU time of
// the worker's own thread (a loaded machine does not inflate it, and the
// garbage collector's background workers run on other threads). It turns "work is linear
// in input length" into something observed per case: work that grows with the
// magnitude of an operand is reported here within seconds, long before the
// driver's non-termination watchdog.
const c02WorkLimit = 2.0

func c02Check(c *run.Ctx, st *c02State, b []byte, family string, salt uint64) []rec.Op {
	if st.slow >= 8 {
		// eight inputs of this worker have already been reported for their cost:
		// the verdict is known, the rest of the shard is not paid for
		c.Count("inputs_skipped_after_eight_work_violations", 1)
		return nil
	}
	runtime.LockOSThread()
	defer runtime.UnlockOSThread()
	st.depCPU = 0
	t0 := run.ThreadCPU()
	ops := c02CheckBody(c, st, b, family, salt)
	if len(b) <= 1<<16 {
		c.Count("inputs_with_cpu_time_bound", 1)
		dt := run.ThreadCPU() - t0 - st.depCPU
		c.MaxF("max_cpu_seconds_of_one_input", dt)
		if dt > c02WorkLimit {
			st.slow++
			c.Violate("work-not-linear-in-input-length", map[string]interface{}{"family": family, "input": hx(st.orig), "bytes": len(b), "cpu_seconds": dt, "limit": c02WorkLimit})
		}
	}
	return ops
}

func premulOK(r, g, b, a uint32) bool { return r <= a && g <= a && b <= a }

// c02Check pushes one input through every entry point and asserts the
// invariants. It returns the calls delivered to the recorder.
func c02CheckBody(c *run.Ctx, st *c02State, b []byte, family string, salt uint64) []rec.Op {
	c.Input(b)
	c.Count("inputs", 1)
	st.orig = append(st.orig[:0], b...)
	detail := func() interface{} { return map[string]interface{}{"family": family, "input": hx(st.orig)} }
	fail := func(sig string, extra map[string]interface{}) {
		d := map[string]interface{}{"family": family, "input": hx(st.orig)}
		for k, v := range extra {
			d[k] = v
		}
		c.Violate(sig, d)
	}
	// (i) plain recorder
	st.d.Ops = st.d.Ops[:0]
	st.d.MaxOps = len(b) + 8
	var err error
	if !c.Guard("Decode(recorder)", detail, func() { err = decode.Decode(&st.d, b) }) {
		return nil
	}
	ops := st.d.Ops
	if err != nil {
		c.Count("rejected", 1)
		if _, ok := err.(decode.DecodeError); !ok {
			fail("error-not-DecodeError", map[string]interface{}{"error": err.Error()})
		}
	} else {
		c.Count("accepted", 1)
	}
	metaEnd, metaOK := refMetaEnd(b)
	if !metaOK && len(ops) > 0 {
		fail("calls-before-valid-metadata", map[string]interface{}{"first_call": ops[0].String()})
	}
	if len(ops) > 0 && ops[0].K != rec.KReset {
		fail("first-call-not-Reset", map[string]interface{}{"first_call": ops[0].String()})
	}
	for i := 1; i < len(ops); i++ {
		if ops[i].K == rec.KReset {
			fail("second-Reset", map[string]interface{}{"index": i})
			break
		}
	}
	if metaOK && len(ops) > 0 && len(ops)-1 > len(b)-metaEnd {
		fail("more-calls-than-bytes", map[string]interface{}{"calls": len(ops), "instruction_bytes": len(b) - metaEnd})
	}
	if len(ops) > len(b) {
		fail("more-calls-than-bytes", map[string]interface{}{"calls": len(ops), "bytes": len(b)})
	}
	nDraw, nArc, nCubeOps := 0, 0, 0
	for i := range ops {
		switch k := ops[i].K; {
		case k == rec.KAbsArcTo || k == rec.KRelArcTo:
			nArc++
			nDraw++
		case k == rec.KAbsCubeTo || k == rec.KRelCubeTo || k == rec.KAbsSmoothCubeTo || k == rec.KRelSmoothCubeTo:
			nCubeOps++
			nDraw++
		case k.IsDrawing() || k == rec.KStartPath:
			nDraw++
		}
	}
	// (i') the same calls arrive when the recorder sits behind the public logging
	// wrapper (either log format): the first of them is Reset there too
	if salt%8 == 1 {
		c.Count("decodes_through_destination_logger", 1)
		c.Guard("Decode(DestinationLogger)", detail, func() {
			ld := &rec.Dest{MaxOps: len(b) + 8}
			lerr := decode.Decode(&ivg.DestinationLogger{Destination: ld, Alt: salt%16 == 1}, b)
			if (lerr == nil) != (err == nil) || len(ld.Ops) != len(ops) {
				fail("calls-through-the-logger-differ", map[string]interface{}{"direct_calls": len(ops), "through_logger": len(ld.Ops), "direct_error": errStr(err), "logger_error": errStr(lerr)})
				return
			}
			for i := range ops {
				if !rec.Equal(ops[i], ld.Ops[i]) {
					fail("calls-through-the-logger-differ", map[string]interface{}{"index": i, "direct": ops[i].String(), "through_logger": ld.Ops[i].String()})
					return
				}
			}
		})
	}
	// (i'') the logging wrapper on its own, without a wrapped destination, is a
	// print-only recorder (each of its methods provides for that): same verdict,
	// no panic
	if salt%32 == 9 {
		c.Count("decodes_into_a_bare_destination_logger", 1)
		c.Guard("Decode(DestinationLogger without destination)", detail, func() {
			lerr := decode.Decode(&ivg.DestinationLogger{Alt: salt%64 == 9}, b)
			if (lerr == nil) != (err == nil) {
				fail("accept-depends-on-destination", map[string]interface{}{"recorder": errStr(err), "bare_logger": errStr(lerr)})
			}
		})
	}
	// (ii) Encoder
	c.Guard("Decode(Encoder)", detail, func() {
		var e encode.Encoder
		err2 := decode.Decode(&e, b)
		if (err2 == nil) != (err == nil) {
			fail("accept-depends-on-destination", map[string]interface{}{"recorder": errStr(err), "encoder": errStr(err2)})
		}
		if out, eerr := e.Bytes(); eerr == nil && len(out) > 5*len(b)+16 {
			fail("encoder-output-not-linear", map[string]interface{}{"out": len(out), "in": len(b)})
		}
	})
	// (iii) Renderer over the recording rasterizer
	w, h := 1+int(salt%64), 1+int((salt>>8)%64)
	rect := image.Rect(3, 5, 3+w, 5+h)
	switch (salt >> 16) % 16 {
	case 0:
		rect = image.Rectangle{} // an empty target: the scale is zero
	case 1:
		rect = image.Rect(7, 7, 7, 7+h) // zero width only
	case 2:
		// empty because the corners are the wrong way round in one dimension or in
		// both (a struct literal; image.Rect would have swapped them): still nothing
		// to draw into, and never a negative size for the rasterizer
		rect = image.Rectangle{Min: image.Pt(3+w, 5), Max: image.Pt(3, 5+h)}
		c.Count("renders_into_inverted_rectangles", 1)
	case 3:
		rect = image.Rectangle{Min: image.Pt(3, 5+h), Max: image.Pt(3+w, 5)}
		c.Count("renders_into_inverted_rectangles", 1)
	case 4:
		rect = image.Rectangle{Min: image.Pt(3+w, 5+h), Max: image.Pt(3, 5)}
		c.Count("renders_into_inverted_rectangles", 1)
	}
	st.rz.OnReset = func(rw, rh int) {
		if rw < 0 || rh < 0 {
			fail("rasterizer-reset-with-a-negative-size", map[string]interface{}{"w": rw, "h": rh, "target": rect.String()})
		}
	}
	st.rz.ResetLog()
	st.rz.Discard = true
	st.rz.OnDraw = func(src image.Image) {
		for _, p := range [...]image.Point{{0, 0}, {3, 7}, {-5, 1000}, {w - 1, h - 1}} {
			r, g, bb, a := src.At(p.X, p.Y).RGBA()
			if !premulOK(r, g, bb, a) {
				fail("paint-not-premultiplied", map[string]interface{}{"at": p.String(), "rgba": []uint32{r, g, bb, a}})
			}
		}
	}
	// every path is composited over the target rectangle (the zero rectangle for an
	// empty target), the paint aligned with its corner
	effRect := rect
	if rect.Empty() {
		effRect = image.Rectangle{}
	}
	st.rz.OnDrawRect = func(dr image.Rectangle, sp image.Point) {
		if dr != effRect || sp != (image.Point{}) {
			fail("path-not-drawn-over-the-target-rectangle", map[string]interface{}{"draw_rectangle": dr.String(), "source_point": sp.String(), "target": rect.String()})
		}
	}
	// Online bound: every delivered call consumed at least one input byte and may
	// cause at most four rasterizer calls, so 4*len(b)+8 can never be crossed by
	// correct code; crossing it stops the decode at once (a producer whose
	// activity depends on operand magnitude is not waited for).
	st.rz.Cap = 4*len(b) + 8
	capped := false
	c.Guard("Decode(Renderer)", detail, func() {
		var z render.Renderer
		if (salt>>24)%8 == 3 {
			// the recording rasterizer behind the public logging wrapper
			c.Count("renders_through_rasterizer_logger", 1)
			z.SetRasterizer(&raster.RasterizerLogger{Rasterizer: &st.rz}, rect)
		} else {
			z.SetRasterizer(&st.rz, rect)
		}
		defer func() {
			// the cap sentinel is not a panic of the code under test
			if r := recover(); r != nil {
				if _, ok := r.(rec.ActivityCapExceeded); ok {
					capped = true
					return
				}
				panic(r)
			}
		}()
		err3 := decode.Decode(&z, b)
		if (err3 == nil) != (err == nil) {
			fail("accept-depends-on-destination", map[string]interface{}{"recorder": errStr(err), "renderer": errStr(err3)})
		}
	})
	st.rz.Cap = 0
	if capped {
		fail("raster-activity-not-linear", map[string]interface{}{"raster_calls_when_stopped": st.rz.NMut, "input_bytes": len(b), "drawing_calls": nDraw})
	}
	c.Count("raster_calls", int64(st.rz.NMut))
	c.Count("raster_draws", int64(st.rz.NDraw))
	if st.rz.NMut > 4*nDraw {
		fail("raster-activity-not-linear", map[string]interface{}{"raster_calls": st.rz.NMut, "drawing_calls": nDraw})
	}
	if st.rz.NCube > 4*nArc+nCubeOps {
		fail("more-than-4-cubics-per-arc", map[string]interface{}{"cubics": st.rz.NCube, "arcs": nArc, "cubic_ops": nCubeOps})
	}
	// (iv) DecodeViewBox, (v) Disassemble
	c.Guard("DecodeViewBox", detail, func() {
		_, verr := decode.DecodeViewBox(b)
		if verr != nil {
			if _, ok := verr.(decode.DecodeError); !ok {
				fail("error-not-DecodeError", map[string]interface{}{"error": verr.Error(), "entry": "DecodeViewBox"})
			}
			if err == nil {
				fail("DecodeViewBox-rejects-what-Decode-accepts", nil)
			}
		}
	})
	c.Guard("Disassemble", detail, func() {
		_, derr := decode.Disassemble(b)
		if derr != nil {
			if _, ok := derr.(decode.DecodeError); !ok {
				fail("error-not-DecodeError", map[string]interface{}{"error": derr.Error(), "entry": "Disassemble"})
			}
		}
		if (derr == nil) != (err == nil) {
			fail("Disassemble-accept-differs-from-Decode", map[string]interface{}{"decode": errStr(err), "disassemble": errStr(derr)})
		}
	})
	// (vi) the real rasterizer, for moderate coordinates only
	if st.rz.NMut > 0 && st.rz.MaxAbs <= 1e5 && salt%4 == 0 {
		c.Count("vec_renders", 1)
		// a panic raised inside golang.org/x/image/vector is not ivg's (DESIGN 6.5); counted, sampled
		v0 := run.ThreadCPU()
		defer func() { st.depCPU += run.ThreadCPU() - v0 }()
		c.GuardDep("Decode(Renderer+vec)", "golang.org/x/image/", detail, func() {
			if st.img == nil {
				st.img = image.NewRGBA(image.Rect(0, 0, 72, 72))
			}
			var z render.Renderer
			z.SetRasterizer(&vec.Rasterizer{Dst: st.img, DrawOp: draw.Src}, rect)
			decode.Decode(&z, b)
		})
	}
	if !bytes.Equal(st.orig, b) {
		fail("input-modified", nil)
		copy(b, st.orig)
	}
	return ops
}

func errStr(e error) string {
	if e == nil {
		return "<nil>"
	}
	return e.Error()
}

// prefixOK checks that short is a bit-exact prefix of long.
func prefixOK(short, long []rec.Op) int {
	if len(short) > len(long) {
		return len(long)
	}
	for i := range short {
		if !rec.Equal(short[i], long[i]) {
			return i
		}
	}
	return -1
}

func c02Truncate(c *run.Ctx, idx uint64) {
	f := corpus.Files()[idx]
	st := &c02State{}
	full := append([]rec.Op(nil), c02Check(c, st, f.Data, "corpus:"+f.Name, idx)...)
	c.Eval(run.HashBytes(f.Data), false)
	if c.WantSample() {
		c.Sample(map[string]interface{}{"file": f.Name, "bytes": len(f.Data), "truncations": len(f.Data)})
	}
	for k := 0; k < len(f.Data); k++ {
		b := f.Data[:k]
		ops := c02Check(c, st, b, "truncate:"+f.Name, idx*7919+uint64(k))
		c.Eval(run.Hash64(run.HashBytes(b), uint64(k)), true)
		c.Count("prefix_checks", 1)
		if i := prefixOK(ops, full); i >= 0 {
			c.Violate("prefix-not-prefix", map[string]interface{}{"file": f.Name, "k": k, "input": hx(f.Data), "first_difference": i})
		}
	}
}

// c02Chunks enumerates (file, first position) blocks of the substitution
// workload so that no single case is large.
var c02ChunkTab = map[int][][2]int{}

func c02Chunks(size int) [][2]int {
	if t, ok := c02ChunkTab[size]; ok {
		return t
	}
	var t [][2]int
	for fi, f := range corpus.Files() {
		for p := 0; p < len(f.Data); p += size {
			t = append(t, [2]int{fi, p})
		}
	}
	c02ChunkTab[size] = t
	return t
}

func c02ChunkSize(tier string) int {
	if tier == "thorough" {
		return 16
	}
	return 256
}

func c02Substitute(c *run.Ctx, idx uint64) {
	size := c02ChunkSize(c.Tier)
	ch := c02Chunks(size)[idx]
	f := corpus.Files()[ch[0]]
	st := &c02State{}
	r := c.Rng(idx)
	buf := append([]byte(nil), f.Data...)
	for k := ch[1]; k < len(buf) && k < ch[1]+size; k++ {
		o := buf[k]
		var vals []byte
		if c.Thorough() {
			for v := 0; v < 256; v++ {
				if byte(v) != o {
					vals = append(vals, byte(v))
				}
			}
		} else {
			vals = []byte{o ^ 1, o ^ 0x80, 0, 0xff, r.Byte(), r.Byte(), r.Byte()}
		}
		for _, v := range vals {
			if v == o {
				continue
			}
			buf[k] = v
			c02Check(c, st, buf, "substitute:"+f.Name, uint64(ch[0])*104729+uint64(k)*257+uint64(v))
			c.Eval(run.Hash64(run.HashBytes(buf)), true)
		}
		buf[k] = o
	}
	if c.WantSample() {
		c.Sample(map[string]interface{}{"file": f.Name, "first_position": ch[1], "positions": size})
	}
}

func f32bits4(f float32) uint32 { return math.Float32bits(f) >> 2 }

func c02Generated(c *run.Ctx, idx uint64) {
	r := c.Rng(idx)
	st := &c02State{}
	fs := corpus.Files()
	var b []byte
	family := ""
	switch idx % 6 {
	case 5:
		// long runs: the same drawing opcode at its maximum repeat count, 8..20 times
		// in a row (256 to 640 consecutive operations of one kind)
		family = "long-runs"
		var a gen.Asm
		a.Magic()
		a.Nat(0, 1)
		a.Byte(0xc0)
		a.Nat(0x80, 1)
		a.Nat(0x80, 1)
		op := byte(r.Pick(0x1f, 0x1f, 0x3f, 0x4f, 0x5f, 0x6f, 0x7f, 0x8f, 0x9f, 0xaf, 0xbf, 0xcf, 0xdf, 0xe6, 0xe7, 0xe8, 0xe9))
		for n := r.Range(8, 20); n > 0; n-- {
			a.Instr(r, true, op)
		}
		a.Byte(0xe1)
		b = a.B
		c.Count("long_run_inputs", 1)
	case 0:
		family = "splice"
		f, o := fs[r.Intn(len(fs))], fs[r.Intn(len(fs))]
		b = gen.Mutate(r, f.Data, o.Data)
		for n := r.Intn(3); n > 0; n-- {
			b = gen.Mutate(r, b, o.Data)
		}
	case 1:
		family = "random-tail"
		b = append([]byte("\x89IVG\x00"), r.Bytes(r.Intn(65))...)
	case 2:
		family = "structured"
		b = gen.Stream(r, r.Range(1, 60), true, r.Pick(0, 0, 1, 2, 5))
	case 3:
		family = "hostile-operands"
		var a gen.Asm
		a.Magic()
		a.Nat(0, 1)
		specials := []uint32{f32bits4(float32(math.Inf(1))), f32bits4(float32(math.Inf(-1))), f32bits4(float32(math.NaN())), f32bits4(3e38), f32bits4(-3e38), f32bits4(1e19), f32bits4(1e-38), 0x3fffffff, 0}
		num := func() {
			if r.Chance(2, 3) {
				a.Nat(specials[r.Intn(len(specials))], 4)
			} else {
				a.Num(r)
			}
		}
		drawing := false
		for n := r.Range(1, 30); n > 0; n-- {
			var op byte
			if !drawing {
				op = byte(r.Pick(0xc0, 0xc1, 0xc7, 0xa8, 0xb0, 0xb8, 0xaf, int(gen.StylingOpcode(r))))
			} else {
				op = byte(r.Pick(0xe1, 0xc0, 0xd0, 0xc3, 0xa0, 0x60, 0x00, 0x21, 0xe2, 0xe3, 0xe6, 0xe9, int(gen.DrawingOpcode(r))))
			}
			sh := gen.Shape(drawing, op)
			a.Byte(op)
			for i := 0; i < sh.ColorLen; i++ {
				a.Byte(r.Byte())
			}
			for i := 0; i < sh.Reps*sh.Nums; i++ {
				num()
			}
			if sh.ToDraw {
				drawing = true
			}
			if sh.ToStyle {
				drawing = false
			}
		}
		if drawing {
			a.Byte(0xe1)
		}
		b = a.B
	default:
		family = "random"
		b = r.Bytes(r.Intn(40))
		if r.Chance(1, 2) && len(b) >= 4 {
			copy(b, "\x89IVG")
		}
	}
	ops := append([]rec.Op(nil), c02Check(c, st, b, family, r.U64())...)
	c.Eval(run.HashBytes(b), true)
	if c.WantSample() {
		c.Sample(map[string]string{"family": family, "input": hx(b)})
	}
	// prefix property: all cut points for short inputs, a PRNG-chosen set otherwise
	if len(b) <= 96 {
		for k := 0; k < len(b); k++ {
			c02Prefix(c, st, b, k, ops, family)
		}
	} else {
		for n := 0; n < 12; n++ {
			c02Prefix(c, st, b, r.Intn(len(b)), ops, family)
		}
	}
}

func c02Prefix(c *run.Ctx, st *c02State, b []byte, k int, full []rec.Op, family string) {
	st.d.Ops = st.d.Ops[:0]
	st.d.MaxOps = k + 8
	p := b[:k]
	c.Input(p)
	if !c.Guard("Decode(prefix)", func() interface{} { return hx(p) }, func() { decode.Decode(&st.d, p) }) {
		return
	}
	c.Count("prefix_checks", 1)
	if i := prefixOK(st.d.Ops, full); i >= 0 {
		c.Violate("prefix-not-prefix", map[string]interface{}{"family": family, "k": k, "input": hx(b), "first_difference": i})
	}
}

// countDest counts the calls it receives.
type countDest struct {
	rec.Nop
	n int64
}

func (d *countDest) SetCSel(uint8)                             { d.n++ }
func (d *countDest) SetNSel(uint8)                             { d.n++ }
func (d *countDest) SetCReg(adj uint8, incr bool, c ivg.Color) { d.n++ }
func (d *countDest) SetNReg(adj uint8, incr bool, f float32)   { d.n++ }
func (d *countDest) StartPath(adj uint8, x, y float32)         { d.n++ }
func (d *countDest) ClosePathEndPath()                         { d.n++ }
func (d *countDest) Reset(vb ivg.ViewBox, pal [64]color.RGBA)  { d.n++ }
func (d *countDest) AbsHLineTo(x float32)                      { d.n++ }
func (d *countDest) RelHLineTo(x float32)                      { d.n++ }
func (d *countDest) AbsVLineTo(y float32)                      { d.n++ }
func (d *countDest) RelVLineTo(y float32)                      { d.n++ }
func (d *countDest) AbsLineTo(x, y float32)                    { d.n++ }

// c02Huge decodes one very long, very regular input.
func c02Huge(c *run.Ctx, idx uint64) {
	r := c.Rng(idx)
	n := r.Range(5<<20, 9<<20)
	kind := idx % 6
	if kind < 4 && (r.Chance(1, 3) || idx == 2) {
		// lengths on both sides of 2^24 and 2^25 bytes (styling traffic only, into a
		// destination that counts: the Encoder and Renderer passes stay below 9 MiB)
		n = r.Pick(r.Range(16<<20-4096, 16<<20+4096), r.Range(16<<20, 40<<20), r.Range(32<<20, 34<<20))
		if idx == 2 {
			n = r.Range(16<<20+1, 40<<20) // at every seed at least one input beyond 2^24 bytes
		}
		c.Count("inputs_beyond_16_MiB", 1)
	}
	b := make([]byte, 0, n+16)
	b = append(b, "\x89IVG\x00"...)
	var unit, prefix, suffix []byte
	switch kind {
	case 4:
		// one path that holds a single run of millions of one drawing operation
		// (H, h, V or v: the Encoder writes them one per opcode)
		prefix, suffix = []byte{0xc0, 0x80, 0x80}, []byte{0xe1}
		unit = []byte{byte(0xe6 + r.Intn(4)), byte(0x80 + 2*r.Intn(8))}
	case 5:
		// the same with lines (the Encoder writes them in chunks of up to 32)
		prefix, suffix = []byte{0xc0, 0x80, 0x80}, []byte{0xe1}
		unit = []byte{0x00, byte(0x80 + 2*r.Intn(8)), byte(0x80 + 2*r.Intn(8))}
	case 0:
		unit = []byte{byte(r.Intn(0x80))} // one selector opcode, CSEL or NSEL
	case 1:
		unit = []byte{byte(r.Intn(0x40)), byte(0x40 + r.Intn(0x40))} // CSEL, NSEL alternating
	case 2:
		unit = []byte{0x87, byte(r.Intn(125))} // set CREG, 1-byte colour, incrementing
	default:
		unit = []byte{0xc0, 0x80, 0x80, 0xe1} // an empty path
	}
	b = append(b, prefix...)
	for len(b)+len(unit)+len(suffix) <= n {
		b = append(b, unit...)
	}
	b = append(b, suffix...)
	perUnit := []int{1, 2, 1, 2, 1, 1}[kind] // calls one unit stands for
	want := int64(1 + perUnit*((len(b)-5-len(prefix)-len(suffix))/len(unit)))
	if kind >= 4 {
		want += 2 // StartPath and ClosePathEndPath
		c.Count("huge_runs_of_one_drawing_operation", 1)
	}
	c.Count("huge_inputs", 1)
	c.Count("inputs", 1)
	c.Eval(run.Hash64(idx, uint64(len(b)), uint64(unit[0])), true)
	d := &countDest{}
	var err error
	if !c.Guard("Decode(huge input)", func() interface{} { return map[string]interface{}{"unit": hx(unit), "bytes": len(b)} }, func() { err = decode.Decode(d, b) }) {
		return
	}
	c.Count("calls_delivered", d.n)
	if err != nil || d.n != want {
		c.Violate("huge-input-not-decoded-call-by-call", map[string]interface{}{"unit": hx(unit), "bytes": len(b), "error": errStr(err), "calls": d.n, "expected_calls": want})
		return
	}
	if kind >= 4 {
		// the same input into an Encoder (which buffers runs before writing them)
		// and into a Renderer over the recording rasterizer: terminates (the
		// driver's per-case CPU limit decides), output and activity linear
		var out []byte
		if !c.Guard("Decode(huge run, Encoder)", nil, func() {
			var e encode.Encoder
			if err = decode.Decode(&e, b); err == nil {
				out, err = e.Bytes()
			}
		}) {
			return
		}
		if err != nil || len(out) > 5*len(b)+16 || len(out) < len(b)/8 {
			c.Violate("huge-run-not-transcoded", map[string]interface{}{"unit": hx(unit), "bytes": len(b), "error": errStr(err), "output_bytes": len(out)})
			return
		}
		rz := &rec.Raster{Discard: true, Cap: 4*len(b) + 8}
		capped := false
		if !c.Guard("Decode(huge run, Renderer)", nil, func() {
			var z render.Renderer
			z.SetRasterizer(rz, image.Rect(0, 0, 64, 64))
			defer func() {
				if p := recover(); p != nil {
					if _, ok := p.(rec.ActivityCapExceeded); ok {
						capped = true
						return
					}
					panic(p)
				}
			}()
			err = decode.Decode(&z, b)
		}) {
			return
		}
		if err != nil || capped || int64(rz.NMut) < want-3 {
			c.Violate("huge-run-not-rendered-call-by-call", map[string]interface{}{"unit": hx(unit), "bytes": len(b), "error": errStr(err), "raster_calls": rz.NMut, "capped": capped})
			return
		}
	}
	if !c.Guard("DecodeViewBox(huge input)", nil, func() { _, err = decode.DecodeViewBox(b) }) {
		return
	}
	if err != nil {
		c.Violate("huge-input-metadata-rejected", map[string]interface{}{"unit": hx(unit), "bytes": len(b), "error": err.Error()})
	}
}

func c02Metadata(c *run.Ctx, idx uint64) {
	r := c.Rng(idx)
	st := &c02State{}
	var a gen.Asm
	a.Magic()
	hugeNat := func() uint32 {
		return uint32(r.Pick(0x3fffffff, 0x3ffffffe, 1<<29, 1<<20, 65536, 16384, 16383, 300, 129, 128, 127, 64, 3, 2, 1, 0))
	}
	natAny := func(u uint32) {
		w := 4
		if u < 128 && r.Bool() {
			w = 1
		} else if u < 16384 && r.Bool() {
			w = 2
		}
		a.Nat(u, w)
	}
	nChunks := uint32(r.Pick(0, 1, 1, 2, 2, 3, 5))
	if r.Chance(1, 4) {
		nChunks = hugeNat()
	}
	natAny(nChunks)
	emit := int(nChunks)
	if emit > 4 {
		emit = r.Intn(4)
	}
	for i := 0; i < emit; i++ {
		var ch gen.Asm
		mid := uint32(r.Pick(0, 1, 0, 1, 2, 3, 127))
		if r.Chance(1, 10) {
			mid = hugeNat()
		}
		w := 1
		if mid >= 128 || r.Chance(1, 4) {
			w = 4
		}
		ch.Nat(mid, w)
		switch mid {
		case 0:
			for j := 0; j < r.Pick(4, 4, 4, 3, 5, 0); j++ {
				if r.Chance(1, 4) {
					ch.Nat(f32bits4(float32(r.PickF(math.Inf(1), math.Inf(-1), math.NaN(), -math.NaN(), -1e30, 1e30, -3.4e38, 3.4e38))), 4)
				} else {
					ch.Num(r)
				}
			}
		case 1:
			cnt, format := r.Range(1, 64), r.Intn(4)
			ch.Byte(byte(cnt-1) | byte(format)<<6)
			n := cnt * (format + 1)
			switch r.Intn(4) {
			case 0:
				n -= r.Range(1, 3)
			case 1:
				n += r.Range(1, 3)
			case 2:
				n = r.Intn(n + 1)
			}
			for j := 0; j < n; j++ {
				ch.Byte(r.Byte())
			}
		default:
			ch.Byte(r.Bytes(r.Intn(6))...)
		}
		l := uint32(len(ch.B))
		switch r.Intn(7) {
		case 6:
			// wrong by a multiple of 2^8, 2^16 or 2^24: right in its low bits only
			l += uint32(r.Pick(1, 1, 2, 3)) << uint(r.Pick(8, 16, 16, 24))
			c.Count("lengths_wrong_by_a_power_of_256", 1)
		case 0:
			l = hugeNat()
		case 1:
			l += uint32(r.Range(1, 3))
		case 2:
			if l > 0 {
				l -= uint32(r.Range(1, int(l)))
			}
		}
		natAny(l)
		a.Byte(ch.B...)
	}
	// a few instructions after the metadata
	drawing := false
	for n := r.Intn(4); n > 0; n-- {
		if !drawing {
			drawing = a.Instr(r, false, byte(r.Pick(0x00, 0x41, 0x80, 0xc0, int(gen.StylingOpcode(r)))))
		} else {
			drawing = a.Instr(r, true, byte(r.Pick(0xe1, 0x00, int(gen.DrawingOpcode(r)))))
		}
	}
	b := a.B
	if r.Chance(1, 5) && len(b) > 5 {
		b = b[:r.Range(4, len(b))]
	}
	c02Check(c, st, b, "adversarial-metadata", r.U64())
	c.Eval(run.HashBytes(b), true)
	if c.WantSample() {
		c.Sample(map[string]string{"family": "adversarial-metadata", "input": hx(b)})
	}
	_ = ref.StageMagic
}
