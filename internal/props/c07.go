package props

import (
	"fmt"
	"image"
	"image/color"
	"math"
	"strings"

	"github.com/reactivego/ivg"
	"github.com/reactivego/ivg/decode"
	"github.com/reactivego/ivg/encode"
	"github.com/reactivego/ivg/generate"
	"github.com/reactivego/ivg/render"

	"ivgverif/internal/gen"
	"ivgverif/internal/rec"
	"ivgverif/internal/run"
)

// C07 — rendering directly equals rendering via encode+decode; selectors
// agree. Monitors: (online) after every step of a history the selectors
// reported by an Encoder and by a Renderer fed the same calls are compared
// modulo 64; (offline) the rasterizer log of the direct pipeline is compared
// with the log of the pipeline through bytes.

func init() {
	run.Register(&run.Prop{
		ID:    "C07",
		Title: "Rendering directly equals rendering via encode+decode; selectors agree",
		Rule:  "every case is a history of Destination calls, Generator gradient helper calls and SetPathData calls, run once into a Renderer and once into an Encoder (optionally through DestinationLogger), the bytes then decoded into a second Renderer; family 'exact' uses only numbers that survive encoding exactly and demands bit-identical rasterizer logs, family 'helpers' uses arbitrary numbers and generator helpers and demands the same call sequence and paints within the quantisation bound; non-trivial = the history has an incrementing write or a helper call before a path; distinctness by hash of the history",
		Assumptions: []string{
			"family 'helpers' encodes with high resolution; coordinates agree within 2^-19 relative per step (accumulating linearly along a path), gradient transforms within 8*2^-21*kappa",
			"arcs, LOD bounds and stop offsets in family 'helpers' use exactly representable numbers so that discontinuous decisions (segment count, LOD test, stop validity) cannot legitimately differ",
		},
		Subs: []*run.Sub{
			{Name: "exact", N: func(t string) uint64 {
				if t == "thorough" {
					return 5_000_000
				}
				return 100_000
			}, Run: func(c *run.Ctx, idx uint64) { c07Run(c, idx, true) },
				Min: map[string]int64{"histories": 50000, "steps": 1000000, "selector_comparisons": 1000000, "incrementing_writes": 100000, "zero_value_encoder": 1000, "paths_drawn": 50000, "gradient_paints": 2000, "through_logger": 2000, "direct_renderer_given_its_rasterizer_after_reset": 10000, "runs_of_255_or_more": 500, "raster_calls_compared": 500000}},
			{Name: "helpers", N: func(t string) uint64 {
				if t == "thorough" {
					return 5_000_000
				}
				return 100_000
			}, Run: func(c *run.Ctx, idx uint64) { c07Run(c, idx, false) },
				Min: map[string]int64{"histories": 50000, "helper_calls": 50000, "helper_after_increment": 5000, "helper_errors": 1000, "pathdata_calls": 10000, "gradient_paints": 20000, "selector_comparisons": 1000000}},
		},
	})
}

type act7 struct {
	op     *rec.Op
	helper *c19Call
	path   string
	adj    uint8
}

func (a *act7) String() string {
	switch {
	case a.op != nil:
		return a.op.String()
	case a.helper != nil:
		return fmt.Sprint(a.helper.desc())
	}
	return fmt.Sprintf("SetPathData(%q, %d)", a.path, a.adj)
}

func exactUnit(r *run.Rng) float32 {
	// a value in [0,1] that survives every number form
	switch r.Intn(3) {
	case 0:
		return float32(r.Intn(65)) / 64
	case 1:
		for {
			k := r.Intn(15120)
			if gen.StableZTO(k) {
				return float32(k) / 15120
			}
		}
	}
	for {
		f := math.Float32frombits(math.Float32bits(float32(r.F64())) &^ 3)
		// A float32 whose product with 15120 rounds to an integer is written
		// in a short zero-to-one form and comes back as that quotient: only
		// values for which this is the identity survive exactly.
		p := f * 15120
		if u := uint32(p); float32(u) == p && u < 15120 && float32(u)/15120 != f {
			continue
		}
		return f
	}
}

// exactReal returns a number-register value that survives its encoding
// exactly: mostly a value in [0,1] (exactUnit), otherwise an integer of either
// sign up to 40000 (1- and 2-byte natural forms and beyond), a multiple of 1/64
// (coordinate forms) or a float32 with its two low bits clear (4-byte form).
func exactReal(r *run.Rng) float32 {
	switch r.Intn(6) {
	case 0:
		return float32(r.Range(-40000, 40000))
	case 1:
		return float32(r.Pick(-129, -128, -127, -100, -65, -64, -63, -1, 63, 64, 127, 128, 129, 8191, 8192, 16383, 16384, -8192, -8193))
	case 2:
		return gen.Grid64(r)
	case 3:
		f := math.Float32frombits(math.Float32bits(float32(r.Uniform(-300, 300))) &^ 3)
		if f >= 0 && f < 1 {
			return exactUnit(r)
		}
		return f
	}
	return exactUnit(r)
}

// c07History generates a history.
func c07History(c *run.Ctx, r *run.Rng, exact bool) (vb ivg.ViewBox, pal [64]color.RGBA, acts []act7, interesting bool) {
	vb = ivg.DefaultViewBox
	if r.Chance(2, 3) {
		x, y := gen.Grid64(r), gen.Grid64(r)
		vb = ivg.ViewBox{MinX: x, MinY: y, MaxX: x + float32(r.Range(1, 6400))/64, MaxY: y + float32(r.Range(1, 6400))/64}
	}
	pal = gen.Palette(r)
	if vb == ivg.DefaultViewBox && r.Bool() {
		pal = ivg.DefaultPalette
	}
	coord := gen.Grid64
	if !exact {
		coord = func(r *run.Rng) float32 { return gen.Moderate(r, 100) }
	}
	// angles are encoded modulo one turn: a full turn does not survive exactly
	angle := func(r *run.Rng) float32 {
		if f := exactUnit(r); f < 1 {
			return f
		}
		return 0
	}
	o := gen.Opts{Coord: coord, RegNum: exactReal, Angle: angle}
	// In family 'helpers' gradient paints come from the helpers only: a PRNG
	// gradient value could otherwise use a helper's (inexact) matrix registers
	// as stop offsets, whose validity is a discontinuous decision.
	anyColor := func(r *run.Rng) ivg.Color {
		for {
			col := gen.Color(r)
			if s := rec.Spec(col); exact || s.Typ != ivg.ColorTypeRGBA || !(s.RGBA.A == 0 && s.RGBA.B >= 0x80) {
				return col
			}
		}
	}
	add := func(op rec.Op) { p := op; acts = append(acts, act7{op: &p}) }
	sawIncr := false
	n := r.Range(4, 60)
	for len(acts) < n {
		switch k := r.Intn(16); {
		case k < 6:
			op := gen.StylingOp(r, &o)
			if op.K == rec.KSetCReg {
				op.Col = anyColor(r)
			}
			if op.K == rec.KSetLOD && !(op.F[0] == 0 && (op.F[1] == 0 || math.IsInf(float64(op.F[1]), 1))) {
				op.F[0], op.F[1] = float32(r.Pick(0, 0, 0, 10, 200)), float32(r.PickF(math.Inf(1), math.Inf(1), 100, 1000))
			}
			if (op.K == rec.KSetCReg || op.K == rec.KSetNReg) && op.Incr {
				sawIncr = true
				c.Count("incrementing_writes", 1)
			}
			add(op)
		case k < 7:
			cnt := r.Range(1, 70)
			sawIncr = true
			for i := 0; i < cnt; i++ {
				c.Count("incrementing_writes", 1)
				if r.Bool() {
					add(rec.Op{K: rec.KSetCReg, Incr: true, Col: anyColor(r)})
				} else {
					add(rec.Op{K: rec.KSetNReg, Incr: true, F: [6]float32{exactUnit(r)}})
				}
			}
		case k < 10 && !exact:
			q := &c19Call{kind: r.Intn(4), spread: generate.GradientSpread(r.Intn(4)), shape: generate.GradientShape(r.Intn(2))}
			c19GenGeometry(r, q, r.LogUniform(1, 100))
			ns := r.Pick(2, 2, 3, 5, 12, 58, 59, 0)
			q.stops = make([]generate.GradientStop, ns)
			off := 0.0
			for i := range q.stops {
				off += r.Uniform(0.01, 1/float64(ns+1))
				q.stops[i] = generate.GradientStop{Offset: math.Float32frombits(math.Float32bits(float32(off)) &^ 3), Color: gen.AnyColorModel(r)}
			}
			acts = append(acts, act7{helper: q})
			c.Count("helper_calls", 1)
			if sawIncr {
				c.Count("helper_after_increment", 1)
				interesting = true
			}
			// a path that uses the register the helper wrote
			add(rec.Op{K: rec.KStartPath, Adj: 0, F: [6]float32{coord(r), coord(r)}})
			add(gen.DrawOp(r, gen.NonArcVerbs[2+r.Intn(14)], &o))
			add(gen.DrawOp(r, gen.NonArcVerbs[2+r.Intn(14)], &o))
			add(rec.Op{K: rec.KClosePathEndPath})
		case k < 10 && exact:
			// an explicit gradient with exact numbers
			nst := r.Pick(2, 3, 4, 8)
			cb, nb := r.Intn(64), r.Intn(64)
			add(rec.Op{K: rec.KSetNSel, Sel: uint8(nb)})
			for i := 6; i >= 1; i-- {
				add(rec.Op{K: rec.KSetNReg, Adj: uint8(i), F: [6]float32{float32(r.Range(-16, 16)) / 64}})
			}
			for i := 0; i < nst; i++ {
				add(rec.Op{K: rec.KSetNReg, Incr: true, F: [6]float32{float32(i*64/nst+r.Intn(64/nst)) / 64}})
			}
			add(rec.Op{K: rec.KSetCSel, Sel: uint8(cb)})
			for i := 0; i < nst; i++ {
				add(rec.Op{K: rec.KSetCReg, Incr: true, Col: ivg.RGBAColor(gen.Premul(r))})
			}
			sawIncr = true
			sel := uint8((cb + nst + r.Intn(64-nst)) & 63)
			add(rec.Op{K: rec.KSetCSel, Sel: sel})
			adj := uint8(r.Intn(7))
			add(rec.Op{K: rec.KSetCReg, Adj: adj, Col: ivg.RGBAColor(gen.MakeGradientValue(cb, nb, r.Intn(2), r.Intn(4), nst))})
			add(rec.Op{K: rec.KStartPath, Adj: adj, F: [6]float32{coord(r), coord(r)}})
			add(gen.DrawOp(r, gen.DrawVerbs[r.Intn(len(gen.DrawVerbs))], &o))
			add(rec.Op{K: rec.KClosePathEndPath})
		case k < 11 && !exact:
			// SetPathData through the Generator (no arcs: discontinuous segment counts)
			s := fmt.Sprintf("M%d %d L%d %d h%d V%d q%d %d %d %d z", r.Range(-30, 30), r.Range(-30, 30), r.Range(-30, 30), r.Range(-30, 30), r.Range(-9, 9), r.Range(-30, 30), r.Range(-9, 9), r.Range(-9, 9), r.Range(-9, 9), r.Range(-9, 9))
			acts = append(acts, act7{path: s, adj: uint8(r.Intn(7))})
			c.Count("pathdata_calls", 1)
		default:
			add(rec.Op{K: rec.KStartPath, Adj: uint8(r.Intn(7)), F: [6]float32{coord(r), coord(r)}})
			verbs := gen.DrawVerbs
			if !exact {
				verbs = gen.NonArcVerbs
			}
			for m := r.Range(1, 6); m > 0; m-- {
				kk := verbs[r.Intn(len(verbs))]
				l := r.Pick(1, 1, 2, 17, 33)
				if r.Chance(1, 60) {
					l = r.Pick(255, 256, 257, 300) // around the widths of 8-bit counters
					c.Count("runs_of_255_or_more", 1)
				}
				for ; l > 0; l-- {
					add(gen.DrawOp(r, kk, &o))
				}
			}
			add(rec.Op{K: rec.KClosePathEndPath})
			if sawIncr {
				interesting = true
			}
		}
	}
	return
}

// c07Drive runs the history on dst; after is called after every step.
func c07Drive(dst ivg.Destination, acts []act7, after func(i int, err error)) {
	g := generate.Generator{}
	g.SetDestination(dst)
	for i := range acts {
		a := &acts[i]
		var err error
		switch {
		case a.op != nil:
			rec.Apply(dst, a.op)
		case a.helper != nil:
			err = a.helper.do(&g)
		default:
			err = g.SetPathData(a.path, a.adj)
		}
		if after != nil {
			after(i, err)
		}
	}
}

func c07Run(c *run.Ctx, idx uint64, exact bool) {
	r := c.Rng(idx)
	vb, pal, acts, interesting := c07History(c, r, exact)
	rect := image.Rect(0, 0, r.Range(1, 300), r.Range(1, 300)).Add(image.Pt(r.Range(-30, 40), r.Range(-30, 40)))
	useLogger := r.Chance(1, 12)
	h := uint64(0)
	for i := range acts {
		h = run.Hash64(h, run.HashString(acts[i].String()))
	}
	c.Eval(h, interesting)
	c.Count("histories", 1)
	c.Count("steps", int64(len(acts)))
	hist := func() []string {
		out := []string{}
		for i := range acts {
			if i >= 120 {
				break
			}
			out = append(out, acts[i].String())
		}
		return out
	}
	if c.WantSample() && interesting {
		c.Sample(map[string]interface{}{"family": map[bool]string{true: "exact", false: "helpers"}[exact], "viewBox": fmt.Sprint(vb), "rect": rect.String(), "history": hist()[:min(len(acts), 25)]})
	}
	desc := func(extra map[string]interface{}) interface{} {
		d := map[string]interface{}{"viewBox": fmt.Sprint(vb), "rect": rect.String(), "through_logger": useLogger, "history": hist()}
		for k, v := range extra {
			d[k] = v
		}
		return d
	}
	wrap := func(d ivg.Destination) ivg.Destination {
		if useLogger {
			return &ivg.DestinationLogger{Destination: d, Alt: idx%2 == 0}
		}
		return d
	}
	if useLogger {
		c.Count("through_logger", 1)
	}
	// A: direct
	rzA := &rec.Raster{}
	var zA render.Renderer
	// one time in four the directly driven Renderer is given its rasterizer and
	// rectangle only after Reset (the decoder always does it the other way round)
	lateRasterizer := (idx>>2)%4 == 1
	if !lateRasterizer {
		zA.SetRasterizer(rzA, rect)
	}
	type snap struct {
		cs, ns uint8
		err    error
	}
	snaps := make([]snap, len(acts))
	ok := c.Guard("direct pipeline", func() interface{} { return desc(nil) }, func() {
		// the direct pipeline is never wrapped: it is the reference the
		// logger-wrapped pipelines are compared with
		var dA ivg.Destination = &zA
		if idx%2 == 1 {
			// objects are reused: whatever an earlier graphic left behind,
			// Reset starts the sequence over
			zA.Reset(ivg.ViewBox{MinX: 1, MinY: 2, MaxX: 3, MaxY: 4}, pal)
			zA.SetCSel(5)
			zA.SetNSel(7)
			zA.SetNReg(0, true, 0.5)
			zA.SetLOD(3, 4)
		}
		dA.Reset(vb, pal)
		if lateRasterizer {
			zA.SetRasterizer(rzA, rect)
			c.Count("direct_renderer_given_its_rasterizer_after_reset", 1)
		}
		c07Drive(dA, acts, func(i int, err error) { snaps[i] = snap{dA.CSel(), dA.NSel(), err} })
	})
	if !ok {
		return
	}
	// B: encoder, with the online selector monitor
	var e encode.Encoder
	var bytesB []byte
	var encErr error
	violated := false
	ok = c.Guard("encoder pipeline", func() interface{} { return desc(nil) }, func() {
		dB := wrap(&e)
		if idx%2 == 1 {
			c.Count("reused_objects", 1)
			e.SetCSel(5)
			e.SetNSel(7)
			e.SetNReg(0, true, 0.5)
			e.SetLOD(3, 4)
			if idx%4 == 3 {
				e.StartPath(0, 1, 1) // left inside a path
			}
		}
		if idx%4 == 0 && vb == ivg.DefaultViewBox && pal == ivg.DefaultPalette {
			// the documented zero-value entry point: no Reset, default metadata implied
			c.Count("zero_value_encoder", 1)
		} else {
			dB.Reset(vb, pal)
		}
		if dB.CSel()&63 != 0 || dB.NSel()&63 != 0 {
			violated = true
			c.Violate("selectors-not-zero-after-reset", desc(map[string]interface{}{"encoder": []uint8{dB.CSel(), dB.NSel()}}))
		}
		e.HighResolutionCoordinates = !exact
		c07Drive(dB, acts, func(i int, err error) {
			if violated {
				return
			}
			c.Count("selector_comparisons", 1)
			if dB.CSel()&63 != snaps[i].cs&63 || dB.NSel()&63 != snaps[i].ns&63 {
				violated = true
				c.Violate("selectors-disagree", desc(map[string]interface{}{"step": i, "call": acts[i].String(), "encoder": []uint8{dB.CSel(), dB.NSel()}, "renderer": []uint8{snaps[i].cs, snaps[i].ns}}))
			}
			if (err == nil) != (snaps[i].err == nil) || (err != nil && err.Error() != snaps[i].err.Error()) {
				violated = true
				c.Violate("helper-outcome-depends-on-destination", desc(map[string]interface{}{"step": i, "call": acts[i].String(), "on_encoder": errStr(err), "on_renderer": errStr(snaps[i].err)}))
			}
			if err != nil {
				c.Count("helper_errors", 1)
			}
		})
		var b []byte
		b, encErr = e.Bytes()
		bytesB = append([]byte(nil), b...)
	})
	if !ok || violated {
		return
	}
	if encErr != nil {
		c.Violate("well-formed-history-rejected-by-encoder", desc(map[string]interface{}{"error": encErr.Error()}))
		return
	}
	// C: via bytes
	rzC := &rec.Raster{}
	var zC render.Renderer
	zC.SetRasterizer(rzC, rect)
	var derr error
	if !c.Guard("decode pipeline", func() interface{} { return hx(bytesB) }, func() {
		if idx%4 < 2 {
			derr = decode.Decode(wrap(&zC), bytesB)
		} else {
			derr = decode.Decode(&zC, bytesB)
		}
	}) {
		return
	}
	if derr != nil {
		c.Violate("encoder-output-rejected", desc(map[string]interface{}{"error": derr.Error(), "bytes": hx(bytesB)}))
		return
	}
	if exact && c.Replay {
		// diagnostic for replays: which decoded call is not bit-identical
		if dops, e2 := decodeRec(bytesB); e2 == nil {
			j := 1
			for i := range acts {
				if acts[i].op != nil && j < len(dops) {
					if !rec.Equal(*acts[i].op, dops[j]) && !(acts[i].op.K == rec.KSetCSel || acts[i].op.K == rec.KSetNSel) {
						fmt.Fprintf(run.Out, "  decoded call %d differs: written %s, decoded %s\n", j, acts[i].op.String(), dops[j].String())
					}
					j++
				}
			}
		}
	}
	// offline comparison of the two rasterizer logs
	a, b := rzA.Calls, rzC.Calls
	fail := func(sig string, i int, extra map[string]interface{}) {
		d := map[string]interface{}{"call_index": i, "bytes": hx(bytesB)}
		if i >= 0 && i < len(a) {
			d["direct"] = a[i].String()
		}
		if i >= 0 && i < len(b) {
			d["via_bytes"] = b[i].String()
		}
		for k, v := range extra {
			d[k] = v
		}
		c.Violate(sig, desc(d))
	}
	nmin := len(a)
	if len(b) < nmin {
		nmin = len(b)
	}
	stepsInPath := 0
	for i := 0; i < nmin; i++ {
		x, y := &a[i], &b[i]
		if x.K != y.K {
			fail("raster-call-sequence", i, nil)
			return
		}
		c.Count("raster_calls_compared", 1)
		if x.K == rec.RReset {
			stepsInPath = 0
		}
		stepsInPath++
		if x.K == rec.RDraw {
			c.Count("paths_drawn", 1)
			if x.R != y.R || x.SP != y.SP {
				fail("draw-rectangle", i, nil)
				return
			}
			p, q := x.Paint, y.Paint
			if p.Kind != q.Kind {
				fail("paint-kind", i, map[string]interface{}{"direct_paint": p.Type, "via_bytes_paint": q.Type})
				return
			}
			if p.Kind == 0 {
				if p.Uniform != q.Uniform {
					fail("flat-colour", i, nil)
					return
				}
				continue
			}
			c.Count("gradient_paints", 1)
			if p.Shape != q.Shape || p.Spread != q.Spread || len(p.Colors) != len(q.Colors) {
				fail("gradient-shape-spread-stops", i, nil)
				return
			}
			for k := range p.Colors {
				if p.Colors[k] != q.Colors[k] || (exact && p.Offsets[k] != q.Offsets[k]) || math.Abs(p.Offsets[k]-q.Offsets[k]) > 1e-6 {
					fail("gradient-stop", i, map[string]interface{}{"stop": k})
					return
				}
			}
			for k := 0; k < 6; k++ {
				if exact {
					if p.M[k] != q.M[k] {
						fail("gradient-transform-not-identical", i, map[string]interface{}{"term": k})
						return
					}
					continue
				}
				row := k / 3 * 3
				kap := math.Abs(p.M[row])*float64(rect.Dx()) + math.Abs(p.M[row+1])*float64(rect.Dy()) + math.Abs(p.M[row+2]) +
					math.Abs(p.M[row])*float64(rect.Dx())*math.Abs(float64(vb.MinX))/float64(vb.MaxX-vb.MinX) + math.Abs(p.M[row+1])*float64(rect.Dy())*math.Abs(float64(vb.MinY))/float64(vb.MaxY-vb.MinY)
				scale := kap
				if k%3 == 0 {
					scale = kap / float64(rect.Dx())
				} else if k%3 == 1 {
					scale = kap / float64(rect.Dy())
				}
				if math.Abs(p.M[k]-q.M[k]) > c19Tol*scale {
					fail("gradient-transform", i, map[string]interface{}{"term": k, "direct": p.M[k], "via_bytes": q.M[k], "tolerance": c19Tol * scale})
					return
				}
			}
			continue
		}
		for k := 0; k < 6; k++ {
			if exact {
				if !rec.SameBits(x.A[k], y.A[k]) {
					fail("raster-coordinates-not-identical", i, nil)
					return
				}
				continue
			}
			mag := math.Abs(float64(x.A[k])) + math.Abs(float64(x.PenX)) + math.Abs(float64(x.PenY)) + float64(rect.Dx()+rect.Dy()) +
				(math.Abs(float64(vb.MinX))+math.Abs(float64(vb.MinY)))*float64(rect.Dx()+rect.Dy())/float64(math.Min(float64(vb.MaxX-vb.MinX), float64(vb.MaxY-vb.MinY)))
			if d := math.Abs(float64(x.A[k]) - float64(y.A[k])); d > math.Ldexp(1, -19)*mag*float64(stepsInPath+1) {
				fail("raster-coordinates", i, map[string]interface{}{"coordinate": k, "difference": d, "steps_in_path": stepsInPath})
				return
			}
		}
	}
	if len(a) != len(b) {
		fail("raster-call-count", nmin, map[string]interface{}{"direct_calls": len(a), "via_bytes_calls": len(b)})
	}
	_ = strings.Join
}

func min(a, b int) int {
	if a < b {
		return a
	}
	return b
}
