package props

import (
	"fmt"
	"image"
	"image/color"
	"math"

	"github.com/reactivego/ivg"
	"github.com/reactivego/ivg/decode"
	"github.com/reactivego/ivg/encode"
	"github.com/reactivego/ivg/generate"
	"github.com/reactivego/ivg/render"

	"ivgverif/internal/gen"
	"ivgverif/internal/rec"
	"ivgverif/internal/ref"
	"ivgverif/internal/run"
)

// C19 — generator gradient helpers realise the requested geometry and
// registers. Monitors: the calls a helper makes are recorded at the
// Destination boundary and replayed through the reference machine; the
// geometry is read back from the paint a real Renderer hands to Draw.

const c19Tol = 8.0 / (1 << 21)

func init() {
	run.Register(&run.Prop{
		ID:    "C19",
		Title: "Generator gradient helpers realise the requested geometry and registers",
		Rule:  "every case is one helper call (linear, circular, elliptical or general form) with a PRNG geometry (magnitudes 1e-3..1e4), spread, stop list (length 0..300, many colour models), issued from a prior selector state reached by plain writes and by 1..80 increments, on an Encoder or a Renderer; non-trivial = the call is accepted with at least 2 stops, or rejected; distinctness by hash of arguments and prior state",
		Assumptions: []string{
			"reference machine ref.VM; geometry tolerance 8*2^-21*kappa (kappa = sum of term magnitudes; worst seen 4e-7*kappa via bytes)",
			"the stop-range base is learnt from the calls of an accepted probe call; the capacity (58) and the two errors are the documented ones",
		},
		Subs: []*run.Sub{
			{Name: "registers", N: func(t string) uint64 {
				if t == "thorough" {
					return 16_000_000
				}
				return 400_000
			}, Run: c19Registers,
				Rule: "register-level oracle: gradient value, stop registers, matrix registers, untouched other registers, selectors restored, errors before any write",
				Min: map[string]int64{"accepted": 20000, "rejected_too_many": 5000, "rejected_csel_in_range": 2000, "on_encoder": 20000, "destination_used_before": 50000, "same_gradient_written_before_reset": 50000, "on_renderer": 20000, "prior_increments": 20000,
					"stops_58": 200, "stops_256_to_314": 1000, "renderer_csel_unreduced": 1000}},
			{Name: "geometry", N: func(t string) uint64 {
				if t == "thorough" {
					return 8_000_000
				}
				return 200_000
			}, Run: c19Geometry,
				Rule: "rendered oracle: offsets at the characteristic points of the requested geometry, stops/spread/shape of the rendered paint; direct and via bytes",
				Min:  map[string]int64{"linear": 5000, "circular": 5000, "elliptical": 5000, "general": 5000, "filled_through_a_selector_adjustment": 5000, "via_bytes": 10000, "direct": 10000, "rectangle_set_after_reset": 10000}},
		},
	})
}

type c19Call struct {
	kind   int // 0 linear, 1 circular, 2 elliptical, 3 general
	p      [6]float32
	shape  generate.GradientShape // general form
	spread generate.GradientSpread
	stops  []generate.GradientStop
}

func (q *c19Call) do(g *generate.Generator) error {
	switch q.kind {
	case 0:
		return g.SetLinearGradient(q.p[0], q.p[1], q.p[2], q.p[3], q.spread, q.stops)
	case 1:
		return g.SetCircularGradient(q.p[0], q.p[1], q.p[2], q.p[3], q.spread, q.stops)
	case 2:
		return g.SetEllipticalGradient(q.p[0], q.p[1], q.p[2], q.p[3], q.p[4], q.p[5], q.spread, q.stops)
	}
	return g.SetGradient(q.shape, q.spread, q.stops, generate.Aff3(q.p))
}

func (q *c19Call) desc() map[string]interface{} {
	d := map[string]interface{}{"helper": []string{"SetLinearGradient", "SetCircularGradient", "SetEllipticalGradient", "SetGradient"}[q.kind],
		"args": fmt.Sprint(q.p), "spread": int(q.spread), "stops": len(q.stops)}
	if q.kind == 3 {
		d["shape"] = int(q.shape)
	}
	if len(q.stops) > 0 && len(q.stops) <= 6 {
		d["stop_list"] = fmt.Sprint(q.stops)
	}
	return d
}

func (q *c19Call) wantShape() int {
	switch q.kind {
	case 0:
		return 0
	case 3:
		return int(q.shape)
	}
	return 1
}

func c19GenGeometry(r *run.Rng, q *c19Call, mag float64) {
	v := func() float32 { return float32(r.Uniform(-1, 1) * mag * r.LogUniform(0.1, 10)) }
	for i := range q.p {
		q.p[i] = v()
	}
	switch q.kind {
	case 0:
		for q.p[0] == q.p[2] && q.p[1] == q.p[3] {
			q.p[2] = v()
		}
	case 1:
		for q.p[2] == 0 && q.p[3] == 0 {
			q.p[2] = v()
		}
	case 2:
		// non-degenerate axes: second axis roughly perpendicular
		s := float32(r.Uniform(0.5, 1.5))
		q.p[4], q.p[5] = -q.p[3]*s, q.p[2]*s
		if r.Bool() {
			q.p[4], q.p[5] = q.p[4]+q.p[2]*0.3, q.p[5]+q.p[3]*0.3 // sheared
		}
		for q.p[2]*q.p[5]-q.p[4]*q.p[3] == 0 {
			q.p[2], q.p[5] = v(), v()
		}
	default:
		for i := range q.p {
			q.p[i] = float32(r.Uniform(-2, 2) / mag)
		}
		q.p[2], q.p[5] = float32(r.Uniform(-2, 2)), float32(r.Uniform(-2, 2))
	}
}

func c19ValidStops(r *run.Rng, n int) []generate.GradientStop {
	stops := make([]generate.GradientStop, n)
	off := r.Uniform(0, 0.2)
	for i := range stops {
		stops[i] = generate.GradientStop{Offset: float32(off), Color: gen.Premul(r)}
		off += r.Uniform(0.002, (1-off)/float64(n-i+1))
	}
	return stops
}

// c19Prior brings dst and the machine into a PRNG selector/register state.
func c19Prior(c *run.Ctx, r *run.Rng, d *rec.Dest) {
	for n := r.Intn(6); n > 0; n-- {
		switch r.Intn(5) {
		case 0:
			d.SetCSel(uint8(r.Intn(64)))
		case 1:
			d.SetNSel(uint8(r.Intn(64)))
		case 2:
			d.SetCSel(uint8(r.Pick(9, 10, 11, 12, 63, 0, 5, 20, 40, 60, 61, 62)))
		default:
			cnt := r.Range(1, 80)
			c.Count("prior_increments", 1)
			for i := 0; i < cnt; i++ {
				if r.Bool() {
					d.SetCReg(0, true, ivg.RGBAColor(gen.Premul(r)))
				} else {
					d.SetNReg(0, true, float32(r.F64()))
				}
			}
		}
	}
}

// c19Base learns the stop-range base of the helpers from an accepted probe
// call on a bare recorder.
func c19Base() (int, bool) {
	for _, sel := range []uint8{0, 32} {
		d := &rec.Dest{}
		d.SetCSel(sel)
		g := generate.Generator{}
		g.SetDestination(d)
		if err := g.SetLinearGradient(0, 0, 1, 0, generate.GradientSpreadPad, []generate.GradientStop{{Offset: 0, Color: color.Black}, {Offset: 1, Color: color.White}}); err != nil {
			continue
		}
		for i := range d.Ops {
			if d.Ops[i].K == rec.KSetCReg {
				s := rec.Spec(d.Ops[i].Col)
				if s.Typ == ivg.ColorTypeRGBA && ref.IsGradientValue(s.RGBA) {
					return int(s.RGBA.G & 0x3f), true
				}
			}
		}
	}
	return 0, false
}

func c19Registers(c *run.Ctx, idx uint64) {
	r := c.Rng(idx)
	q := &c19Call{kind: r.Intn(4), spread: generate.GradientSpread(r.Intn(4)), shape: generate.GradientShape(r.Intn(2))}
	c19GenGeometry(r, q, r.LogUniform(1e-3, 1e4))
	n := r.Pick(0, 1, 2, 2, 3, 5, 10, 30, 57, 58, 59, 60, 64, 100, 255, 256, 257, 270, 300, 314, 315, r.Range(0, 300), r.Range(0, 70))
	// the stop list is the caller's: a slice with spare capacity, used again afterwards
	spare := r.Pick(0, 0, 1, 5)
	q.stops = make([]generate.GradientStop, n, n+spare)
	for i := range q.stops {
		q.stops[i] = generate.GradientStop{Offset: float32(r.Uniform(-0.2, 1.2)), Color: gen.AnyColorModel(r)}
	}
	stopsBefore := append([]generate.GradientStop(nil), q.stops[:cap(q.stops)]...)
	// destination under test behind a recorder
	var real ivg.Destination
	onRenderer := r.Bool()
	var enc encode.Encoder
	var ren render.Renderer
	rz := &rec.Raster{}
	pal := gen.Palette(r)
	used := r.Bool() // the destination has a past (another graphic, selectors moved, possibly abandoned mid-path)
	if used {
		c.Count("destination_used_before", 1)
	}
	if onRenderer {
		ren.SetRasterizer(rz, image.Rect(0, 0, 16, 16))
		if used {
			dirtyDestination(r, &ren, pal)
			rz.ResetLog()
		}
		ren.Reset(ivg.DefaultViewBox, pal)
		real = &ren
		c.Count("on_renderer", 1)
	} else {
		if used {
			dirtyDestination(r, &enc, pal)
		}
		enc.Reset(ivg.DefaultViewBox, pal)
		real = &enc
		c.Count("on_encoder", 1)
	}
	d := &rec.Dest{Tee: real}
	g := generate.Generator{}
	g.SetDestination(d)
	if r.Chance(1, 4) {
		// The same Generator has already written this very gradient, after the
		// same selector history, into the previous graphic on this destination: a
		// helper that remembers what it wrote last must not skip the writes now.
		c.Count("same_gradient_written_before_reset", 1)
		if !c.Guard("helper (previous graphic)", func() interface{} { return q.desc() }, func() {
			c19Prior(c, r.Clone(), d)
			q.do(&g)
			d.Reset(ivg.DefaultViewBox, pal)
		}) {
			return
		}
		d.Ops = d.Ops[:0]
		rz.ResetLog()
	}
	c19Prior(c, r, d)
	vm := ref.NewVM(ivg.DefaultViewBox, pal)
	for i := range d.Ops {
		vm.Step(&d.Ops[i])
	}
	before := *vm
	nPrior := len(d.Ops)
	csel0, nsel0 := real.CSel(), real.NSel()
	if csel0 > 63 {
		c.Count("renderer_csel_unreduced", 1)
	}
	if int(csel0&63) != vm.CSel || int(nsel0&63) != vm.NSel {
		c.Violate("selector-readback-before-call", map[string]interface{}{"destination": fmt.Sprintf("%T", real), "csel": csel0, "nsel": nsel0, "machine": []int{vm.CSel, vm.NSel}})
		return
	}
	if r.Bool() {
		// the Generator's path-data transform is configured: gradient geometry is
		// given in viewBox coordinates and must not be affected
		g.SetTransform(generate.Scale(2, -3), generate.Translate(5, 6))
		c.Count("generator_with_path_transform", 1)
	}
	var err error
	desc := func() map[string]interface{} {
		dd := q.desc()
		dd["destination"] = fmt.Sprintf("%T", real)
		dd["csel_before"], dd["nsel_before"] = csel0, nsel0
		return dd
	}
	if !c.Guard("helper", func() interface{} { return desc() }, func() { err = q.do(&g) }) {
		return
	}
	h := run.Hash64(uint64(q.kind)<<32|uint64(n), uint64(math.Float32bits(q.p[0]))<<32|uint64(math.Float32bits(q.p[3])), uint64(csel0)<<8|uint64(nsel0), uint64(nPrior))
	c.Eval(h, err != nil || n >= 2)
	if c.WantSample() {
		c.Sample(desc())
	}
	calls := d.Ops[nPrior:]
	fail := func(sig string, extra map[string]interface{}) {
		dd := desc()
		dd["error"] = errStr(err)
		dd["recorded_calls"] = rec.Strings(clip(calls, 30))
		for k, v := range extra {
			dd[k] = v
		}
		c.Violate(sig, dd)
	}
	for i, st := range q.stops[:cap(q.stops)] {
		if st != stopsBefore[i] {
			fail("caller-stop-list-modified", map[string]interface{}{"index": i, "length": n, "capacity": cap(q.stops)})
			return
		}
	}
	base, baseOK := c19Base()
	if !baseOK {
		c.Violate("probe-call-rejected", nil)
		return
	}
	inRange := func(sel, n int) bool {
		for i := 0; i < n; i++ {
			if (base+i)&63 == sel&63 {
				return true
			}
		}
		return false
	}
	// selectors as reported by the destination itself
	if cs, ns := real.CSel(), real.NSel(); cs&63 != csel0&63 || ns&63 != nsel0&63 {
		fail("selectors-not-restored", map[string]interface{}{"csel_after": cs, "nsel_after": ns})
		return
	}
	if n > 58 {
		if n >= 256 && n <= 314 {
			c.Count("stops_256_to_314", 1)
		}
		if err != generate.TooManyGradientStops {
			fail("too-many-stops-not-rejected", nil)
			return
		}
	}
	if err != nil {
		if len(calls) != 0 {
			fail("calls-made-before-rejecting", nil)
			return
		}
		switch err {
		case generate.TooManyGradientStops:
			c.Count("rejected_too_many", 1)
			if n <= 58 {
				fail("unjustified-too-many-stops", nil)
			}
		case generate.CSELUsedAsBothGradientAndStop:
			c.Count("rejected_csel_in_range", 1)
			if !inRange(int(csel0), n) {
				fail("unjustified-csel-rejection", map[string]interface{}{"stop_base": base})
			}
		default:
			fail("undocumented-error", nil)
		}
		return
	}
	c.Count("accepted", 1)
	if n == 58 {
		c.Count("stops_58", 1)
	}
	if inRange(int(csel0), n) {
		fail("csel-inside-stop-range-accepted", map[string]interface{}{"stop_base": base})
		return
	}
	// replay the helper's calls in the reference machine
	for i := range calls {
		if calls[i].K.IsDrawing() || calls[i].K == rec.KStartPath || calls[i].K == rec.KReset || calls[i].K == rec.KSetLOD {
			fail("unexpected-call", map[string]interface{}{"call": calls[i].String()})
			return
		}
		vm.Step(&calls[i])
	}
	if vm.CSel != before.CSel || vm.NSel != before.NSel {
		fail("selectors-not-restored", map[string]interface{}{"machine_after": []int{vm.CSel, vm.NSel}, "machine_before": []int{before.CSel, before.NSel}})
		return
	}
	gv := vm.CReg[vm.CSel]
	if !ref.IsGradientValue(gv) {
		fail("no-gradient-value-at-CREG[CSEL]", map[string]interface{}{"register": fmt.Sprint(gv)})
		return
	}
	nst, cb, nb := int(gv.R&0x3f), int(gv.G&0x3f), int(gv.B&0x3f)
	shape, spread := int(gv.B>>6)&1, int(gv.G>>6)
	if nst != n || shape != q.wantShape() || spread != int(q.spread) || gv.R&0xc0 != 0 {
		fail("gradient-value-fields", map[string]interface{}{"register": fmt.Sprint(gv), "nstops": nst, "shape": shape, "spread": spread})
		return
	}
	touchedC := map[int]bool{vm.CSel: true}
	touchedN := map[int]bool{}
	for i := 0; i < n; i++ {
		ci, ni := (cb+i)&63, (nb+i)&63
		touchedC[ci], touchedN[ni] = true, true
		if want := gen.To8(q.stops[i].Color); vm.CReg[ci] != want {
			fail("stop-colour-register", map[string]interface{}{"stop": i, "register": ci, "got": fmt.Sprint(vm.CReg[ci]), "want": fmt.Sprint(want)})
			return
		}
		if !rec.SameBits(vm.NReg[ni], q.stops[i].Offset) {
			fail("stop-offset-register", map[string]interface{}{"stop": i, "register": ni, "got": rec.FB(vm.NReg[ni]), "want": rec.FB(q.stops[i].Offset)})
			return
		}
	}
	for i := 1; i <= 6; i++ {
		touchedN[(nb-i)&63] = true
	}
	if q.kind == 3 {
		for i := 0; i < 6; i++ {
			if got := vm.NReg[(nb-6+i)&63]; !rec.SameBits(got, q.p[i]) {
				fail("matrix-register", map[string]interface{}{"term": i, "got": rec.FB(got), "want": rec.FB(q.p[i])})
				return
			}
		}
	}
	for i := 0; i < 64; i++ {
		if !touchedC[i] && vm.CReg[i] != before.CReg[i] {
			fail("unrelated-colour-register-written", map[string]interface{}{"register": i, "nstops": n, "cbase": cb})
			return
		}
		if !touchedN[i] && !rec.SameBits(vm.NReg[i], before.NReg[i]) {
			fail("unrelated-number-register-written", map[string]interface{}{"register": i, "nstops": n, "nbase": nb})
			return
		}
	}
	if vm.LOD0 != before.LOD0 || vm.LOD1 != before.LOD1 {
		fail("lod-changed", nil)
	}
}

// c19Geometry renders a path filled with the helper's gradient and reads the
// geometry back from the paint.
func c19Geometry(c *run.Ctx, idx uint64) {
	r := c.Rng(idx)
	q := &c19Call{kind: r.Intn(4), spread: generate.GradientSpread(r.Intn(4)), shape: generate.GradientShape(r.Intn(2))}
	mag := r.LogUniform(1e-3, 1e4)
	c19GenGeometry(r, q, mag)
	q.stops = c19ValidStops(r, r.Pick(2, 2, 3, 5, 20, 58))
	vb := ivg.ViewBox{MinX: float32(-mag * r.Uniform(0.5, 1.5)), MinY: float32(-mag * r.Uniform(0.5, 1.5)), MaxX: float32(mag * r.Uniform(0.5, 1.5)), MaxY: float32(mag * r.Uniform(0.5, 1.5))}
	rect := image.Rect(0, 0, r.Range(1, 300), r.Range(1, 300)).Add(image.Pt(r.Range(-30, 50), r.Range(-30, 50)))
	c.Count([]string{"linear", "circular", "elliptical", "general"}[q.kind], 1)
	// the path is filled from the register the helper wrote, named either by
	// CSEL itself or by a moved CSEL and a selector adjustment of 1..6
	fillAdj := uint8(r.Pick(0, 0, 0, 1, 2, 3, 4, 5, 6))
	if fillAdj != 0 {
		c.Count("filled_through_a_selector_adjustment", 1)
	}
	// One case in four calls the helper twice: first with the same geometry,
	// spread, shape and number of stops but other stop colours and offsets (and a
	// path filled with that), then with the stops that are judged. "The stops
	// given are the ones rendered" - those of the last call.
	twice := r.Chance(1, 4)
	stops0 := c19ValidStops(r, len(q.stops))
	if twice {
		c.Count("helper_called_twice_with_other_stops", 1)
	}
	prog := func(dst ivg.Destination) error {
		d := &rec.Dest{Tee: dst}
		c19Prior(c, r.Clone(), d)
		// leave CSEL outside the helper's stop range (the six registers
		// below the base are free even with 58 stops)
		base, _ := c19Base()
		sel := uint8((base - 1 - r.Clone().Intn(6)) & 63)
		d.SetCSel(sel)
		g := generate.Generator{}
		g.SetDestination(d)
		if idx%2 == 1 {
			g.SetTransform(generate.Scale(2, -3), generate.Translate(5, 6)) // for path data only
		}
		if twice {
			q0 := *q
			q0.stops = stops0
			if err := q0.do(&g); err != nil {
				return err
			}
			if fillAdj != 0 {
				dst.SetCSel((sel + fillAdj) & 63)
			}
			dst.StartPath(fillAdj, vb.MinX, vb.MinY)
			dst.AbsLineTo(vb.MaxX, vb.MaxY)
			dst.AbsLineTo(vb.MinX, vb.MaxY)
			dst.ClosePathEndPath()
			dst.SetCSel(sel)
		}
		err := q.do(&g)
		if fillAdj != 0 {
			dst.SetCSel((sel + fillAdj) & 63)
		}
		dst.StartPath(fillAdj, vb.MinX, vb.MinY)
		dst.AbsLineTo(vb.MaxX, vb.MinY)
		dst.AbsLineTo(vb.MaxX, vb.MaxY)
		dst.ClosePathEndPath()
		return err
	}
	h := run.Hash64(uint64(q.kind), uint64(math.Float32bits(q.p[0]))<<32|uint64(math.Float32bits(q.p[3])), uint64(math.Float32bits(vb.MinX)), uint64(rect.Dx())<<16|uint64(rect.Dy()))
	c.Eval(h, true)
	if c.WantSample() {
		dd := q.desc()
		dd["viewBox"], dd["rect"] = fmt.Sprint(vb), rect.String()
		c.Sample(dd)
	}
	for via := 0; via < 2; via++ {
		rz := &rec.Raster{}
		var z render.Renderer
		z.SetRasterizer(rz, rect)
		var err error
		usedVB := vb
		ok := c.Guard("render", func() interface{} { return q.desc() }, func() {
			used := idx%3 == 0 // every third case: destinations with a past
			if via == 0 {
				if used {
					dirtyDestination(c.Rng(idx^0x5eed), &z, ivg.DefaultPalette)
					rz.ResetLog()
				}
				if idx%4 == 1 {
					// Reset happens while the Renderer still targets a rectangle of another size;
					// the rectangle the graphic is drawn into is set afterwards
					z.SetRasterizer(rz, image.Rect(0, 0, rect.Dx()*2+1, rect.Dy()+3))
					z.Reset(vb, ivg.DefaultPalette)
					z.SetRasterizer(rz, rect)
					c.Count("rectangle_set_after_reset", 1)
				} else {
					z.Reset(vb, ivg.DefaultPalette)
				}
				err = prog(&z)
				c.Count("direct", 1)
			} else {
				var e encode.Encoder
				if used {
					dirtyDestination(c.Rng(idx^0x5eed), &e, ivg.DefaultPalette)
					dirtyDestination(c.Rng(idx^0x5eed), &z, ivg.DefaultPalette)
					rz.ResetLog()
				}
				e.Reset(vb, ivg.DefaultPalette)
				e.HighResolutionCoordinates = true
				err = prog(&e)
				b, berr := e.Bytes()
				if berr != nil {
					err = berr
					return
				}
				bb := append([]byte(nil), b...)
				if m, me := ref.ParseMeta(bb); me == nil {
					usedVB = m.ViewBox
				}
				if derr := decode.Decode(&z, bb); derr != nil {
					err = derr
				}
				c.Count("via_bytes", 1)
			}
		})
		if !ok {
			return
		}
		fail := func(sig string, extra map[string]interface{}) {
			dd := q.desc()
			dd["viewBox"], dd["rect"], dd["pipeline"] = fmt.Sprint(vb), rect.String(), []string{"direct", "via bytes"}[via]
			for k, v := range extra {
				dd[k] = v
			}
			c.Violate(sig, dd)
		}
		if err != nil {
			fail("valid-call-rejected", map[string]interface{}{"error": err.Error()})
			return
		}
		var p *rec.Paint
		for i := range rz.Calls {
			if rz.Calls[i].K == rec.RDraw {
				p = rz.Calls[i].Paint
				// the paint's pixel space starts at the rectangle's corner: the geometry
				// judged below is where the gradient lands only if Draw aligns them so
				if rz.Calls[i].SP != (image.Point{}) || rz.Calls[i].R != rect {
					fail("gradient-drawn-misaligned-with-the-rectangle", map[string]interface{}{"draw": rz.Calls[i].String()})
					return
				}
			}
		}
		if p == nil || p.Kind != 1 {
			fail("gradient-not-rendered", map[string]interface{}{"raster_calls": rec.RStrings(clipR(rz.Calls, 6))})
			return
		}
		if p.Shape != q.wantShape() || p.Spread != int(q.spread) || len(p.Colors) != len(q.stops) {
			fail("rendered-shape-spread-or-stop-count", map[string]interface{}{"shape": p.Shape, "spread": p.Spread, "stops": len(p.Colors)})
			return
		}
		for i, s := range q.stops {
			if p.Colors[i] != gen.To8(s.Color) || (via == 0 && p.Offsets[i] != float64(s.Offset)) || math.Abs(p.Offsets[i]-float64(s.Offset)) > 1e-6 {
				fail("rendered-stop", map[string]interface{}{"stop": i, "colour": fmt.Sprint(p.Colors[i]), "offset": p.Offsets[i], "want_colour": fmt.Sprint(gen.To8(s.Color)), "want_offset": s.Offset})
				return
			}
		}
		// geometry: offset at a viewBox point through the rendered transform
		sx := float64(rect.Dx()) / (float64(usedVB.MaxX) - float64(usedVB.MinX))
		sy := float64(rect.Dy()) / (float64(usedVB.MaxY) - float64(usedVB.MinY))
		off := func(x, y float64) (gx, gy, kap float64) {
			px, py := sx*(x-float64(usedVB.MinX)), sy*(y-float64(usedVB.MinY))
			gx = p.M[0]*px + p.M[1]*py + p.M[2]
			gy = p.M[3]*px + p.M[4]*py + p.M[5]
			kap = math.Abs(p.M[0]*px) + math.Abs(p.M[1]*py) + math.Abs(p.M[2]) + math.Abs(p.M[3]*px) + math.Abs(p.M[4]*py) + math.Abs(p.M[5]) +
				math.Abs(p.M[0])*sx*math.Abs(float64(usedVB.MinX)) + math.Abs(p.M[1])*sy*math.Abs(float64(usedVB.MinY)) +
				math.Abs(p.M[3])*sx*math.Abs(float64(usedVB.MinX)) + math.Abs(p.M[4])*sy*math.Abs(float64(usedVB.MinY)) + 1
			return
		}
		chk := func(what string, val, want, kap float64) bool {
			e := math.Abs(val-want) / kap
			c.MaxF("worst_error_over_kappa_"+[]string{"direct", "via_bytes"}[via], math.Min(e, 1))
			if !(e <= c19Tol) {
				fail("geometry/"+what, map[string]interface{}{"offset": val, "want": want, "kappa": kap, "rendered_matrix": fmt.Sprint(p.M)})
				return false
			}
			return true
		}
		f := func(i int) float64 { return float64(q.p[i]) }
		switch q.kind {
		case 0:
			gx, _, k := off(f(0), f(1))
			if !chk("linear-offset-0-at-first-point", gx, 0, k) {
				return
			}
			gx, _, k = off(f(2), f(3))
			if !chk("linear-offset-1-at-second-point", gx, 1, k) {
				return
			}
			dx, dy := f(2)-f(0), f(3)-f(1)
			gx, _, k = off(f(0)-dy, f(1)+dx)
			if !chk("linear-constant-along-perpendicular", gx, 0, k) {
				return
			}
			gx, _, k = off(f(2)+2*dy, f(3)-2*dx)
			if !chk("linear-constant-along-perpendicular", gx, 1, k) {
				return
			}
		case 1:
			gx, gy, k := off(f(0), f(1))
			if !chk("circular-0-at-centre", math.Hypot(gx, gy), 0, k) {
				return
			}
			gx, gy, k = off(f(0)+f(2), f(1)+f(3))
			if !chk("circular-1-at-radius-vector", math.Hypot(gx, gy), 1, k) {
				return
			}
			gx, gy, k = off(f(0)-f(3), f(1)+f(2))
			if !chk("circular-1-on-the-circle", math.Hypot(gx, gy), 1, k) {
				return
			}
			gx, gy, k = off(f(0)-f(2), f(1)-f(3))
			if !chk("circular-1-on-the-circle", math.Hypot(gx, gy), 1, k) {
				return
			}
		case 2:
			gx, gy, k := off(f(0), f(1))
			if !chk("elliptical-0-at-centre", math.Hypot(gx, gy), 0, k) {
				return
			}
			gx, gy, k = off(f(0)+f(2), f(1)+f(3))
			if !chk("elliptical-1-at-first-axis", math.Hypot(gx, gy), 1, k) {
				return
			}
			gx, gy, k = off(f(0)+f(4), f(1)+f(5))
			if !chk("elliptical-1-at-second-axis", math.Hypot(gx, gy), 1, k) {
				return
			}
			// a point between the axes: (r+s)/sqrt2 lies on the ellipse too
			gx, gy, k = off(f(0)+(f(2)+f(4))/math.Sqrt2, f(1)+(f(3)+f(5))/math.Sqrt2)
			if !chk("elliptical-1-between-axes", math.Hypot(gx, gy), 1, k) {
				return
			}
		default:
			// the given matrix, composed with the pixel map, at three points
			for _, pt := range [][2]float64{{float64(vb.MinX), float64(vb.MinY)}, {float64(vb.MaxX), float64(vb.MinY)}, {0.3 * float64(vb.MaxX), float64(vb.MaxY)}} {
				gx, gy, k := off(pt[0], pt[1])
				wx := f(0)*pt[0] + f(1)*pt[1] + f(2)
				wy := f(3)*pt[0] + f(4)*pt[1] + f(5)
				if !chk("general-matrix-x", gx, wx, k+math.Abs(f(0)*pt[0])+math.Abs(f(1)*pt[1])) || !chk("general-matrix-y", gy, wy, k+math.Abs(f(3)*pt[0])+math.Abs(f(4)*pt[1])) {
					return
				}
			}
		}
	}
}
