package props

import (
	"bytes"
	"encoding/hex"
	"fmt"
	"image/color"
	"math"
	"os"
	"os/exec"
	"path/filepath"
	"regexp"
	"strconv"
	"strings"

	"github.com/reactivego/ivg"
	"github.com/reactivego/ivg/decode"

	"ivgverif/internal/corpus"
	"ivgverif/internal/gen"
	"ivgverif/internal/rec"
	"ivgverif/internal/ref"
	"ivgverif/internal/run"
)

// C11 — the disassembly is a faithful, byte-complete listing of what
// decodes. Monitor: the text returned by Disassemble is parsed back and
// compared with the calls the real decoder delivers for the same input.

func init() {
	big := func(q, t uint64) func(string) uint64 {
		return func(tier string) uint64 {
			if tier == "thorough" {
				return t
			}
			return q
		}
	}
	run.Register(&run.Prop{
		ID:    "C11",
		Title: "The disassembly is a faithful, byte-complete listing of what decodes",
		Rule:  "every case is one byte string given to Disassemble and to Decode; non-trivial = accepted by the decoder with at least one instruction, so that the listing part is judged line by line; distinctness by hash of the bytes",
		Assumptions: []string{
			"line formats as pinned by the repository's golden .disassembly files",
			"a printed %g/%+g float32 identifies the value bit-exactly (shortest round-trip formatting); NaN payloads are not printed and not compared",
		},
		Subs: []*run.Sub{
			{Name: "structured", N: big(120_000, 6_000_000), Run: c11Structured,
				Rule: "hand-assembled streams over every opcode, operand form, gradient-encoding colours and metadata variants (valid and invalid)",
				Min:  map[string]int64{"accepted": 20000, "rejected": 5000, "lines_checked": 500000, "gradient_colors": 100, "nonsensical_colors": 100, "blend_colors": 1000, "implicit_lines": 10000, "palette_lines": 1000, "listings_held_across_a_later_call": 10000}},
			{Name: "corpus", N: big(120_000, 5_000_000), Run: c11Corpus,
				Rule: "corpus files intact and mutated",
				Min:  map[string]int64{"accepted": 20000, "rejected": 5000}},
			{Name: "opcodes", N: func(string) uint64 { return 512 }, Run: c11Opcodes,
				Rule: "every opcode byte in both modes with several operand draws (exhaustive over opcodes)",
				Min:  map[string]int64{"accepted": 2000}},
			{Name: "disivg-binary", N: func(string) uint64 { return 1 }, Run: c11Binary, Serial: true,
				Rule: "cmd/disivg built from the repository and executed on files: stdout must equal the in-process listing, exit status non-zero exactly when Disassemble fails",
				Min:  map[string]int64{"binary_runs_ok": 10, "binary_runs_rejected": 5, "binary_runs_writing_to_a_file_that_exists": 5}, CaseCPU: 600},
		},
	})
}

type lline struct {
	hex  []byte
	text string
}

func parseListing(l []byte) ([]lline, error) {
	if len(l) == 0 {
		return nil, fmt.Errorf("empty listing")
	}
	if l[len(l)-1] != '\n' {
		return nil, fmt.Errorf("listing does not end in a newline")
	}
	var out []lline
	for n, s := range strings.Split(string(l[:len(l)-1]), "\n") {
		if len(s) < 14 {
			return nil, fmt.Errorf("line %d shorter than the byte column: %q", n, s)
		}
		col := s[:14]
		var hb []byte
		// "xx xx xx xx   " : bytes at 3*i
		done := false
		for i := 0; i < 4; i++ {
			p := col[3*i : 3*i+2]
			if p == "  " {
				done = true
				continue
			}
			if done {
				return nil, fmt.Errorf("line %d: gap in byte column %q", n, col)
			}
			b, err := hex.DecodeString(p)
			if err != nil {
				return nil, fmt.Errorf("line %d: bad hex %q", n, col)
			}
			hb = append(hb, b[0])
			if col[3*i+2] != ' ' {
				return nil, fmt.Errorf("line %d: bad byte column %q", n, col)
			}
		}
		if col[12:] != "  " {
			return nil, fmt.Errorf("line %d: bad byte column %q", n, col)
		}
		out = append(out, lline{hb, s[14:]})
	}
	return out, nil
}

func parseF32(s string) (float32, bool) {
	if strings.HasSuffix(s, "NaN") {
		return float32(math.NaN()), true
	}
	f, err := strconv.ParseFloat(s, 32)
	if err != nil {
		if ne, ok := err.(*strconv.NumError); ok && ne.Err == strconv.ErrRange {
			return float32(f), true
		}
		return 0, false
	}
	return float32(f), true
}

var (
	reNChunks = regexp.MustCompile(`^Number of metadata chunks: (\d+)$`)
	reChunkL  = regexp.MustCompile(`^Metadata chunk length: (\d+)$`)
	reMID     = regexp.MustCompile(`^Metadata Identifier: (\d+) \((viewBox|suggested palette)\)$`)
	rePalHdr  = regexp.MustCompile(`^    (\d+) palette colors, (\d) bytes per color$`)
	rePalCol  = regexp.MustCompile(`^    RGBA ([0-9a-f]{8})$`)
	reSetSel  = regexp.MustCompile(`^Set (C|N)SEL = (\d+)$`)
	reSetCReg = regexp.MustCompile(`^Set CREG\[CSEL-(\d)\] to a (\d) byte( \((?:in)?direct\))? color(; CSEL\+\+)?$`)
	reSetNReg = regexp.MustCompile(`^Set NREG\[NSEL-(\d)\] to a (real|coordinate|zero-to-one) number(; NSEL\+\+)?$`)
	reStart   = regexp.MustCompile(`^Start path, filled with CREG\[CSEL-(\d)\]; M \(absolute moveTo\)$`)
	reDraw    = regexp.MustCompile(`^([LlTtQqSsCcAa]) \((absolute|relative) (lineTo|smooth quadTo|quadTo|smooth cubeTo|cubeTo|arcTo)\), (?:(\d+) reps|(implicit))$`)
	reAngle   = regexp.MustCompile(`^    (\S+) × 360 degrees \((\S+) degrees\)$`)
	reFlags   = regexp.MustCompile(`^    0x([0-9a-f]+) \(largeArc=(\d), sweep=(\d)\)$`)
)

var drawLetter = map[rec.Kind]string{rec.KAbsLineTo: "L", rec.KRelLineTo: "l", rec.KAbsSmoothQuadTo: "T", rec.KRelSmoothQuadTo: "t", rec.KAbsQuadTo: "Q", rec.KRelQuadTo: "q",
	rec.KAbsSmoothCubeTo: "S", rec.KRelSmoothCubeTo: "s", rec.KAbsCubeTo: "C", rec.KRelCubeTo: "c", rec.KAbsArcTo: "A", rec.KRelArcTo: "a"}

var fixedLine = map[rec.Kind]string{
	rec.KClosePathEndPath:   "z (closePath); end path",
	rec.KClosePathAbsMoveTo: "z (closePath); M (absolute moveTo)",
	rec.KClosePathRelMoveTo: "z (closePath); m (relative moveTo)",
	rec.KAbsHLineTo:         "H (absolute horizontal lineTo)",
	rec.KRelHLineTo:         "h (relative horizontal lineTo)",
	rec.KAbsVLineTo:         "V (absolute vertical lineTo)",
	rec.KRelVLineTo:         "v (relative vertical lineTo)",
}

func color1Text(x byte) string {
	s := ref.Color1(x)
	switch s.Typ {
	case ivg.ColorTypePaletteIndex:
		return fmt.Sprintf("customPalette[%d]", s.Idx)
	case ivg.ColorTypeCReg:
		return fmt.Sprintf("CREG[%d]", s.Idx)
	}
	return fmt.Sprintf("RGBA %02x%02x%02x%02x", s.RGBA.R, s.RGBA.G, s.RGBA.B, s.RGBA.A)
}

// colorText is the text the listing must show for a delivered colour.
func colorText(c *run.Ctx, s rec.ColorSpec) string {
	switch s.Typ {
	case ivg.ColorTypeRGBA:
		k := s.RGBA
		if k.R <= k.A && k.G <= k.A && k.B <= k.A {
			return fmt.Sprintf("RGBA %02x%02x%02x%02x", k.R, k.G, k.B, k.A)
		}
		if k.A == 0 && k.B >= 0x80 {
			c.Count("gradient_colors", 1)
			return fmt.Sprintf("gradient (NSTOPS=%d, CBASE=%d, NBASE=%d, %s, %s)", k.R&0x3f, k.G&0x3f, k.B&0x3f,
				[]string{"linear", "radial"}[(k.B>>6)&1], []string{"none", "pad", "reflect", "repeat"}[k.G>>6])
		}
		c.Count("nonsensical_colors", 1)
		return "nonsensical color"
	case ivg.ColorTypePaletteIndex:
		return fmt.Sprintf("customPalette[%d]", s.Idx)
	case ivg.ColorTypeCReg:
		return fmt.Sprintf("CREG[%d]", s.Idx)
	}
	c.Count("blend_colors", 1)
	return fmt.Sprintf("blend (%d:%d) (%s:%s)", 255-int(s.T), s.T, color1Text(s.C0), color1Text(s.C1))
}

type numKind int

const (
	nkReal numKind = iota
	nkCoord
	nkZTO
)

// lineNumber checks a "    <number>" line: the printed value must be the
// delivered value and the line's bytes must be that number's encoding.
func lineNumber(l lline, want float32, kind numKind, plus bool) string {
	if !strings.HasPrefix(l.text, "    ") {
		return fmt.Sprintf("expected a number line, got %q", l.text)
	}
	txt := l.text[4:]
	if plus && !(strings.HasPrefix(txt, "+") || strings.HasPrefix(txt, "-")) {
		return fmt.Sprintf("number %q has no sign", txt)
	}
	f, ok := parseF32(txt)
	if !ok {
		return fmt.Sprintf("unparseable number %q", txt)
	}
	if !rec.SameBits(f, want) {
		return fmt.Sprintf("printed number %q is not the delivered value %s", txt, rec.FB(want))
	}
	return lineBytesNumber(l, want, kind)
}

func lineBytesNumber(l lline, want float32, kind numKind) string {
	rd := l.hex
	if len(rd) != 1 && len(rd) != 2 && len(rd) != 4 {
		return fmt.Sprintf("number line has %d bytes", len(rd))
	}
	var u uint32
	switch len(rd) {
	case 1:
		if rd[0]&1 != 0 {
			return "1-byte number line holds a longer form"
		}
		u = uint32(rd[0]) >> 1
	case 2:
		if rd[0]&3 != 1 {
			return "2-byte number line holds another form"
		}
		u = (uint32(rd[0]) | uint32(rd[1])<<8) >> 2
	default:
		if rd[0]&3 != 3 {
			return "4-byte number line holds another form"
		}
		u = (uint32(rd[0]) | uint32(rd[1])<<8 | uint32(rd[2])<<16 | uint32(rd[3])<<24) >> 2
	}
	var v float32
	switch kind {
	case nkReal:
		v = ref.Real(u, len(rd))
	case nkCoord:
		v = ref.Coord(u, len(rd))
	default:
		v = ref.ZeroToOne(u, len(rd))
	}
	if ref.Ulps(v, want) > 1 {
		return fmt.Sprintf("bytes % x of the line do not encode the printed value %s", rd, rec.FB(want))
	}
	return ""
}

// checkListing compares a successful listing with the delivered calls.
// It returns "" or a description of the first disagreement.
func checkListing(c *run.Ctx, b []byte, lst []byte, ops []rec.Op) (sig, msg string) {
	lines, err := parseListing(lst)
	if err != nil {
		return "unparseable-listing", err.Error()
	}
	var cat []byte
	for _, l := range lines {
		cat = append(cat, l.hex...)
	}
	if !bytes.Equal(cat, b) {
		return "byte-column-differs-from-input", fmt.Sprintf("column has %d bytes, input %d", len(cat), len(b))
	}
	i := 0
	next := func() (lline, bool) {
		if i >= len(lines) {
			return lline{}, false
		}
		l := lines[i]
		i++
		return l, true
	}
	c.Count("lines_checked", int64(len(lines)))
	// --- metadata
	l, ok := next()
	if !ok || l.text != "IconVG Magic identifier" || len(l.hex) != 4 {
		return "metadata-line", "magic line"
	}
	l, ok = next()
	m := reNChunks.FindStringSubmatch(l.text)
	if !ok || m == nil {
		return "metadata-line", "chunk count line: " + l.text
	}
	nch, _ := strconv.Atoi(m[1])
	if len(ops) == 0 || ops[0].K != rec.KReset {
		return "no-reset", "decoder delivered no Reset for an accepted stream"
	}
	reset := ops[0]
	sawVB, sawPal := false, false
	// More chunks than the two kinds there are: some identifier repeats. The
	// listing is then applied chunk by chunk (entries a later palette chunk does
	// not list keep what they had) and the outcome compared with Reset's arguments.
	repeated := nch > 2 || c11RepeatedMIDs(b)
	listedPal := ivg.DefaultPalette
	var lastVB [4]lline
	for ch := 0; ch < nch; ch++ {
		l, ok = next()
		if !ok || reChunkL.FindStringSubmatch(l.text) == nil {
			return "metadata-line", "chunk length line: " + l.text
		}
		l, ok = next()
		mm := reMID.FindStringSubmatch(l.text)
		if !ok || mm == nil {
			return "metadata-line", "chunk identifier line: " + l.text
		}
		if (mm[1] == "0") != (mm[2] == "viewBox") {
			return "metadata-line", "identifier and description disagree: " + l.text
		}
		if mm[1] == "0" {
			sawVB = true
			want := [4]float32{reset.VB.MinX, reset.VB.MinY, reset.VB.MaxX, reset.VB.MaxY}
			for k := 0; k < 4; k++ {
				l, ok = next()
				if !ok {
					return "metadata-line", "viewBox number missing"
				}
				if repeated {
					lastVB[k] = l // judged for the last viewBox chunk only (below)
					continue
				}
				if s := lineNumber(l, want[k], nkCoord, true); s != "" {
					return "viewbox-number", s
				}
			}
		} else if repeated {
			// several chunks: the listing is applied chunk by chunk, as the decoder does,
			// and the outcome compared with what Reset received
			sawPal = true
			l, ok = next()
			ph := rePalHdr.FindStringSubmatch(l.text)
			if !ok || ph == nil || len(l.hex) != 1 {
				return "metadata-line", "palette header line: " + l.text
			}
			cnt, _ := strconv.Atoi(ph[1])
			for k := 0; k < cnt; k++ {
				l, ok = next()
				pc := rePalCol.FindStringSubmatch(l.text)
				if !ok || pc == nil {
					return "metadata-line", "palette colour line: " + l.text
				}
				var v [4]uint8
				fmt.Sscanf(pc[1], "%02x%02x%02x%02x", &v[0], &v[1], &v[2], &v[3])
				listedPal[k] = color.RGBA{v[0], v[1], v[2], v[3]}
			}
		} else {
			sawPal = true
			l, ok = next()
			ph := rePalHdr.FindStringSubmatch(l.text)
			if !ok || ph == nil || len(l.hex) != 1 {
				return "metadata-line", "palette header line: " + l.text
			}
			cnt, _ := strconv.Atoi(ph[1])
			bpc, _ := strconv.Atoi(ph[2])
			if cnt != int(l.hex[0]&0x3f)+1 || bpc != int(l.hex[0]>>6)+1 {
				return "palette-header", fmt.Sprintf("header %q does not match byte %02x", l.text, l.hex[0])
			}
			for k := 0; k < cnt; k++ {
				l, ok = next()
				pc := rePalCol.FindStringSubmatch(l.text)
				if !ok || pc == nil {
					return "metadata-line", "palette colour line: " + l.text
				}
				c.Count("palette_lines", 1)
				w := reset.Pal[k]
				if pc[1] != fmt.Sprintf("%02x%02x%02x%02x", w.R, w.G, w.B, w.A) {
					return "palette-color", fmt.Sprintf("entry %d printed %s, delivered %v", k, pc[1], w)
				}
				if len(l.hex) != bpc {
					return "palette-color-bytes", fmt.Sprintf("entry %d line has %d bytes, format says %d", k, len(l.hex), bpc)
				}
			}
			for k := cnt; k < 64; k++ {
				if reset.Pal[k] != (color.RGBA{0, 0, 0, 0xff}) {
					return "palette-color", fmt.Sprintf("entry %d delivered %v without a listing line", k, reset.Pal[k])
				}
			}
		}
	}
	if repeated && sawVB {
		want := [4]float32{reset.VB.MinX, reset.VB.MinY, reset.VB.MaxX, reset.VB.MaxY}
		for k := 0; k < 4; k++ {
			if s := lineNumber(lastVB[k], want[k], nkCoord, true); s != "" {
				return "viewbox-number", "several chunks, the last viewBox chunk: " + s
			}
		}
	}
	if repeated && sawPal && listedPal != *reset.Pal {
		k := 0
		for ; listedPal[k] == reset.Pal[k]; k++ {
		}
		return "palette-color", fmt.Sprintf("several chunks: entry %d listed as %v in the end, delivered %v", k, listedPal[k], reset.Pal[k])
	}
	if !sawVB && reset.VB != ivg.DefaultViewBox {
		return "viewbox-number", "no viewBox chunk listed but a non-default viewBox delivered"
	}
	if !sawPal && *reset.Pal != ivg.DefaultPalette {
		return "palette-color", "no palette chunk listed but a non-default palette delivered"
	}
	// --- instructions
	for oi := 1; oi < len(ops); oi++ {
		o := &ops[oi]
		l, ok := next()
		if !ok {
			return "listing-too-short", fmt.Sprintf("no line for delivered call %d (%s)", oi, o.String())
		}
		bad := func(what string) (string, string) {
			return "line-mismatch/" + o.K.String(), fmt.Sprintf("%s: line %q vs delivered %s", what, l.text, o.String())
		}
		switch o.K {
		case rec.KSetCSel, rec.KSetNSel:
			m := reSetSel.FindStringSubmatch(l.text)
			if m == nil || (m[1] == "C") != (o.K == rec.KSetCSel) || m[2] != strconv.Itoa(int(o.Sel)) || len(l.hex) != 1 {
				return bad("selector")
			}
		case rec.KSetCReg:
			m := reSetCReg.FindStringSubmatch(l.text)
			if m == nil || m[1] != strconv.Itoa(int(o.Adj)) || (m[4] != "") != o.Incr || len(l.hex) != 1 {
				return bad("set creg")
			}
			cl, ok := next()
			if !ok || !strings.HasPrefix(cl.text, "    ") {
				return bad("colour line missing")
			}
			s := rec.Spec(o.Col)
			want := colorText(c, s)
			if cl.text[4:] != want {
				return "color-text", fmt.Sprintf("printed %q, delivered %s (expected %q)", cl.text[4:], s, want)
			}
			if m[2] != strconv.Itoa(len(cl.hex)) {
				return "color-bytes", fmt.Sprintf("line says %s byte colour, colour line has %d bytes", m[2], len(cl.hex))
			}
			if s.Typ == ivg.ColorTypeBlend {
				if m[3] != " (indirect)" || !bytes.Equal(cl.hex, []byte{s.T, s.C0, s.C1}) {
					return "color-bytes", "blend bytes/directness"
				}
			}
		case rec.KSetNReg:
			m := reSetNReg.FindStringSubmatch(l.text)
			if m == nil || m[1] != strconv.Itoa(int(o.Adj)) || (m[3] != "") != o.Incr || len(l.hex) != 1 {
				return bad("set nreg")
			}
			nl, ok := next()
			if !ok {
				return bad("number line missing")
			}
			kind := map[string]numKind{"real": nkReal, "coordinate": nkCoord, "zero-to-one": nkZTO}[m[2]]
			if s := lineNumber(nl, o.F[0], kind, false); s != "" {
				return "number/SetNReg", s
			}
		case rec.KSetLOD:
			if l.text != "Set LOD" || len(l.hex) != 1 {
				return bad("set lod")
			}
			for k := 0; k < 2; k++ {
				nl, ok := next()
				if !ok {
					return bad("number line missing")
				}
				if s := lineNumber(nl, o.F[k], nkReal, true); s != "" {
					return "number/SetLOD", s
				}
			}
		case rec.KStartPath:
			m := reStart.FindStringSubmatch(l.text)
			if m == nil || m[1] != strconv.Itoa(int(o.Adj)) || len(l.hex) != 1 {
				return bad("start path")
			}
			for k := 0; k < 2; k++ {
				nl, ok := next()
				if !ok {
					return bad("number line missing")
				}
				if s := lineNumber(nl, o.F[k], nkCoord, true); s != "" {
					return "number/StartPath", s
				}
			}
		case rec.KClosePathEndPath, rec.KClosePathAbsMoveTo, rec.KClosePathRelMoveTo, rec.KAbsHLineTo, rec.KRelHLineTo, rec.KAbsVLineTo, rec.KRelVLineTo:
			if l.text != fixedLine[o.K] || len(l.hex) != 1 {
				return bad("fixed line")
			}
			for k := 0; k < o.K.NArgs(); k++ {
				nl, ok := next()
				if !ok {
					return bad("number line missing")
				}
				if s := lineNumber(nl, o.F[k], nkCoord, true); s != "" {
					return "number/" + o.K.String(), s
				}
			}
		default:
			// repeated drawing ops: this op starts a group
			m := reDraw.FindStringSubmatch(l.text)
			if m == nil || m[1] != drawLetter[o.K] || m[5] != "" || len(l.hex) != 1 {
				return bad("draw line")
			}
			if (m[2] == "relative") != o.K.IsRel() {
				return bad("absolute/relative")
			}
			reps, _ := strconv.Atoi(m[4])
			sh := gen.Shape(true, l.hex[0])
			if !sh.OK || sh.Reps != reps {
				return "repeat-count", fmt.Sprintf("line %q printed for opcode %02x", l.text, l.hex[0])
			}
			for rep := 0; rep < reps; rep++ {
				if rep > 0 {
					oi++
					if oi >= len(ops) {
						return "listing-too-long", "more repetitions listed than calls delivered"
					}
					o = &ops[oi]
					il, ok := next()
					im := reDraw.FindStringSubmatch(il.text)
					if !ok || im == nil || im[5] == "" || im[1] != m[1] || len(il.hex) != 0 {
						return "implicit-line", fmt.Sprintf("expected implicit %s line, got %q", m[1], il.text)
					}
					c.Count("implicit_lines", 1)
					if drawLetter[o.K] != m[1] {
						return "implicit-line", fmt.Sprintf("implicit %s line but delivered %s", m[1], o.String())
					}
				}
				if o.K == rec.KAbsArcTo || o.K == rec.KRelArcTo {
					for k := 0; k < 2; k++ {
						nl, _ := next()
						if s := lineNumber(nl, o.F[k], nkCoord, true); s != "" {
							return "number/arc-radius", s
						}
					}
					al, _ := next()
					am := reAngle.FindStringSubmatch(al.text)
					if am == nil {
						return "angle-line", al.text
					}
					v, ok1 := parseF32(am[1])
					d, ok2 := parseF32(am[2])
					if !ok1 || !rec.SameBits(v, o.F[2]) {
						return "angle-value", fmt.Sprintf("printed %q, delivered %s", am[1], rec.FB(o.F[2]))
					}
					if !ok2 || !rec.SameBits(d, o.F[2]*360) {
						return "angle-degrees", fmt.Sprintf("printed %q degrees for %s", am[2], rec.FB(o.F[2]))
					}
					if s := lineBytesNumber(al, o.F[2], nkZTO); s != "" {
						return "angle-bytes", s
					}
					fl, _ := next()
					fm := reFlags.FindStringSubmatch(fl.text)
					if fm == nil || (fm[2] == "1") != o.LargeArc || (fm[3] == "1") != o.Sweep {
						return "arc-flags", fmt.Sprintf("line %q vs delivered largeArc=%v sweep=%v", fl.text, o.LargeArc, o.Sweep)
					}
					fv, _ := strconv.ParseUint(fm[1], 16, 32)
					if (fv&1 != 0) != o.LargeArc || (fv&2 != 0) != o.Sweep {
						return "arc-flags", fmt.Sprintf("printed natural %#x contradicts the flags", fv)
					}
					for k := 3; k < 5; k++ {
						nl, _ := next()
						if s := lineNumber(nl, o.F[k], nkCoord, true); s != "" {
							return "number/arc-endpoint", s
						}
					}
				} else {
					for k := 0; k < o.K.NArgs(); k++ {
						nl, ok := next()
						if !ok {
							return bad("number line missing")
						}
						if s := lineNumber(nl, o.F[k], nkCoord, true); s != "" {
							return "number/" + o.K.String(), s
						}
					}
				}
			}
		}
	}
	if i != len(lines) {
		return "listing-too-long", fmt.Sprintf("%d lines beyond the delivered calls, first %q", len(lines)-i, lines[i].text)
	}
	return "", ""
}

// c11Other is a small valid graphic (viewBox chunk, a colour, a selector, one
// path) disassembled right after the case's input.
var c11Other = []byte{0x89, 0x49, 0x56, 0x47, 0x02, 0x0a, 0x00, 0x50, 0x50, 0xb0, 0xb0, 0x81, 0x7c, 0x03, 0xc0, 0x70, 0x70, 0x21, 0x90, 0x70, 0x90, 0x90, 0xe1}

var c11OtherLst []byte

func c11OtherListing() []byte {
	if c11OtherLst == nil {
		l, err := decode.Disassemble(c11Other)
		if err != nil {
			panic("c11Other is not a valid graphic: " + err.Error())
		}
		c11OtherLst = append([]byte(nil), l...)
	}
	return c11OtherLst
}

// c11RepeatedMIDs reports whether the (decoder-accepted) stream has two chunks
// with the same identifier.
func c11RepeatedMIDs(b []byte) bool {
	m, err := ref.ParseMeta(b)
	if err != nil {
		return false
	}
	seen := map[uint32]bool{}
	for _, id := range m.MIDs {
		if seen[id] {
			return true
		}
		seen[id] = true
	}
	return false
}

func c11Judge(c *run.Ctx, b []byte, family string) {
	c.Input(b)
	var ops []rec.Op
	var derr, lerr error
	var lst []byte
	if !c.Guard("Decode", func() interface{} { return hx(b) }, func() { ops, derr = decodeRec(b) }) {
		return
	}
	if !c.Guard("Disassemble", func() interface{} { return hx(b) }, func() { lst, lerr = decode.Disassemble(b) }) {
		return
	}
	// validation-only use of Decode (a nil Destination) accepts the same inputs
	var nerr error
	if !c.Guard("Decode(nil destination)", func() interface{} { return hx(b) }, func() { nerr = decode.Decode(nil, b) }) {
		return
	}
	if (nerr == nil) != (lerr == nil) {
		c.Violate("accept-differs", map[string]interface{}{"family": family, "input": hx(b), "decode_with_nil_destination": errStr(nerr), "disassemble": errStr(lerr)})
		return
	}
	nontrivial := derr == nil && len(ops) > 1
	c.Eval(run.HashBytes(b), nontrivial)
	if nontrivial && c.WantSample() {
		c.Sample(map[string]interface{}{"family": family, "input": hx(b), "listing_lines": bytes.Count(lst, []byte("\n"))})
	}
	if (derr == nil) != (lerr == nil) {
		c.Violate("accept-differs", map[string]interface{}{"family": family, "input": hx(b), "decode": errStr(derr), "disassemble": errStr(lerr)})
		return
	}
	if derr != nil {
		c.Count("rejected", 1)
		if derr != lerr {
			c.Violate("error-differs", map[string]interface{}{"family": family, "input": hx(b), "decode": errStr(derr), "disassemble": errStr(lerr)})
		}
		if lst != nil {
			c.Violate("listing-returned-with-error", map[string]interface{}{"family": family, "input": hx(b)})
		}
		return
	}
	c.Count("accepted", 1)
	// The listing belongs to the caller: a later Disassemble of another input
	// must not change it (a recycled output buffer would).
	if len(b)%2 == 0 {
		held := append([]byte(nil), lst...)
		var lst2 []byte
		if !c.Guard("Disassemble (second input)", func() interface{} { return hx(b) }, func() { lst2, _ = decode.Disassemble(c11Other) }) {
			return
		}
		c.Count("listings_held_across_a_later_call", 1)
		if !bytes.Equal(lst, held) {
			c.Violate("earlier-listing-changed-by-later-call", map[string]interface{}{"family": family, "input": hx(b), "later_input": hx(c11Other)})
			return
		}
		if !bytes.Equal(lst2, c11OtherListing()) {
			c.Violate("listing-depends-on-earlier-call", map[string]interface{}{"family": family, "earlier_input": hx(b), "input": hx(c11Other)})
			return
		}
	}
	if sig, msg := checkListing(c, b, lst, ops); sig != "" {
		c.Violate(sig, map[string]interface{}{"family": family, "input": hx(b), "what": msg})
	}
}

func c11Structured(c *run.Ctx, idx uint64) {
	r := c.Rng(idx)
	var b []byte
	if idx%16 == 7 {
		// a metadata section whose chunk identifiers repeat (the decoder accepts it):
		// Decode and Disassemble must agree on what it amounts to
		var a gen.Asm
		a.Magic()
		a.MetadataRepeated(r)
		for n := r.Intn(4); n > 0; n-- {
			a.Instr(r, false, gen.StylingOpcode(r))
		}
		b = a.B
		c.Count("repeated_metadata_identifiers", 1)
	} else if idx%4 == 3 {
		// metadata-heavy: reuse the C13 style generator through gen.Stream's metadata
		b = gen.Stream(r, r.Range(0, 6), false, 0)
	} else {
		cut := 0
		if r.Chance(1, 8) {
			cut = r.Range(1, 4)
		}
		n := r.Range(1, 40)
		if r.Chance(1, 4000) {
			n = r.Range(8000, 14000) // a listing of a stream beyond 64 KiB
			c.Count("streams_beyond_64KiB", 1)
		}
		b = gen.Stream(r, n, r.Chance(1, 8) && n < 1000, cut)
	}
	c11Judge(c, b, "structured")
}

func c11Corpus(c *run.Ctx, idx uint64) {
	fs := corpus.Files()
	r := c.Rng(idx)
	f := fs[int(idx)%len(fs)]
	if idx < uint64(len(fs)) {
		c11Judge(c, f.Data, "corpus")
		return
	}
	other := fs[r.Intn(len(fs))]
	c11Judge(c, gen.Mutate(r, f.Data, other.Data), "corpus-mutation")
}

func c11Opcodes(c *run.Ctx, idx uint64) {
	drawing := idx >= 256
	op := byte(idx)
	r := c.Rng(idx)
	for v := 0; v < 24; v++ {
		var a gen.Asm
		a.Magic()
		if v%3 == 0 {
			a.Metadata(r)
		} else {
			a.Nat(0, 1)
		}
		if drawing {
			a.Byte(0xc0 + byte(r.Intn(7)))
			a.Num(r)
			a.Num(r)
		}
		mode := a.Instr(r, drawing, op)
		if mode {
			a.Byte(0xe1)
		}
		c11Judge(c, a.B, "opcodes")
	}
	c.Exhaustive()
}

func c11Binary(c *run.Ctx, idx uint64) {
	dir, err := os.MkdirTemp("", "ivgverif-disivg-")
	if err != nil {
		c.Count("binary_unavailable", 1)
		return
	}
	defer os.RemoveAll(dir)
	bin := filepath.Join(dir, "disivg")
	build := exec.Command("go", "build", "-o", bin, "github.com/reactivego/ivg/cmd/disivg")
	build.Dir = run.VerifDir()
	if mf := os.Getenv("VERIF_MODFILE"); mf != "" {
		build.Args = append(build.Args[:2], append([]string{"-modfile=" + mf}, build.Args[2:]...)...)
	}
	if out, err := build.CombinedOutput(); err != nil {
		c.Count("binary_unavailable", 1)
		if c.Replay {
			fmt.Println("go build failed:", string(out))
		}
		return
	}
	r := c.Rng(idx)
	fs := corpus.Files()
	n := 60
	if c.Thorough() {
		n = len(fs) + 400
	}
	for k := 0; k < n; k++ {
		var b []byte
		switch {
		case c.Thorough() && k < len(fs):
			b = fs[k].Data
		case k%3 == 0:
			b = fs[r.Intn(len(fs))].Data
		case k%3 == 1:
			b = gen.Mutate(r, fs[r.Intn(len(fs))].Data, fs[r.Intn(len(fs))].Data)
		default:
			b = gen.Stream(r, r.Range(1, 30), r.Chance(1, 4), r.Pick(0, 0, 1))
		}
		path := filepath.Join(dir, fmt.Sprintf("case%d.ivg", k))
		if os.WriteFile(path, b, 0644) != nil {
			continue
		}
		want, werr := decode.Disassemble(b)
		cmd := exec.Command(bin, path)
		// every other run writes the listing to a file with -o: always the same
		// file, so that it already holds the listing of an earlier (longer or
		// shorter) graphic
		toFile := k%2 == 1
		outPath := filepath.Join(dir, "listing.txt")
		if toFile {
			cmd = exec.Command(bin, "-o", outPath, path)
		}
		var stdout, stderr bytes.Buffer
		cmd.Stdout, cmd.Stderr = &stdout, &stderr
		rerr := cmd.Run()
		c.Eval(run.HashBytes(b), werr == nil)
		if werr == nil && toFile {
			c.Count("binary_runs_ok", 1)
			c.Count("binary_runs_writing_to_a_file_that_exists", 1)
			got, ferr := os.ReadFile(outPath)
			if rerr != nil || ferr != nil {
				c.Violate("binary-fails-on-valid-file", map[string]interface{}{"input": hx(b), "stderr": stderr.String(), "to_file": true})
			} else if !bytes.Equal(got, want) {
				c.Violate("binary-output-file-differs", map[string]interface{}{"input": hx(b), "file_bytes": len(got), "listing_bytes": len(want)})
			}
		} else if werr == nil {
			c.Count("binary_runs_ok", 1)
			if rerr != nil {
				c.Violate("binary-fails-on-valid-file", map[string]interface{}{"input": hx(b), "stderr": stderr.String()})
			} else if !bytes.Equal(stdout.Bytes(), want) {
				c.Violate("binary-output-differs", map[string]interface{}{"input": hx(b)})
			}
		} else {
			c.Count("binary_runs_rejected", 1)
			if rerr == nil {
				c.Violate("binary-exit-0-on-invalid-file", map[string]interface{}{"input": hx(b)})
			}
			if stdout.Len() != 0 {
				c.Violate("binary-prints-listing-for-invalid-file", map[string]interface{}{"input": hx(b)})
			}
		}
		os.Remove(path)
	}
}
