package props

import (
	"bytes"
	"fmt"
	"image"
	"image/color"
	"image/draw"
	"math"

	"github.com/reactivego/ivg"
	"github.com/reactivego/ivg/decode"
	"github.com/reactivego/ivg/encode"
	"github.com/reactivego/ivg/raster/vec"
	"github.com/reactivego/ivg/render"

	"ivgverif/internal/gen"
	"ivgverif/internal/rec"
	"ivgverif/internal/ref"
	"ivgverif/internal/run"
)

// C16 — pixels are invariant under re-expression of the same picture.
// Monitor: metamorphic, bit-exact comparison of pixel buffers produced by the
// bundled golang.org/x/image/vector-backed rasterizer.

func init() {
	run.Register(&run.Prop{
		ID:    "C16",
		Title: "Pixels are invariant under re-expression of the same picture",
		Rule:  "every case is a graphic (1..4 paths of all verbs incl. arcs, flat and gradient fills, colours through palette indices/registers/blends, optionally a skipped first path) rendered through raster/vec into RGBA or Alpha images of sizes {1,2,7,64,255,511,512,513,600,...}; a third of the graphics are 'exact' (every number survives the library's own encoding bit for bit) and half of their offset/scaled renderings are expressed as bytes (Encoder, then Decode) instead of direct calls; each case also fixes how the objects are obtained (one Renderer for all renderings or a fresh one each, &vec.Rasterizer{} or vec.NewRasterizer); relations checked: (a) rectangle at an offset inside a larger pre-filled image vs an own image, with a sentinel frame, (b) viewBox, coordinates and gradient matrix scaled by 2^k, k in [-12,12], (c) indirect colours vs the direct colours computed by the reference machine, (d) DrawOp=Src for all paths vs first drawn path with Src and the rest with Over, and Src results independent of the previous image content; non-trivial = at least one pixel of the reference rendering differs from the background; distinctness by hash of the graphic and configuration",
		Assumptions: []string{
			"golang.org/x/image/vector is deterministic and its result depends only on the path geometry relative to the rasterizer origin",
			"IEEE-754 arithmetic commutes with scaling by a power of two in the exponent range used",
		},
		Subs: []*run.Sub{
			{Name: "metamorphic", N: func(t string) uint64 {
				if t == "thorough" {
					return 800_000
				}
				return 20_000
			}, Run: c16Case, CaseCPU: 120,
				Min: map[string]int64{"graphics": 4000, "relation_offset": 4000, "relation_scale": 4000, "relation_colours": 4000, "relation_drawop": 4000, "relation_src_background": 3000, "lod_ranges": 3000, "offset_zero_in_a_larger_image": 1000, "larger_image_with_negative_bounds": 2000, "offset_rendering_expressed_as_bytes": 1500, "scaled_rendering_expressed_as_bytes": 1500, "one_renderer_for_all_renderings": 3000, "rasterizer_from_NewRasterizer": 3000, "sentinel_pixels": 100000, "rgba_images": 1000, "alpha_images": 1000,
					"sizes_above_512": 50, "gradient_paths": 2000, "skipped_first_path": 500, "nontrivial_renderings": 3000}},
		},
	})
}

type c16Graphic struct {
	vb  ivg.ViewBox
	pal [64]color.RGBA
	ops []rec.Op // after Reset
	// exact: every number of the graphic (and of its power-of-two scalings)
	// survives the library's own encoding bit for bit, so the graphic can also
	// be expressed as bytes (Encoder, then Decode) without changing a pixel
	exact bool
}

// c16Gen generates a graphic with moderate coordinates.
func c16Gen(c *run.Ctx, r *run.Rng, exact bool) *c16Graphic {
	g := &c16Graphic{vb: ivg.ViewBox{MinX: -20, MinY: -35, MaxX: 40, MaxY: 31}, exact: exact}
	if r.Bool() {
		g.vb = ivg.ViewBox{MinX: float32(r.Range(-40, -1)), MinY: float32(r.Range(-40, -1)), MaxX: float32(r.Range(1, 40)), MaxY: float32(r.Range(1, 40))}
	}
	if exact && r.Bool() {
		// bounds that are powers of two: their scalings land on the boundaries of the coordinate forms (64, 128, ...)
		p := func() float32 { return float32(r.Pick(1, 2, 4, 8, 16, 32)) }
		g.vb = ivg.ViewBox{MinX: -p(), MinY: -p(), MaxX: p(), MaxY: p()}
	}
	for i := range g.pal {
		g.pal[i] = gen.Premul(r)
		if g.pal[i].A < 0x40 {
			g.pal[i].A |= 0x80
			g.pal[i].R, g.pal[i].G, g.pal[i].B = g.pal[i].R/2, g.pal[i].G/2, g.pal[i].B/2
		}
	}
	coord := func(r *run.Rng) float32 { return float32(r.Uniform(-30, 30)) }
	angle := func(r *run.Rng) float32 { return float32(r.F64()) }
	if exact {
		coord = func(r *run.Rng) float32 {
			if r.Chance(1, 8) {
				return float32(r.Pick(1, 2, 4, 8, 16)) * float32(r.Pick(-1, 1))
			}
			return float32(r.Range(-1920, 1920)) / 64
		}
		angle = func(r *run.Rng) float32 { return float32(r.Intn(64)) / 64 }
	}
	o := gen.Opts{Coord: coord, Angle: angle}
	// A reference machine follows the program while it is generated, so that
	// a later path never reuses, through an untouched register, a gradient
	// value whose stop and matrix registers have meanwhile been overwritten
	// with numbers of another role (relation (b) scales numbers by role).
	vm := ref.NewVM(g.vb, g.pal)
	add := func(op rec.Op) { g.ops = append(g.ops, op); vm.Step(&g.ops[len(g.ops)-1]) }
	nPaths := r.Range(1, 4)
	var lastBlend *ivg.Color
	lastOperand := 0
	skipFirst := r.Chance(1, 5)
	if skipFirst {
		c.Count("skipped_first_path", 1)
	}
	for p := 0; p < nPaths; p++ {
		sel := uint8(r.Intn(64))
		adj := uint8(r.Intn(7))
		if r.Chance(1, 4) {
			// a level-of-detail range in pixel heights, around the heights the case may render at
			lo, hi := float32(r.Range(0, 120)), float32(r.Range(0, 120))
			switch r.Intn(4) {
			case 0:
				lo = 0
			case 1:
				hi = float32(math.Inf(1))
			case 2:
				lo, hi = float32(r.Pick(0, 255, 511, 512, 513)), float32(r.Pick(256, 512, 513, 514, 601))
			}
			if lo > hi {
				lo, hi = hi, lo
			}
			c.Count("lod_ranges", 1)
			add(rec.Op{K: rec.KSetLOD, F: [6]float32{lo, hi}})
		}
		add(rec.Op{K: rec.KSetCSel, Sel: sel})
		switch {
		case p == 0 && skipFirst:
			add(rec.Op{K: rec.KSetCReg, Adj: adj, Col: ivg.RGBAColor(color.RGBA{})})
		case r.Chance(1, 3):
			// gradient with indirect stop colours
			c.Count("gradient_paths", 1)
			nst := r.Pick(2, 3, 4)
			cb, nb := r.Intn(64), r.Intn(64)
			add(rec.Op{K: rec.KSetNSel, Sel: uint8(nb)})
			for i := 6; i >= 1; i-- {
				v := float32(r.Uniform(-0.05, 0.05))
				if i == 4 || i == 1 {
					v = float32(r.Uniform(-0.5, 0.5))
				}
				if exact {
					v = float32(math.Round(float64(v)*4096) / 4096)
				}
				add(rec.Op{K: rec.KSetNReg, Adj: uint8(i), F: [6]float32{v}})
			}
			for i := 0; i < nst; i++ {
				off := (float32(i) + float32(r.Uniform(0.1, 0.9))) / float32(nst)
				if exact {
					off = float32(math.Round(float64(off)*1024) / 1024)
				}
				add(rec.Op{K: rec.KSetNReg, Incr: true, F: [6]float32{off}})
			}
			add(rec.Op{K: rec.KSetCSel, Sel: uint8(cb)})
			for i := 0; i < nst; i++ {
				var col ivg.Color
				switch r.Intn(3) {
				case 0:
					col = ivg.RGBAColor(gen.Premul(r))
				case 1:
					col = ivg.PaletteIndexColor(r.Byte())
				default:
					col = ivg.BlendColor(r.Byte(), 0x80|uint8(r.Intn(64)), uint8(r.Intn(125)))
				}
				add(rec.Op{K: rec.KSetCReg, Incr: true, Col: col})
			}
			free := (cb + nst + r.Intn(64-nst)) & 63
			add(rec.Op{K: rec.KSetCSel, Sel: uint8(free)})
			adj = 0
			add(rec.Op{K: rec.KSetCReg, Col: ivg.RGBAColor(gen.MakeGradientValue(cb, nb, r.Intn(2), r.Intn(4), nst))})
		default:
			k := r.Intn(4)
			if k == 0 && ref.IsGradientValue(vm.CReg[(int(sel)-int(adj))&63]) {
				k = 3
			}
			switch k {
			case 0: // palette-initialised register (or one holding a resolved stop colour), untouched
			case 1:
				add(rec.Op{K: rec.KSetCReg, Adj: adj, Col: ivg.PaletteIndexColor(r.Byte())})
			case 2:
				if lastBlend != nil && r.Bool() {
					// the register that the previous blend took as an operand gets another
					// colour, then the very same blend is stored again
					c.Count("same_blend_again_after_its_operand_register_changed", 1)
					add(rec.Op{K: rec.KSetCSel, Sel: uint8(lastOperand)})
					add(rec.Op{K: rec.KSetCReg, Col: ivg.RGBAColor(color.RGBA{uint8(r.Intn(128)), 0x30, uint8(r.Intn(128)), uint8(0x80 + r.Intn(128))})})
					add(rec.Op{K: rec.KSetCSel, Sel: sel})
					add(rec.Op{K: rec.KSetCReg, Adj: adj, Col: *lastBlend})
					break
				}
				operand := r.Intn(64)
				col := ivg.BlendColor(r.Byte(), 0x80|uint8(r.Intn(64)), 0xc0|uint8(operand))
				lastBlend, lastOperand = &col, operand
				add(rec.Op{K: rec.KSetCReg, Adj: adj, Col: col})
			default:
				add(rec.Op{K: rec.KSetCReg, Adj: adj, Col: ivg.RGBAColor(color.RGBA{uint8(r.Intn(128)), uint8(r.Intn(128)), 0x40, uint8(0x80 + r.Intn(128))})})
			}
			// A blend can also resolve to an old gradient value (t = 0 or 255 with a
			// register operand that holds one): same role problem, same remedy.
			if ref.IsGradientValue(vm.CReg[(int(sel)-int(adj))&63]) {
				c.Count("stale_gradient_value_replaced", 1)
				add(rec.Op{K: rec.KSetCReg, Adj: adj, Col: ivg.RGBAColor(color.RGBA{uint8(r.Intn(128)), uint8(r.Intn(128)), 0x40, uint8(0x80 + r.Intn(128))})})
			}
		}
		add(rec.Op{K: rec.KStartPath, Adj: adj, F: [6]float32{coord(r), coord(r)}})
		for n := r.Range(1, 12); n > 0; n-- {
			add(gen.DrawOp(r, gen.DrawVerbs[r.Intn(len(gen.DrawVerbs))], &o))
		}
		add(rec.Op{K: rec.KClosePathEndPath})
	}
	return g
}

func newImg(rgba bool, r image.Rectangle) draw.Image {
	if rgba {
		return image.NewRGBA(r)
	}
	return image.NewAlpha(r)
}

func pixOf(d draw.Image) []byte {
	switch d := d.(type) {
	case *image.RGBA:
		return d.Pix
	case *image.Alpha:
		return d.Pix
	}
	return nil
}

func fillPattern(img draw.Image, seed uint64) {
	r := run.NewRng(seed)
	p := pixOf(img)
	if _, ok := img.(*image.RGBA); ok {
		for i := 0; i+3 < len(p); i += 4 {
			a := r.Byte()
			p[i], p[i+1], p[i+2], p[i+3] = uint8(r.Intn(int(a)+1)), uint8(r.Intn(int(a)+1)), uint8(r.Intn(int(a)+1)), a
		}
		return
	}
	for i := range p {
		p[i] = r.Byte()
	}
}

// c16Rasterizer returns the rasterizer for one rendering into dst.
func c16Rasterizer(dst draw.Image, op draw.Op) *vec.Rasterizer {
	if vz := c16Objs.oneRz; vz != nil {
		vz.Dst, vz.DrawOp = dst, op
		return vz
	}
	if c16Objs.newRz {
		vz := vec.NewRasterizer(dst)
		vz.DrawOp = op
		return vz
	}
	return &vec.Rasterizer{Dst: dst, DrawOp: op}
}

// c16Render renders ops (already scaled) into dst at rect.
//
// How the objects are obtained is part of the configuration of a case
// (c16Objs, set by c16Case; a worker process runs one case at a time): the
// Renderer is a fresh one per rendering or one value reused for every rendering
// of the case, and the rasterizer is the literal &vec.Rasterizer{...} (inner
// size 0x0 until the first path) or vec.NewRasterizer(dst) (inner size = the
// whole destination image, which differs from the target rectangle whenever
// the rectangle lies inside a larger image).
var c16Objs struct {
	reuse *render.Renderer
	newRz bool
	// byValue: the Renderer that draws is a value copy of the one SetRasterizer was
	// called on (a constructor that returns a configured Renderer by value)
	byValue bool
	nRender int // renderings so far in this case: every second one is the handed-over kind
	// oneRz, when set, is the one vec.Rasterizer of the case: every rendering
	// points its exported Dst field at the image it draws into and sets DrawOp
	oneRz *vec.Rasterizer
	// viaBytes: renderings of the whole graphic go through Encoder and Decode
	// (set for the offset and scale relations of exact graphics only; the
	// reference rendering is always made by direct calls)
	viaBytes bool
	bytesErr string
}

func c16Render(dst draw.Image, rect image.Rectangle, op draw.Op, vb ivg.ViewBox, pal [64]color.RGBA, ops []rec.Op, only func(path int) bool) {
	if c16Objs.viaBytes && only == nil {
		c16RenderBytes(dst, rect, op, vb, pal, ops)
		return
	}
	zp := c16Objs.reuse
	if zp == nil {
		zp = new(render.Renderer)
	}
	z := zp
	z.SetRasterizer(c16Rasterizer(dst, op), rect)
	c16Objs.nRender++
	if c16Objs.byValue && c16Objs.nRender%2 == 0 {
		handedOver := *z
		z = &handedOver
	}
	z.Reset(vb, pal)
	path := -1
	skipping := false
	for i := range ops {
		o := &ops[i]
		if o.K == rec.KStartPath {
			path++
			skipping = only != nil && !only(path)
		}
		if skipping && (o.K == rec.KStartPath || o.K.IsDrawing()) {
			if o.K == rec.KClosePathEndPath {
				skipping = false
			}
			continue
		}
		rec.Apply(z, o)
	}
}

// c16RenderBytes expresses the graphic as bytes with the library's own Encoder
// (high resolution) and renders what Decode makes of them. Only used for exact
// graphics. A graphic the Encoder or the decoder refuses leaves dst untouched,
// which the pixel comparison reports.
func c16RenderBytes(dst draw.Image, rect image.Rectangle, op draw.Op, vb ivg.ViewBox, pal [64]color.RGBA, ops []rec.Op) {
	var e encode.Encoder
	e.Reset(vb, pal)
	e.HighResolutionCoordinates = true
	for i := range ops {
		rec.Apply(&e, &ops[i])
	}
	b, err := e.Bytes()
	if err != nil {
		c16Objs.bytesErr = "Encoder: " + err.Error()
		return
	}
	b = append([]byte(nil), b...)
	z := c16Objs.reuse
	if z == nil {
		z = new(render.Renderer)
	}
	z.SetRasterizer(c16Rasterizer(dst, op), rect)
	c16Objs.nRender++
	if c16Objs.byValue && c16Objs.nRender%2 == 0 {
		handedOver := *z
		z = &handedOver
	}
	if err := decode.Decode(z, b); err != nil {
		c16Objs.bytesErr = "Decode: " + err.Error()
	}
}

// scaleOps multiplies every coordinate by s = 2^k and divides the gradient
// matrix scale entries by s.
func scaleOps(ops []rec.Op, s float32) []rec.Op {
	out := make([]rec.Op, len(ops))
	// which SetNReg writes are matrix scale entries: those with Adj in {6,5,3,2} directly after a SetNSel in the generator's pattern
	for i := range ops {
		o := ops[i]
		switch {
		case o.K == rec.KSetNReg && !o.Incr && (o.Adj == 6 || o.Adj == 5 || o.Adj == 3 || o.Adj == 2):
			o.F[0] /= s
		case o.K == rec.KAbsArcTo || o.K == rec.KRelArcTo:
			o.F[0], o.F[1], o.F[3], o.F[4] = o.F[0]*s, o.F[1]*s, o.F[3]*s, o.F[4]*s
		case o.K == rec.KStartPath || (o.K.IsDrawing() && o.K != rec.KClosePathEndPath):
			for j := 0; j < o.K.NArgs(); j++ {
				o.F[j] *= s
			}
		}
		out[i] = o
	}
	return out
}

// directOps re-expresses the graphic with direct colours: every path is
// filled from CREG[CSEL] holding the colour (or an explicit gradient with
// direct stop colours) the reference machine resolves.
func directOps(g *c16Graphic, height int) []rec.Op {
	vm := ref.NewVM(g.vb, g.pal)
	var out []rec.Op
	for i := range g.ops {
		o := g.ops[i]
		if o.K == rec.KStartPath {
			e := vm.PaintFor(int(o.Adj), height)
			out = append(out, rec.Op{K: rec.KSetCSel, Sel: 1})
			switch {
			case e.Skip != "":
				out = append(out, rec.Op{K: rec.KSetCReg, Col: ivg.RGBAColor(color.RGBA{})})
			case !e.Grad:
				out = append(out, rec.Op{K: rec.KSetCReg, Col: ivg.RGBAColor(e.Flat)})
			default:
				out = append(out, rec.Op{K: rec.KSetNSel, Sel: 16})
				for k := 0; k < 6; k++ {
					out = append(out, rec.Op{K: rec.KSetNReg, Adj: uint8(6 - k), F: [6]float32{float32(e.VB2Grad[k])}})
				}
				for k := 0; k < e.NStops; k++ {
					out = append(out, rec.Op{K: rec.KSetNReg, Incr: true, F: [6]float32{float32(e.Offsets[k])}})
				}
				out = append(out, rec.Op{K: rec.KSetCSel, Sel: 16})
				for k := 0; k < e.NStops; k++ {
					out = append(out, rec.Op{K: rec.KSetCReg, Incr: true, Col: ivg.RGBAColor(e.Colors[k])})
				}
				out = append(out, rec.Op{K: rec.KSetCSel, Sel: 1}, rec.Op{K: rec.KSetCReg, Col: ivg.RGBAColor(gen.MakeGradientValue(16, 16, e.Shape, e.Spread, e.NStops))})
			}
			o.Adj = 0
			vm.Step(&g.ops[i])
			out = append(out, o)
			continue
		}
		vm.Step(&g.ops[i])
		if o.K.IsDrawing() {
			out = append(out, o)
		}
		// styling calls of the original are dropped: colours are direct now
	}
	return out
}

func firstDrawnPath(g *c16Graphic, height int) int {
	vm := ref.NewVM(g.vb, g.pal)
	path := -1
	for i := range g.ops {
		o := &g.ops[i]
		if o.K == rec.KStartPath {
			path++
			if vm.PaintFor(int(o.Adj), height).Skip == "" {
				return path
			}
		}
		vm.Step(o)
	}
	return -1
}

func c16Case(c *run.Ctx, idx uint64) {
	r := c.Rng(idx)
	exact := r.Chance(1, 3)
	g := c16Gen(c, r, exact)
	c16Objs.viaBytes, c16Objs.bytesErr = false, ""
	defer func() { c16Objs.viaBytes = false }()
	w, h := r.Range(1, 90), r.Range(1, 90)
	switch r.Intn(12) {
	case 0:
		w, h = r.Pick(255, 511, 512, 513, 600), r.Range(8, 40)
	case 1:
		w, h = r.Range(8, 40), r.Pick(255, 511, 512, 513, 600)
	case 2:
		w, h = r.Pick(1, 2, 7, 64), r.Pick(1, 2, 7, 64)
	}
	if w > 512 || h > 512 {
		c.Count("sizes_above_512", 1)
	}
	rgba := r.Bool()
	if rgba {
		c.Count("rgba_images", 1)
	} else {
		c.Count("alpha_images", 1)
	}
	op := draw.Src
	if r.Bool() {
		op = draw.Over
	}
	bg := r.U64()
	c16Objs.reuse, c16Objs.newRz = nil, r.Bool()
	if r.Bool() {
		c16Objs.reuse = new(render.Renderer)
		c.Count("one_renderer_for_all_renderings", 1)
	}
	if c16Objs.newRz {
		c.Count("rasterizer_from_NewRasterizer", 1)
	}
	c16Objs.byValue, c16Objs.nRender = r.Chance(1, 4), 0
	if c16Objs.byValue {
		c.Count("renderer_handed_over_by_value_after_setrasterizer", 1)
	}
	c16Objs.oneRz = nil
	if r.Chance(1, 3) {
		// one rasterizer object for every rendering of the case, its Dst field
		// pointed at each image in turn (first at a small image of its own)
		first := image.NewRGBA(image.Rect(0, 0, 5, 4))
		if c16Objs.newRz {
			c16Objs.oneRz = vec.NewRasterizer(first)
		} else {
			c16Objs.oneRz = &vec.Rasterizer{Dst: first}
			c16Objs.oneRz.Reset(5, 4)
			c16Objs.oneRz.MoveTo(0, 0)
			c16Objs.oneRz.LineTo(5, 0)
			c16Objs.oneRz.LineTo(0, 4)
			c16Objs.oneRz.ClosePath()
			c16Objs.oneRz.Draw(first.Bounds(), image.Opaque, image.Point{})
		}
		c.Count("one_rasterizer_for_all_renderings", 1)
	}
	size := image.Pt(w, h)
	own := image.Rectangle{Max: size}
	c.Count("graphics", 1)
	c.Eval(rec.HashOps(g.ops)^run.Hash64(uint64(w)<<32|uint64(h), bg), true)
	desc := func(extra map[string]interface{}) interface{} {
		d := map[string]interface{}{"viewBox": fmt.Sprint(g.vb), "size": size.String(), "rgba": rgba, "drawop": fmt.Sprint(op), "program": rec.Strings(clip(g.ops, 80)), "palette_seeded": true}
		for k, v := range extra {
			d[k] = v
		}
		return d
	}
	if c.WantSample() {
		c.Sample(map[string]interface{}{"viewBox": fmt.Sprint(g.vb), "size": size.String(), "rgba": rgba, "program": rec.Strings(clip(g.ops, 14))})
	}
	// reference rendering: own image, pre-filled
	base := newImg(rgba, own)
	fillPattern(base, bg)
	before := append([]byte(nil), pixOf(base)...)
	if !c.Guard("render", func() interface{} { return desc(nil) }, func() { c16Render(base, own, op, g.vb, g.pal, g.ops, nil) }) {
		return
	}
	if !bytes.Equal(before, pixOf(base)) {
		c.Count("nontrivial_renderings", 1)
	}
	diffCount := func(a, b []byte) int {
		n := 0
		for i := range a {
			if i < len(b) && a[i] != b[i] {
				n++
			}
		}
		return n
	}
	// (a) offset inside a larger image, sentinel frame
	{
		off := image.Pt(r.Range(1, 20), r.Range(1, 20))
		switch r.Intn(8) {
		case 0:
			off = image.Point{} // a rectangle at the origin of a wider and higher image
		case 1:
			off.X = 0
		case 2:
			off.Y = 0
		}
		if off == (image.Point{}) {
			c.Count("offset_zero_in_a_larger_image", 1)
		}
		// a quarter of the larger images have negative bounds (image.Rectangle
		// allows them), and the target rectangle then often a negative corner
		shift := image.Point{}
		if r.Chance(1, 4) {
			shift = image.Pt(-r.Range(1, 30), -r.Range(1, 30))
			c.Count("larger_image_with_negative_bounds", 1)
		}
		big := newImg(rgba, image.Rectangle{Max: size.Add(off).Add(image.Pt(r.Range(1, 9), r.Range(1, 9)))}.Add(shift))
		fillPattern(big, bg+1)
		ownBg := newImg(rgba, own)
		fillPattern(ownBg, bg)
		rect := image.Rectangle{Min: off, Max: off.Add(size)}.Add(shift)
		draw.Draw(big, rect, ownBg, image.Point{}, draw.Src)
		bigBefore := append([]byte(nil), pixOf(big)...)
		c16Objs.viaBytes = exact && r.Bool()
		if c16Objs.viaBytes {
			c.Count("offset_rendering_expressed_as_bytes", 1)
		}
		okA := c.Guard("render at offset", func() interface{} { return desc(nil) }, func() { c16Render(big, rect, op, g.vb, g.pal, g.ops, nil) })
		c16Objs.viaBytes = false
		if !okA {
			return
		}
		if c16Objs.bytesErr != "" {
			c.Violate("offset/graphic-not-expressible-as-bytes", desc(map[string]interface{}{"error": c16Objs.bytesErr}))
			return
		}
		c.Count("relation_offset", 1)
		sub := newImg(rgba, own)
		draw.Draw(sub, own, big, rect.Min, draw.Src)
		if !bytes.Equal(pixOf(sub), pixOf(base)) {
			c.Violate("offset/pixels-differ", desc(map[string]interface{}{"offset": off.String(), "differing_bytes": diffCount(pixOf(sub), pixOf(base))}))
			return
		}
		after := pixOf(big)
		bb := big.Bounds()
		bpp := len(after) / (bb.Dx() * bb.Dy())
		for y := bb.Min.Y; y < bb.Max.Y; y++ {
			for x := bb.Min.X; x < bb.Max.X; x++ {
				if (image.Point{X: x, Y: y}).In(rect) {
					continue
				}
				i := ((y-bb.Min.Y)*bb.Dx() + (x - bb.Min.X)) * bpp
				c.Count("sentinel_pixels", 1)
				if !bytes.Equal(after[i:i+bpp], bigBefore[i:i+bpp]) {
					c.Violate("offset/pixel-outside-rectangle-modified", desc(map[string]interface{}{"offset": off.String(), "pixel": []int{x, y}}))
					return
				}
			}
		}
	}
	// (b) power-of-two scaling
	{
		k := r.Pick(-12, -7, -3, -1, 1, 2, 5, 9, 12)
		s := float32(math.Ldexp(1, k))
		vb := ivg.ViewBox{MinX: g.vb.MinX * s, MinY: g.vb.MinY * s, MaxX: g.vb.MaxX * s, MaxY: g.vb.MaxY * s}
		img := newImg(rgba, own)
		fillPattern(img, bg)
		sc := scaleOps(g.ops, s)
		c16Objs.viaBytes = exact && r.Bool()
		if c16Objs.viaBytes {
			c.Count("scaled_rendering_expressed_as_bytes", 1)
		}
		okB := c.Guard("render scaled", func() interface{} { return desc(map[string]interface{}{"k": k}) }, func() { c16Render(img, own, op, vb, g.pal, sc, nil) })
		viaB := c16Objs.viaBytes
		c16Objs.viaBytes = false
		if !okB {
			return
		}
		if c16Objs.bytesErr != "" {
			c.Violate("scale/graphic-not-expressible-as-bytes", desc(map[string]interface{}{"k": k, "error": c16Objs.bytesErr}))
			return
		}
		_ = viaB
		c.Count("relation_scale", 1)
		if !bytes.Equal(pixOf(img), pixOf(base)) {
			c.Violate("scale/pixels-differ", desc(map[string]interface{}{"k": k, "differing_bytes": diffCount(pixOf(img), pixOf(base))}))
			return
		}
	}
	// (c) indirect vs direct colours
	{
		img := newImg(rgba, own)
		fillPattern(img, bg)
		d := directOps(g, h)
		if !c.Guard("render direct colours", func() interface{} { return desc(nil) }, func() { c16Render(img, own, op, g.vb, ivg.DefaultPalette, d, nil) }) {
			return
		}
		c.Count("relation_colours", 1)
		if !bytes.Equal(pixOf(img), pixOf(base)) {
			c.Violate("colours/pixels-differ", desc(map[string]interface{}{"direct_program": rec.Strings(clip(d, 80)), "differing_bytes": diffCount(pixOf(img), pixOf(base))}))
			return
		}
	}
	// (d) the configured operator applies to the first drawn path only
	{
		first := firstDrawnPath(g, h)
		allSrc := newImg(rgba, own)
		fillPattern(allSrc, bg)
		split := newImg(rgba, own)
		fillPattern(split, bg)
		ok := c.Guard("render split", func() interface{} { return desc(nil) }, func() {
			c16Render(allSrc, own, draw.Src, g.vb, g.pal, g.ops, nil)
			if first >= 0 {
				c16Render(split, own, draw.Src, g.vb, g.pal, g.ops, func(p int) bool { return p == first })
				c16Render(split, own, draw.Over, g.vb, g.pal, g.ops, func(p int) bool { return p > first })
			}
		})
		if !ok {
			return
		}
		c.Count("relation_drawop", 1)
		if !bytes.Equal(pixOf(allSrc), pixOf(split)) {
			c.Violate("drawop/not-first-drawn-path-only", desc(map[string]interface{}{"first_drawn_path": first, "differing_bytes": diffCount(pixOf(allSrc), pixOf(split))}))
			return
		}
		// The configured operator really is applied: with Src the first drawn
		// path replaces the rectangle, so the result cannot depend on what
		// the image held before.
		if first >= 0 {
			other := newImg(rgba, own)
			fillPattern(other, bg+7)
			if !c.Guard("render on another background", func() interface{} { return desc(nil) }, func() { c16Render(other, own, draw.Src, g.vb, g.pal, g.ops, nil) }) {
				return
			}
			c.Count("relation_src_background", 1)
			if !bytes.Equal(pixOf(allSrc), pixOf(other)) {
				c.Violate("drawop/src-result-depends-on-background", desc(map[string]interface{}{"first_drawn_path": first, "differing_bytes": diffCount(pixOf(allSrc), pixOf(other))}))
			}
		}
	}
}
