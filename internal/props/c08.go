package props

import (
	"bytes"
	"fmt"
	"image/color"
	"math"
	"regexp"
	"strconv"

	"github.com/reactivego/ivg"
	"github.com/reactivego/ivg/decode"
	"github.com/reactivego/ivg/encode"

	"ivgverif/internal/gen"
	"ivgverif/internal/rec"
	"ivgverif/internal/ref"
	"ivgverif/internal/run"
)

// C08 — number encodings are lossless where possible, bounded-error and
// minimal. Monitors: every value of an enumerated domain is pushed through
// the public Encoder API and the real decoder; a checking Destination compares
// the i-th delivered value with the i-th input, an independent walker reads
// each number's form length from the bytes.

type c08Kind int

const (
	k8Real c08Kind = iota
	k8HiCoord
	k8LoCoord
	k8LoLine
	k8LoRadius
	k8NReg
	k8Angle
	k8ViewBox
	nk8
)

var c08KindNames = [...]string{"real(SetLOD)", "coordinate-highres(StartPath)", "coordinate-lowres(StartPath)", "coordinate-lowres(AbsLineTo run)", "coordinate-lowres(AbsArcTo radii)", "nreg(SetNReg)", "angle(AbsArcTo)", "viewBox(Reset)"}

func init() {
	subs := []*run.Sub{}
	for k := c08Kind(0); k < nk8; k++ {
		k := k
		subs = append(subs, &run.Sub{
			Name: "roundtrip-" + c08KindNames[k],
			N: func(t string) uint64 {
				if k == k8ViewBox {
					if t == "thorough" {
						return 4096
					}
					return 64
				}
				if t == "thorough" {
					return 1 << 16
				}
				return 1 << 10
			},
			Run:  func(c *run.Ctx, idx uint64) { c08Sweep(c, k, idx) },
			Rule: "quick: 2^24 bit patterns (every sign/exponent/top-5-mantissa combination x 1024 middle-bit values x PRNG low byte) plus the boundary table; thorough: all 2^32 float32 bit patterns, block by block",
			Min:  map[string]int64{"values": 1 << 16, "form1": 10, "form4": 1000, "inexact_within_4ulp": 100},
		})
	}
	subs = append(subs,
		&run.Sub{Name: "decoder-forms", N: func(t string) uint64 {
			if t == "thorough" {
				return 6 * (1 + 1<<14) // short forms + 2^14 blocks of four-byte patterns per kind and operand position
			}
			return 6 * (1 + 64)
		}, Run: c08DecoderForms,
			Rule: "for each number kind (real, coordinate, zero-to-one) at two operand positions each (the three SetNReg instructions; a level-of-detail bound, a path's start coordinate, an arc's rotation angle): all 128 one-byte and all 16384 two-byte patterns, and the four-byte patterns (SetNReg: all 2^30 in the thorough tier; other positions: 2^28 there; stride 4099 in quick), decoded by the real decoder from hand-assembled instructions and compared with the reference codec",
			Min:  map[string]int64{"one_byte": 6 * 128, "two_byte": 6 * 16384, "four_byte": 200000, "patterns_at_the_arc_angle_position": 16384, "zero_to_one_patterns_outside_0_1_at_the_arc_angle_position": 1000}},
		&run.Sub{Name: "naturals", N: func(t string) uint64 {
			if t == "thorough" {
				return 1 << 14
			}
			return 64
		}, Run: c08Naturals,
			Rule: "naturals below 2^30 (all of them in the thorough tier; boundaries and a stride in quick) encoded by the verif hook encode.VerifEncodeNatural, checked for minimal length, and decoded by the real decoder as an arc-flags operand whose value the disassembler prints; chunk lengths across the 1/2-byte boundary through Encoder.Reset palettes",
			Min:  map[string]int64{"naturals": 1 << 14, "nat_form1": 128, "nat_form2": 1000, "nat_form4": 1000}},
		&run.Sub{Name: "truncated", N: func(string) uint64 { return 3 * 3 * 8 }, Run: c08Truncated,
			Rule: "every number kind x form length x instruction context with the number cut short by 1..length bytes at end of input: must be a DecodeError and the instruction must not be delivered",
			Min:  map[string]int64{"truncations": 100}},
	)
	run.Register(&run.Prop{
		ID:    "C08",
		Title: "Number encodings are lossless where possible, bounded-error and minimal",
		Rule:  "every evaluation is one number pushed through the real encoder and decoder (or one decoder byte pattern); values are enumerated, so distinctness is by construction; non-trivial = the value is finite and non-zero",
		Assumptions: []string{
			"reference codec in internal/ref (exact arithmetic) for form lengths and decoded values",
			"the 4-byte natural form is only reachable through the verif hook encode.VerifEncodeNatural",
			"nearest 1/64: a value within one float32 rounding of a tie may go to either neighbour (DESIGN 6.2)",
		},
		Subs: subs,
	})
}

// ---- expected form lengths (written from the specification)

func lenReal(f float32) int {
	if f >= 0 && f < 16384 && f == float32(math.Trunc(float64(f))) {
		if f < 128 {
			return 1
		}
		return 2
	}
	return 4
}

func lenCoord(f float32) int {
	if f >= -128 && f < 128 {
		g := float64(f)
		if g == math.Trunc(g) && g >= -64 && g < 64 {
			return 1
		}
		if g*64 == math.Trunc(g*64) {
			return 2
		}
	}
	return 4
}

func nonFinite(f float32) bool { return math.Float32bits(f)&0x7f800000 == 0x7f800000 }

// f30 is the rule for a value that went through the 30-bit float form.
func f30(c *run.Ctx, in, out float32) bool {
	if in != in {
		return nonFinite(out)
	}
	if math.Float32bits(in)&3 == 0 {
		return math.Float32bits(in) == math.Float32bits(out)
	}
	if math.IsInf(float64(in), 0) {
		return in == out
	}
	if math.Signbit(float64(in)) != math.Signbit(float64(out)) {
		return false
	}
	u := ref.Ulps(in, out)
	if c != nil {
		c.MaxF("max_ulps_observed", float64(u))
		if u > 0 {
			c.Count("inexact_within_4ulp", 1)
		}
	}
	return u <= 4
}

func natWidth(b byte) int {
	if b&1 == 0 {
		return 1
	}
	if b&2 == 0 {
		return 2
	}
	return 4
}

func natValue(p []byte, w int) uint32 {
	switch w {
	case 1:
		return uint32(p[0]) >> 1
	case 2:
		return (uint32(p[0]) | uint32(p[1])<<8) >> 2
	}
	return (uint32(p[0]) | uint32(p[1])<<8 | uint32(p[2])<<16 | uint32(p[3])<<24) >> 2
}

// numSink collects the numbers the decoder delivers for one kind.
type numSink struct {
	rec.Nop
	kind c08Kind
	outs []float32
	bad  string
}

func (s *numSink) SetLOD(a, b float32) {
	if s.kind == k8Real {
		if !rec.SameBits(a, b) {
			s.bad = "the two LOD values differ"
		}
		s.outs = append(s.outs, a)
	}
}
func (s *numSink) StartPath(adj uint8, x, y float32) {
	if s.kind == k8HiCoord || s.kind == k8LoCoord {
		if !rec.SameBits(x, y) {
			s.bad = "x and y differ"
		}
		s.outs = append(s.outs, x)
	}
}
func (s *numSink) AbsLineTo(x, y float32) {
	if s.kind == k8LoLine {
		if !rec.SameBits(x, y) {
			s.bad = "x and y differ"
		}
		s.outs = append(s.outs, x)
	}
}
func (s *numSink) SetNReg(adj uint8, incr bool, f float32) {
	if s.kind == k8NReg {
		s.outs = append(s.outs, f)
	}
}
func (s *numSink) AbsArcTo(rx, ry, rot float32, la, sw bool, x, y float32) {
	if s.kind == k8LoRadius {
		if !rec.SameBits(rx, ry) {
			s.bad = "rx and ry differ"
		}
		if rot != 0 || x != 1 || y != 1 || la || sw {
			s.bad = "arc operands other than the radii changed"
		}
		s.outs = append(s.outs, rx)
	}
	if s.kind == k8Angle {
		if rx != 1 || ry != 1 || x != 1 || y != 1 || la || sw {
			s.bad = "arc operands other than the angle changed"
		}
		s.outs = append(s.outs, rot)
	}
}

// c08Encode encodes vals through the public API for the kind.
func c08Encode(kind c08Kind, vals []float32) ([]byte, error) {
	var e encode.Encoder
	// Half of the high-resolution blocks use a zero-value Encoder that is never
	// Reset (default metadata implied) with the public flag set before the first
	// call; the bytes are the same as after Reset with the defaults.
	if !(kind == k8HiCoord && len(vals) > 0 && math.Float32bits(vals[0])>>11&1 == 1) {
		e.Reset(ivg.DefaultViewBox, ivg.DefaultPalette)
	}
	switch kind {
	case k8Real:
		for _, f := range vals {
			e.SetLOD(f, f)
		}
	case k8HiCoord, k8LoCoord:
		e.HighResolutionCoordinates = kind == k8HiCoord
		for _, f := range vals {
			e.HighResolutionCoordinates = kind == k8HiCoord
			e.StartPath(0, f, f)
			e.ClosePathEndPath()
		}
	case k8LoRadius:
		e.StartPath(0, 0, 0)
		for _, f := range vals {
			e.AbsArcTo(f, f, 0, false, false, 1, 1)
		}
		e.ClosePathEndPath()
	case k8LoLine:
		e.StartPath(0, 0, 0)
		for _, f := range vals {
			e.AbsLineTo(f, f)
		}
		e.ClosePathEndPath()
	case k8NReg:
		for _, f := range vals {
			e.SetNReg(0, false, f)
		}
	case k8Angle:
		e.StartPath(0, 0, 0)
		for _, f := range vals {
			e.AbsArcTo(1, 1, f, false, false, 1, 1)
		}
		e.ClosePathEndPath()
	}
	b, err := e.Bytes()
	return append([]byte(nil), b...), err
}

// c08Walk reads the form of the i-th number from the bytes: width, and for
// NREG the number kind chosen (0 real, 1 coordinate, 2 zero-to-one).
func c08Walk(kind c08Kind, b []byte, n int) (widths []uint8, forms []uint8, raw []uint32, err string) {
	p := 5
	fail := func(s string) ([]uint8, []uint8, []uint32, string) {
		return nil, nil, nil, fmt.Sprintf("%s at offset %d", s, p)
	}
	if len(b) < 5 || !bytes.Equal(b[:5], []byte("\x89IVG\x00")) {
		return fail("unexpected header")
	}
	nat := func() (int, uint32, bool) {
		if p >= len(b) {
			return 0, 0, false
		}
		w := natWidth(b[p])
		if p+w > len(b) {
			return 0, 0, false
		}
		v := natValue(b[p:], w)
		p += w
		return w, v, true
	}
	widths = make([]uint8, 0, n)
	forms = make([]uint8, 0, n)
	raw = make([]uint32, 0, n)
	switch kind {
	case k8Real, k8HiCoord, k8LoCoord:
		op := byte(0xc7)
		if kind != k8Real {
			op = 0xc0
		}
		for i := 0; i < n; i++ {
			if p >= len(b) || b[p] != op {
				return fail("unexpected opcode")
			}
			p++
			w1, v1, ok1 := nat()
			w2, v2, ok2 := nat()
			if !ok1 || !ok2 || w1 != w2 || v1 != v2 {
				return fail("two encodings of the same value differ")
			}
			widths, raw = append(widths, uint8(w1)), append(raw, v1)
			forms = append(forms, map[bool]uint8{true: 0, false: 1}[kind == k8Real])
			if kind != k8Real {
				if p >= len(b) || b[p] != 0xe1 {
					return fail("missing end path")
				}
				p++
			}
		}
	case k8NReg:
		for i := 0; i < n; i++ {
			if p >= len(b) {
				return fail("short")
			}
			op := b[p]
			p++
			if op != 0xa8 && op != 0xb0 && op != 0xb8 {
				return fail("unexpected opcode")
			}
			w, v, ok := nat()
			if !ok {
				return fail("short number")
			}
			widths, raw = append(widths, uint8(w)), append(raw, v)
			forms = append(forms, (op-0xa8)>>3)
		}
	case k8LoLine, k8Angle, k8LoRadius:
		if p+3 > len(b) || b[p] != 0xc0 || b[p+1] != 0x80 || b[p+2] != 0x80 {
			return fail("unexpected path start")
		}
		p += 3
		for i := 0; i < n; {
			if p >= len(b) {
				return fail("short")
			}
			op := b[p]
			p++
			var reps int
			if kind == k8LoLine {
				if op >= 0x20 {
					return fail("unexpected opcode")
				}
				reps = int(op) + 1
			} else {
				if op < 0xc0 || op >= 0xd0 {
					return fail("unexpected opcode")
				}
				reps = int(op&0x0f) + 1
			}
			for r := 0; r < reps; r++ {
				if kind == k8LoLine {
					w1, v1, ok1 := nat()
					w2, v2, ok2 := nat()
					if !ok1 || !ok2 || w1 != w2 || v1 != v2 {
						return fail("two encodings of the same value differ")
					}
					widths, raw, forms = append(widths, uint8(w1)), append(raw, v1), append(forms, 1)
				} else if kind == k8LoRadius {
					w1, v1, ok1 := nat()
					w2, v2, ok2 := nat()
					if !ok1 || !ok2 || w1 != w2 || v1 != v2 {
						return fail("two encodings of the same radius differ")
					}
					if p+4 > len(b) || b[p] != 0x00 || b[p+1] != 0x00 || b[p+2] != 0x82 || b[p+3] != 0x82 {
						return fail("arc angle/flags/endpoint")
					}
					p += 4
					widths, raw, forms = append(widths, uint8(w1)), append(raw, v1), append(forms, 1)
				} else {
					if p+2 > len(b) || b[p] != 0x82 || b[p+1] != 0x82 {
						return fail("arc radii")
					}
					p += 2
					w, v, ok := nat()
					if !ok {
						return fail("short angle")
					}
					if p+3 > len(b) || b[p] != 0x00 || b[p+1] != 0x82 || b[p+2] != 0x82 {
						return fail("arc flags/endpoint")
					}
					p += 3
					widths, raw, forms = append(widths, uint8(w)), append(raw, v), append(forms, 2)
				}
				i++
			}
		}
		if p >= len(b) || b[p] != 0xe1 {
			return fail("missing end path")
		}
		p++
	}
	if p != len(b) {
		return fail("trailing bytes")
	}
	return widths, forms, raw, ""
}

func refDecode(form uint8, raw uint32, w int) float32 {
	switch form {
	case 0:
		return ref.Real(raw, w)
	case 1:
		return ref.Coord(raw, w)
	}
	return ref.ZeroToOne(raw, w)
}

// c08Batch runs one batch of values of one kind through encoder and decoder
// and judges every value.
func c08Batch(c *run.Ctx, kind c08Kind, vals []float32, reencode bool) []float32 {
	detail := func(i int, in, out float32, w uint8, what string) interface{} {
		return map[string]interface{}{"kind": c08KindNames[kind], "in": rec.FB(in), "out": rec.FB(out), "form_bytes": w, "what": what, "index_in_batch": i}
	}
	var b []byte
	var err error
	if !c.Guard("encode", nil, func() { b, err = c08Encode(kind, vals) }) {
		return nil
	}
	if err != nil {
		c.Violate("encoder-error", map[string]interface{}{"kind": c08KindNames[kind], "error": err.Error()})
		return nil
	}
	widths, forms, raw, werr := c08Walk(kind, b, len(vals))
	if werr != "" {
		c.Violate("unexpected-encoding", map[string]interface{}{"kind": c08KindNames[kind], "what": werr, "first_value": rec.FB(vals[0]), "n": len(vals)})
		return nil
	}
	sink := &numSink{kind: kind, outs: make([]float32, 0, len(vals))}
	var derr error
	if !c.Guard("decode", nil, func() { derr = decode.Decode(sink, b) }) {
		return nil
	}
	if derr != nil || sink.bad != "" || len(sink.outs) != len(vals) {
		c.Violate("decode-of-encoder-output", map[string]interface{}{"kind": c08KindNames[kind], "error": errStr(derr), "note": sink.bad, "delivered": len(sink.outs), "written": len(vals), "first_value": rec.FB(vals[0])})
		return nil
	}
	var nt int64
	for i, in := range vals {
		out, w := sink.outs[i], widths[i]
		if in == in && in != 0 && !math.IsInf(float64(in), 0) {
			nt++
		}
		switch w {
		case 1:
			c.Count("form1", 1)
		case 2:
			c.Count("form2", 1)
		default:
			c.Count("form4", 1)
		}
		// what the bytes mean according to the reference codec
		meant := refDecode(forms[i], raw[i], int(w))
		if ref.Ulps(meant, out) > 1 || (forms[i] != 2 && !rec.SameBits(meant, out) && !(meant == 0 && out == 0)) {
			c.Violate("decoded-value-differs-from-bytes", detail(i, in, out, w, fmt.Sprintf("bytes mean %s", rec.FB(meant))))
			continue
		}
		switch kind {
		case k8Real:
			if want := lenReal(in); int(w) != want {
				c.Violate("real-not-shortest-form", detail(i, in, out, w, fmt.Sprintf("shortest exact form has %d bytes", want)))
			}
			if w < 4 {
				if in != out {
					c.Violate("real-short-form-not-exact", detail(i, in, out, w, ""))
				}
			} else if !f30(c, in, out) {
				c.Violate("real-30bit-rule", detail(i, in, out, w, ""))
			}
		case k8HiCoord, k8ViewBox:
			if want := lenCoord(in); int(w) != want {
				c.Violate("coordinate-not-shortest-form", detail(i, in, out, w, fmt.Sprintf("shortest exact form has %d bytes", want)))
			}
			if w < 4 {
				if in != out {
					c.Violate("coordinate-short-form-not-exact", detail(i, in, out, w, ""))
				}
			} else if !f30(c, in, out) {
				c.Violate("coordinate-30bit-rule", detail(i, in, out, w, ""))
			}
		case k8LoCoord, k8LoLine, k8LoRadius:
			if in >= -128 && in < 128 {
				m := float64(out) * 64
				d := math.Abs(float64(out) - float64(in))
				slack := math.Ldexp(math.Max(1, math.Abs(64*float64(in))), -24) / 64
				if m != math.Trunc(m) || d > 1.0/128+slack {
					c.Violate("lowres-not-nearest-64th", detail(i, in, out, w, fmt.Sprintf("distance %g", d)))
				}
				if lenCoord(in) < 4 && in != out {
					c.Violate("lowres-grid-value-changed", detail(i, in, out, w, ""))
				}
				if want := lenCoord(out); int(w) != want {
					c.Violate("coordinate-not-shortest-form", detail(i, in, out, w, fmt.Sprintf("shortest exact form of the quantised value has %d bytes", want)))
				}
				c.Count("quantised", 1)
			} else {
				if int(w) != 4 {
					c.Violate("coordinate-form", detail(i, in, out, w, "out-of-range value in a short form"))
				}
				if !f30(c, in, out) {
					c.Violate("coordinate-30bit-rule", detail(i, in, out, w, ""))
				}
			}
		case k8NReg:
			if min := lenReal(in); int(w) > min {
				c.Violate("nreg-longer-than-real-form", detail(i, in, out, w, fmt.Sprintf("real form has %d bytes", min)))
			}
			if min := lenCoord(in); int(w) > min {
				c.Violate("nreg-longer-than-coordinate-form", detail(i, in, out, w, fmt.Sprintf("coordinate form has %d bytes", min)))
			}
			if w < 4 && rec.SameBits(meant, in) || w < 4 && meant == in {
				if in != out {
					c.Violate("nreg-short-form-not-exact", detail(i, in, out, w, ""))
				}
			} else if w < 4 {
				// a short zero-to-one form whose quotient is not the input
				if forms[i] != 2 || ref.Ulps(in, out) > 4 {
					c.Violate("nreg-short-form-error", detail(i, in, out, w, ""))
				}
				c.Count("zto_short_inexact", 1)
			} else if !f30(c, in, out) {
				c.Violate("nreg-30bit-rule", detail(i, in, out, w, ""))
			}
		case k8Angle:
			g := float64(in) - math.Floor(float64(in))
			switch {
			case in != in || math.IsInf(float64(in), 0):
				if !nonFinite(out) {
					c.Violate("angle-nonfinite", detail(i, in, out, w, ""))
				}
			case in >= 0 && in < 1:
				if w < 4 && meant == in {
					if in != out {
						c.Violate("angle-short-form-not-exact", detail(i, in, out, w, ""))
					}
				} else if w < 4 {
					if ref.Ulps(in, out) > 4 {
						c.Violate("angle-short-form-error", detail(i, in, out, w, ""))
					}
					c.Count("zto_short_inexact", 1)
				} else if !f30(c, in, out) {
					c.Violate("angle-30bit-rule", detail(i, in, out, w, ""))
				}
			case g == 0:
				// a whole number of turns is no rotation: the 1-byte zero
				if out != 0 || w != 1 {
					c.Violate("angle-whole-turns-not-the-one-byte-zero", detail(i, in, out, w, ""))
				}
				c.Count("angle_whole_turns", 1)
			default:
				d := math.Abs(float64(out) - g)
				if !(d <= math.Ldexp(1, -20) || d >= 1-math.Ldexp(1, -20)) || !(out >= 0 && out <= 1) {
					c.Violate("angle-not-modulo-one-turn", detail(i, in, out, w, fmt.Sprintf("fractional part %g", g)))
				}
				c.Count("angle_normalised", 1)
			}
		}
	}
	c.Count("values", int64(len(vals)))
	c.EvalBulk(int64(len(vals)), nt)
	if c.WantSample() {
		k := len(vals) / 3
		c.Sample(map[string]interface{}{"kind": c08KindNames[kind], "in": rec.FB(vals[k]), "out": rec.FB(sink.outs[k]), "form_bytes": widths[k], "batch": len(vals)})
	}
	if reencode && (kind == k8Real || kind == k8HiCoord || kind == k8LoCoord) {
		// re-encoding a decoded real/coordinate never changes it or makes it longer
		outs := sink.outs
		var b2 []byte
		if !c.Guard("re-encode", nil, func() { b2, err = c08Encode(kind, outs) }) {
			return outs
		}
		w2, _, _, werr := c08Walk(kind, b2, len(outs))
		sink2 := &numSink{kind: kind, outs: make([]float32, 0, len(outs))}
		if err != nil || werr != "" || decode.Decode(sink2, b2) != nil || len(sink2.outs) != len(outs) {
			c.Violate("re-encode-failed", map[string]interface{}{"kind": c08KindNames[kind], "what": werr, "first_value": rec.FB(outs[0])})
			return outs
		}
		for i := range outs {
			if !rec.SameBits(outs[i], sink2.outs[i]) && !(outs[i] == 0 && sink2.outs[i] == 0) {
				c.Violate("re-encode-changes-value", detail(i, outs[i], sink2.outs[i], w2[i], "second pass"))
			}
			if w2[i] > widths[i] {
				c.Violate("re-encode-longer", detail(i, outs[i], sink2.outs[i], w2[i], fmt.Sprintf("first pass used %d bytes", widths[i])))
			}
		}
		c.Count("reencoded", int64(len(outs)))
	}
	return sink.outs
}

func c08ViewBox(c *run.Ctx, vals []float32) {
	var nt int64
	for _, f := range vals {
		if nonFinite(f) {
			continue
		}
		var e encode.Encoder
		vb := ivg.ViewBox{MinX: f, MinY: f, MaxX: f, MaxY: f}
		if f == -32 {
			vb.MaxX = 32
		}
		e.Reset(vb, ivg.DefaultPalette)
		b, err := e.Bytes()
		d := &rec.Dest{}
		if err != nil || decode.Decode(d, b) != nil || len(d.Ops) != 1 {
			c.Violate("viewbox-roundtrip-failed", map[string]interface{}{"value": rec.FB(f), "bytes": hx(b)})
			continue
		}
		out := d.Ops[0].VB.MinX
		// bytes: magic, 1 chunk, length, MID 0, four coordinates
		if len(b) < 8 {
			c.Violate("viewbox-encoding", map[string]interface{}{"value": rec.FB(f), "bytes": hx(b)})
			continue
		}
		w := natWidth(b[7])
		if want := lenCoord(f); w != want {
			c.Violate("coordinate-not-shortest-form", map[string]interface{}{"kind": "viewBox", "in": rec.FB(f), "form_bytes": w, "want": want})
		}
		if w < 4 {
			if f != out {
				c.Violate("coordinate-short-form-not-exact", map[string]interface{}{"kind": "viewBox", "in": rec.FB(f), "out": rec.FB(out)})
			}
		} else if !f30(c, f, out) {
			c.Violate("coordinate-30bit-rule", map[string]interface{}{"kind": "viewBox", "in": rec.FB(f), "out": rec.FB(out)})
		}
		switch w {
		case 1:
			c.Count("form1", 1)
		case 4:
			c.Count("form4", 1)
		}
		if f != 0 {
			nt++
		}
		c.Count("values", 1)
	}
	c.EvalBulk(int64(len(vals)), nt)
	if c.WantSample() {
		c.Sample(map[string]interface{}{"kind": "viewBox", "in": rec.FB(vals[len(vals)/2])})
	}
}

var c08Boundary = func() []float32 {
	v := append([]float32(nil), gen.Boundaries...)
	for e := uint32(0); e < 256; e++ {
		for _, m := range []uint32{0, 1, 2, 3, 4, 0x7ffffc, 0x7ffffd, 0x7ffffe, 0x7fffff, 0x400000, 0x400001} {
			v = append(v, math.Float32frombits(e<<23|m), math.Float32frombits(1<<31|e<<23|m))
		}
	}
	for k := 0; k <= 16400; k++ {
		v = append(v, float32(k), float32(k)/64-128, float32(k)/15120)
		if k <= 121 {
			v = append(v, float32(k)/120)
		}
	}
	return v
}()

func c08Sweep(c *run.Ctx, kind c08Kind, idx uint64) {
	var vals []float32
	r := c.Rng(idx)
	if c.Thorough() {
		if kind == k8ViewBox {
			// 4096 blocks of 2^12 values: strided over the 2^32 patterns
			vals = make([]float32, 1<<12)
			for j := range vals {
				vals[j] = math.Float32frombits(uint32(j)<<20 | uint32(idx)<<8 | uint32(r.Byte()))
			}
		} else {
			vals = make([]float32, 1<<16)
			for j := range vals {
				vals[j] = math.Float32frombits(uint32(idx)<<16 | uint32(j))
			}
			c.Exhaustive()
		}
	} else {
		if kind == k8ViewBox {
			vals = make([]float32, 1<<12)
			for j := range vals {
				vals[j] = math.Float32frombits(uint32(j)<<20 | uint32(r.U32()&0xfffff))
			}
		} else {
			vals = make([]float32, 1<<14)
			for j := range vals {
				vals[j] = math.Float32frombits(uint32(j)<<18 | uint32(idx)<<8 | uint32(r.Byte()))
			}
		}
	}
	if idx == 0 {
		vals = append(vals, c08Boundary...)
	}
	if kind == k8ViewBox {
		c08ViewBox(c, vals)
		return
	}
	for len(vals) > 0 {
		n := len(vals)
		if n > 1<<14 {
			n = 1 << 14
		}
		c08Batch(c, kind, vals[:n], true)
		vals = vals[n:]
	}
}

// ---- decoder forms

type nregSink struct {
	rec.Nop
	outs []float32
}

func (s *nregSink) SetNReg(adj uint8, incr bool, f float32) { s.outs = append(s.outs, f) }

// posSink records the operand under observation at the other operand
// positions: the lower level-of-detail bound, a path's start x, an arc's angle.
type posSink struct {
	rec.Nop
	pos  uint8
	outs []float32
}

func (s *posSink) SetLOD(a, b float32) {
	if s.pos == 3 {
		s.outs = append(s.outs, a)
	}
}

func (s *posSink) StartPath(adj uint8, x, y float32) {
	if s.pos == 4 {
		s.outs = append(s.outs, x)
	}
}

func (s *posSink) AbsArcTo(rx, ry, rot float32, la, sw bool, x, y float32) {
	if s.pos == 5 {
		s.outs = append(s.outs, rot)
	}
}

func c08DecoderForms(c *run.Ctx, idx uint64) {
	pos := uint8(idx % 6)
	form := pos % 3
	blk := idx / 6
	opcode := byte(0xa8 + 8*form)
	var a gen.Asm
	a.Magic()
	a.Nat(0, 1)
	var raws []uint32
	var ws []int
	if pos == 5 {
		a.Byte(0xc0) // one open path holds all the arcs
		a.Byte(0x80)
		a.Byte(0x80)
	}
	add := func(u uint32, w int) {
		switch pos {
		case 3: // SetLOD(<pattern>, 0)
			a.Byte(0xc7)
			a.Nat(u, w)
			a.Byte(0x00)
		case 4: // StartPath(0, <pattern>, 0); ClosePathEndPath
			a.Byte(0xc0)
			a.Nat(u, w)
			a.Byte(0x80)
			a.Byte(0xe1)
		case 5: // AbsArcTo(1, 1, <pattern>, flags 0, 0, 0)
			a.Byte(0xc0)
			a.Byte(0x82)
			a.Byte(0x82)
			a.Nat(u, w)
			a.Byte(0x00)
			a.Byte(0x80)
			a.Byte(0x80)
		default:
			a.Byte(opcode)
			a.Nat(u, w)
		}
		raws = append(raws, u)
		ws = append(ws, w)
	}
	if blk == 0 {
		for u := uint32(0); u < 128; u++ {
			add(u, 1)
		}
		for u := uint32(0); u < 16384; u++ {
			add(u, 2)
		}
		c.Count("one_byte", 128)
		c.Count("two_byte", 16384)
	} else {
		b := uint32(blk - 1)
		if c.Thorough() && pos >= 3 {
			r := c.Rng(idx)
			for j := uint32(0); j < 1<<14; j++ {
				add(b<<16|j<<2|uint32(r.Intn(4)), 4)
			}
		} else if c.Thorough() {
			for j := uint32(0); j < 1<<16; j++ {
				add(b<<16|j, 4)
			}
			c.Exhaustive()
		} else {
			r := c.Rng(idx)
			for j := uint32(0); j < 1<<14; j++ {
				add((j<<16|b<<10|uint32(r.Intn(1024)))&0x3fffffff, 4)
			}
		}
		c.Count("four_byte", int64(len(raws)))
	}
	if pos == 5 {
		a.Byte(0xe1)
	}
	var outs []float32
	var err error
	if pos < 3 {
		s := &nregSink{outs: make([]float32, 0, len(raws))}
		if !c.Guard("decode", nil, func() { err = decode.Decode(s, a.B) }) {
			return
		}
		outs = s.outs
	} else {
		s := &posSink{pos: pos, outs: make([]float32, 0, len(raws))}
		if !c.Guard("decode", nil, func() { err = decode.Decode(s, a.B) }) {
			return
		}
		outs = s.outs
	}
	posName := []string{"", "", "", "/at-the-level-of-detail-position", "/at-the-path-start-position", "/at-the-arc-angle-position"}[pos]
	if err != nil || len(outs) != len(raws) {
		c.Violate("decoder-forms/decode-failed"+posName, map[string]interface{}{"form": form, "error": errStr(err), "delivered": len(outs), "want": len(raws)})
		return
	}
	if pos == 5 {
		c.Count("patterns_at_the_arc_angle_position", int64(len(raws)))
	}
	for i, u := range raws {
		want := refDecode(form, u, ws[i])
		got := outs[i]
		if pos == 5 && (want < 0 || want > 1) {
			c.Count("zero_to_one_patterns_outside_0_1_at_the_arc_angle_position", 1)
		}
		ok := rec.SameBits(got, want)
		if !ok && form == 2 && ws[i] < 4 && ref.Ulps(got, want) <= 1 {
			ok = true
		}
		if !ok {
			c.Violate(fmt.Sprintf("decoder-forms/value/%s/%d-byte%s", []string{"real", "coordinate", "zero-to-one"}[form], ws[i], posName),
				map[string]interface{}{"natural": u, "got": rec.FB(got), "want": rec.FB(want)})
		}
	}
	c.EvalBulk(int64(len(raws)), int64(len(raws)-1))
	if c.WantSample() {
		k := len(raws) / 2
		c.Sample(map[string]interface{}{"form": []string{"real", "coordinate", "zero-to-one"}[form] + posName, "bytes": ws[k], "natural": raws[k], "decoded": rec.FB(outs[k])})
	}
}

// ---- naturals

var reFlagsLine = regexp.MustCompile(`(?m)^[0-9a-f ]{14}    0x([0-9a-f]+) \(largeArc=(\d), sweep=(\d)\)$`)

func c08Naturals(c *run.Ctx, idx uint64) {
	var us []uint32
	if c.Thorough() {
		for j := uint32(0); j < 1<<16; j++ {
			us = append(us, uint32(idx)<<16|j)
		}
		c.Exhaustive()
	} else {
		r := c.Rng(idx)
		if idx == 0 {
			for u := uint32(0); u < 1<<15; u++ {
				us = append(us, u)
			}
			for _, e := range []uint32{1 << 14, 1 << 15, 1 << 16, 1 << 20, 1 << 24, 1 << 29, 1<<30 - 1} {
				for d := uint32(0); d < 4; d++ {
					us = append(us, e-d, (e+d)&(1<<30-1))
				}
			}
		}
		for j := 0; j < 1<<12; j++ {
			us = append(us, (uint32(j)<<18|uint32(idx)<<12|uint32(r.Intn(4096)))&(1<<30-1))
		}
	}
	// arcs carrying the naturals as their flags operand, 16 per opcode
	var a gen.Asm
	a.Magic()
	a.Nat(0, 1)
	a.Byte(0xc0, 0x80, 0x80)
	for i := 0; i < len(us); i += 16 {
		n := len(us) - i
		if n > 16 {
			n = 16
		}
		a.Byte(0xc0 + byte(n-1))
		for _, u := range us[i : i+n] {
			var enc []byte
			if !c.Guard("VerifEncodeNatural", nil, func() { enc = encode.VerifEncodeNatural(u) }) {
				return
			}
			want := 4
			if u < 1<<7 {
				want = 1
				c.Count("nat_form1", 1)
			} else if u < 1<<14 {
				want = 2
				c.Count("nat_form2", 1)
			} else {
				c.Count("nat_form4", 1)
			}
			if len(enc) != want {
				c.Violate("natural-not-shortest-form", map[string]interface{}{"natural": u, "bytes": hx(enc), "want_len": want})
			}
			if len(enc) == 0 || natWidth(enc[0]) != len(enc) {
				c.Violate("natural-form-tag", map[string]interface{}{"natural": u, "bytes": hx(enc)})
				return
			}
			a.Byte(0x82, 0x82, 0x00)
			a.Byte(enc...)
			a.Byte(0x82, 0x82)
		}
	}
	a.Byte(0xe1)
	var lst []byte
	var err error
	if !c.Guard("Disassemble", nil, func() { lst, err = decode.Disassemble(a.B) }) {
		return
	}
	if err != nil {
		c.Violate("natural-stream-rejected", map[string]interface{}{"error": err.Error(), "first": us[0]})
		return
	}
	ms := reFlagsLine.FindAllSubmatch(lst, -1)
	if len(ms) != len(us) {
		c.Violate("natural-listing-lines", map[string]interface{}{"lines": len(ms), "want": len(us)})
		return
	}
	for i, m := range ms {
		v, _ := strconv.ParseUint(string(m[1]), 16, 32)
		if uint32(v) != us[i] {
			c.Violate("natural-decoded-value", map[string]interface{}{"natural": us[i], "decoded": v})
		}
	}
	// and the flags as delivered to a Destination
	fs := &flagSink{}
	if decode.Decode(fs, a.B) != nil || len(fs.flags) != len(us) {
		c.Violate("natural-stream-rejected", map[string]interface{}{"entry": "Decode", "first": us[0]})
		return
	}
	for i, u := range us {
		if fs.flags[i] != uint8(u&3) {
			c.Violate("arc-flags-from-natural", map[string]interface{}{"natural": u, "delivered_flags": fs.flags[i]})
		}
	}
	c.Count("naturals", int64(len(us)))
	c.EvalBulk(int64(len(us)), int64(len(us)))
	if c.WantSample() {
		c.Sample(map[string]interface{}{"natural": us[len(us)/2], "stream_bytes": len(a.B)})
	}
	// chunk lengths through the public API: palettes whose chunk crosses 127/128 bytes
	if idx == 0 {
		for n := 1; n <= 64; n++ {
			for format := 0; format < 4; format++ {
				pal := ivg.DefaultPalette
				for i := 0; i < n; i++ {
					switch format {
					case 0:
						pal[i] = color.RGBA{0x40, 0x80, 0xc0, 0xff}
					case 1:
						pal[i] = color.RGBA{0x11, 0x22, 0x33, 0x44}
					case 2:
						pal[i] = color.RGBA{1, 2, 3, 0xff}
					default:
						pal[i] = color.RGBA{1, 2, 3, 0x7f}
					}
				}
				var e encode.Encoder
				e.Reset(ivg.DefaultViewBox, pal)
				b, err := e.Bytes()
				if err != nil || len(b) < 7 {
					c.Violate("palette-encode", map[string]interface{}{"n": n, "format": format})
					continue
				}
				l := 2 + n*(format+1)
				w := natWidth(b[5])
				want := 1
				if l >= 128 {
					want = 2
				}
				if w != want || int(natValue(b[5:], w)) != l {
					c.Violate("chunk-length-natural", map[string]interface{}{"n": n, "format": format, "bytes": hx(b[:8]), "want_len": l})
				}
				d := &rec.Dest{}
				if decode.Decode(d, b) != nil || len(d.Ops) != 1 || *d.Ops[0].Pal != pal {
					c.Violate("chunk-length-roundtrip", map[string]interface{}{"n": n, "format": format, "bytes": hx(b)})
				}
				c.Count("chunk_lengths", 1)
			}
		}
	}
}

type flagSink struct {
	rec.Nop
	flags []uint8
}

func (s *flagSink) AbsArcTo(rx, ry, rot float32, la, sw bool, x, y float32) {
	f := uint8(0)
	if la {
		f |= 1
	}
	if sw {
		f |= 2
	}
	s.flags = append(s.flags, f)
}

// ---- truncated numbers

func c08Truncated(c *run.Ctx, idx uint64) {
	form := int(idx % 3)           // real / coordinate / zero-to-one
	w := []int{1, 2, 4}[(idx/3)%3] // form length
	ctx := int(idx / 9)            // instruction context
	r := c.Rng(idx)
	for rep := 0; rep < 8; rep++ {
		var a gen.Asm
		a.Magic()
		a.Nat(0, 1)
		nBefore := 1 // Reset
		switch ctx {
		case 0: // SetNReg of that form
			a.Byte(byte(0xa8 + 8*form))
		case 1: // LOD, second number (real only) / first
			a.Byte(0xc7)
			if rep%2 == 0 {
				a.Num(r)
			}
		case 2: // StartPath x or y
			a.Byte(0xc0)
			if rep%2 == 0 {
				a.Num(r)
			}
		case 3: // L with repeats, some complete reps before
			a.Byte(0xc0, 0x80, 0x80, 0x02)
			nBefore++
			for k := r.Intn(5); k > 0; k-- {
				a.Num(r)
			}
		case 4: // arc angle
			a.Byte(0xc0, 0x80, 0x80, 0xc0, 0x82, 0x82)
			nBefore++
		case 5: // arc flags
			a.Byte(0xc0, 0x80, 0x80, 0xd0, 0x82, 0x82, 0x00)
			nBefore++
		case 6: // viewBox coordinate (metadata)
			a.B = a.B[:4]
			a.Nat(1, 1)
			a.Nat(uint32(1+3+w), 1)
			a.Nat(0, 1)
			a.Byte(0x80, 0x80, 0x80)
			nBefore = 0
		default: // H
			a.Byte(0xc0, 0x80, 0x80, 0xe6)
			nBefore++
		}
		a.Nat(gen.RandNat(r, w), w)
		full := a.B
		for cut := 1; cut <= w; cut++ {
			b := full[:len(full)-cut]
			c.Input(b)
			ops, err := decodeRec(b)
			c.Count("truncations", 1)
			c.Eval(run.HashBytes(b), true)
			if err == nil {
				c.Violate("truncated-number-accepted", map[string]interface{}{"input": hx(b), "context": ctx, "form_bytes": w, "cut": cut})
				continue
			}
			if _, ok := err.(decode.DecodeError); !ok {
				c.Violate("truncated-number-error-type", map[string]interface{}{"input": hx(b), "error": err.Error()})
			}
			// the truncated instruction must not be delivered
			res := ref.Parse(b)
			if len(ops) > len(res.Ops) || (nBefore == 0 && len(ops) != 0) {
				c.Violate("truncated-number-delivered", map[string]interface{}{"input": hx(b), "delivered": len(ops), "complete_instructions": len(res.Ops)})
			}
		}
		if c.WantSample() {
			c.Sample(map[string]interface{}{"stream": hx(full), "cut": "1.." + strconv.Itoa(w)})
		}
	}
	c.Exhaustive()
}
