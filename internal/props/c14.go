package props

import (
	"bytes"
	"fmt"
	"image"
	"image/color"

	"github.com/reactivego/ivg"
	"github.com/reactivego/ivg/decode"
	"github.com/reactivego/ivg/encode"
	"github.com/reactivego/ivg/render"

	"ivgverif/internal/gen"
	"ivgverif/internal/rec"
	"ivgverif/internal/ref"
	"ivgverif/internal/run"
)

// C14 — palette options override exactly what they say, and are sanitised.
// Monitor: the palette handed to Reset and the paints handed to the
// rasterizer when decoding with option lists, vs the reference semantics
// (suggested palette, options in order, sanitise) and the reference machine.

func init() {
	run.Register(&run.Prop{
		ID:    "C14",
		Title: "Palette options override exactly what they say, and are sanitised",
		Rule:  "every case is a graphic (suggested palette present or not; paths filled from palette-initialised registers, palette-index colours and blends of palette entries) decoded with a PRNG option list (0..6 options, full replacements and index overrides in any order, indices 0..63, many colour models, nonsensical and gradient-looking values) into a recorder that forwards to a Renderer; non-trivial = at least one option; distinctness by hash of stream and options",
		Assumptions: []string{
			"reference semantics: decoded suggested palette, then options in order (full replacement; index override converted through RGBA()>>8, a color.RGBA kept as is), then entries that are not valid premultiplied colours become opaque black",
			"paints judged by the reference machine ref.VM seeded with that palette (see C04)",
		},
		Subs: []*run.Sub{
			{Name: "options", N: func(t string) uint64 {
				if t == "thorough" {
					return 30_000_000
				}
				return 500_000
			}, Run: c14Options,
				Min: map[string]int64{"decodes": 100000, "with_palette_options": 50000, "with_color_at_options": 50000, "options_written_by_the_caller": 10000, "options_written_by_the_caller_that_move_the_viewbox": 3000, "gradient_stops_from_unwritten_registers": 50000, "gradient_stops_written_as_indirect_colours": 50000, "nonsensical_user_colors": 20000, "gradient_looking_user_colors": 5000,
					"replacement_after_override": 5000, "paths": 100000, "flat": 50000, "suggested_palette_in_file": 30000, "non_rgba_color_models": 20000, "option_table_prefix_used_first": 10000, "replacement_equals_default_palette": 3000, "renderer_reused_after_same_palette": 100000, "same_graphic_decoded_before_with_other_options": 50000}},
		},
	})
}

func c14Options(c *run.Ctx, idx uint64) {
	r := c.Rng(idx)
	// the graphic
	var e encode.Encoder
	filePal := ivg.DefaultPalette
	if r.Chance(1, 2) {
		filePal = gen.Palette(r)
		c.Count("suggested_palette_in_file", 1)
	}
	e.Reset(ivg.DefaultViewBox, filePal)
	nPaths := r.Range(1, 6)
	// The graphic's first and last colour writes are the same indirect colour
	// (palette entry k0), the first one used by a path at once.
	k0 := uint8(r.Intn(64))
	e.SetCSel(41)
	e.SetCReg(0, false, ivg.PaletteIndexColor(k0))
	e.StartPath(0, -6, -6)
	e.AbsLineTo(6, -6)
	e.AbsLineTo(0, 6)
	e.ClosePathEndPath()
	// One time in two a gradient-filled path follows whose stops are colour
	// registers the graphic never wrote (their initial contents, i.e. entries of
	// the effective palette) and/or registers written with indirect colours.
	if r.Chance(1, 2) {
		n := r.Range(2, 4)
		cbase := r.Intn(36)
		e.SetNSel(50)
		e.SetNReg(6, false, 0.03)
		e.SetNReg(4, false, 0.5)
		for i := 0; i < n; i++ {
			e.SetNReg(0, true, float32(i)/float32(n-1))
		}
		for i := 0; i < n; i++ {
			e.SetCSel(uint8(cbase + i))
			switch r.Intn(4) {
			case 0, 1:
				c.Count("gradient_stops_from_unwritten_registers", 1)
			case 2:
				e.SetCReg(0, false, ivg.PaletteIndexColor(uint8(r.Intn(64))))
				c.Count("gradient_stops_written_as_indirect_colours", 1)
			default:
				e.SetCReg(0, false, ivg.BlendColor(r.Byte(), 0x80|uint8(r.Intn(64)), 0x80|uint8(r.Intn(64))))
				c.Count("gradient_stops_written_as_indirect_colours", 1)
			}
		}
		e.SetCSel(45)
		e.SetCReg(0, false, ivg.RGBAColor(gen.MakeGradientValue(cbase, 50, 0, r.Intn(4), n)))
		e.StartPath(0, -20, -20)
		e.AbsLineTo(20, -20)
		e.AbsLineTo(20, 20)
		e.AbsLineTo(-20, 20)
		e.ClosePathEndPath()
	}
	// a valid gradient set up in fixed registers, so that a gradient-looking
	// user colour would really render as one if it were not sanitised
	e.SetNSel(20)
	e.SetNReg(6, false, 0.05)
	e.SetNReg(0, true, 0)
	e.SetNReg(0, true, 1)
	e.SetCSel(20)
	e.SetCReg(0, true, ivg.RGBAColor(color.RGBA{0xff, 0, 0, 0xff}))
	e.SetCReg(0, true, ivg.RGBAColor(color.RGBA{0, 0, 0xff, 0xff}))
	for p := 0; p < nPaths; p++ {
		sel := uint8(r.Intn(64))
		e.SetCSel(sel)
		switch r.Intn(4) {
		case 0: // initial register contents (= palette)
		case 1:
			e.SetCReg(0, false, ivg.PaletteIndexColor(r.Byte()))
		case 2:
			e.SetCReg(0, false, ivg.BlendColor(r.Byte(), 0x80|uint8(r.Intn(64)), 0x80|uint8(r.Intn(64))))
		default:
			e.SetCReg(0, false, ivg.BlendColor(r.Byte(), 0x80|uint8(r.Intn(64)), uint8(r.Intn(128))))
		}
		e.StartPath(0, -8, -8)
		e.AbsLineTo(8, -8)
		e.AbsLineTo(8, 8)
		e.ClosePathEndPath()
	}
	e.SetCSel(41)
	e.SetCReg(0, false, ivg.PaletteIndexColor(k0))
	bb, err := e.Bytes()
	if err != nil {
		c.Violate("harness/encoder-error", map[string]interface{}{"error": err.Error()})
		return
	}
	b := append([]byte(nil), bb...)
	orig := append([]byte(nil), b...)
	// the options, and the reference palette
	meta, merr := ref.ParseMeta(b)
	if merr != nil {
		c.Violate("harness/metadata", map[string]interface{}{"bytes": hx(b)})
		return
	}
	want := meta.Palette
	wantVB := meta.ViewBox
	var opts []decode.DecodeOption
	var odesc []string
	nOpts := r.Pick(0, 1, 1, 2, 2, 3, 4, 6)
	sawOverride := false
	var userPals [][64]color.RGBA
	for i := 0; i < nOpts; i++ {
		if r.Chance(1, 3) {
			var p [64]color.RGBA
			for k := range p {
				switch r.Intn(6) {
				case 0:
					p[k] = gen.AnyRGBA(r)
				default:
					p[k] = gen.Premul(r)
				}
			}
			if r.Chance(1, 4) {
				p[r.Intn(64)] = color.RGBA{0x02, 0x14, 0x94, 0x00} // gradient-looking: 2 stops, CBASE 20, NBASE 20
			}
			// replacements that equal a palette the library knows: the default
			// palette (64 opaque blacks), all transparent, the file's own
			switch r.Intn(16) {
			case 0, 1:
				p = ivg.DefaultPalette
				c.Count("replacement_equals_default_palette", 1)
			case 2:
				p = [64]color.RGBA{}
			case 3:
				p = filePal
			}
			userPals = append(userPals, p)
			opts = append(opts, decode.WithPalette(p))
			odesc = append(odesc, "WithPalette(...)")
			want = p
			c.Count("with_palette_options", 1)
			if sawOverride {
				c.Count("replacement_after_override", 1)
			}
		} else if r.Chance(1, 6) {
			// an option written by the caller (DecodeOption is an exported function
			// type): its entries are user-supplied entries like any other
			i := r.Intn(64)
			k := gen.AnyRGBA(r)
			if r.Chance(1, 3) {
				k = color.RGBA{0x02, 0x14, 0x94, 0x00}
			}
			if r.Chance(1, 4) {
				// such an option receives the whole Metadata: it may also place the
				// graphic's viewBox elsewhere (what Reset delivers is the Metadata after
				// all options)
				vb := ivg.ViewBox{MinX: float32(r.Range(-50, 0)), MinY: float32(r.Range(-50, 0)), MaxX: float32(r.Range(1, 70)), MaxY: float32(r.Range(1, 70))}
				opts = append(opts, decode.DecodeOption(func(m *ivg.Metadata) { m.Palette[i] = k; m.ViewBox = vb }))
				odesc = append(odesc, fmt.Sprintf("func(m *ivg.Metadata) { m.Palette[%d] = %#v; m.ViewBox = %v }", i, k, vb))
				wantVB = vb
				c.Count("options_written_by_the_caller_that_move_the_viewbox", 1)
			} else {
				opts = append(opts, decode.DecodeOption(func(m *ivg.Metadata) { m.Palette[i] = k }))
				odesc = append(odesc, fmt.Sprintf("func(m *ivg.Metadata) { m.Palette[%d] = %#v }", i, k))
			}
			want[i] = k
			sawOverride = true
			c.Count("options_written_by_the_caller", 1)
		} else {
			i := r.Intn(64)
			var col color.Color
			switch r.Intn(5) {
			case 0:
				col = gen.AnyRGBA(r) // color.RGBA, possibly nonsensical
			case 1:
				col = color.RGBA{0x02, 0x14, 0x94, 0x00}
			case 2:
				col = gen.RawColor{R: uint32(r.Intn(0x10000)), G: uint32(r.Intn(0x10000)), B: uint32(r.Intn(0x10000)), A: uint32(r.Intn(0x10000))}
			default:
				col = gen.AnyColorModel(r)
			}
			opts = append(opts, decode.WithColorAt(i, col))
			odesc = append(odesc, fmt.Sprintf("WithColorAt(%d, %T%v)", i, col, col))
			if rgba, ok := col.(color.RGBA); ok {
				want[i] = rgba
			} else {
				want[i] = gen.To8(col)
				c.Count("non_rgba_color_models", 1)
			}
			sawOverride = true
			c.Count("with_color_at_options", 1)
		}
	}
	for i := range want {
		k := want[i]
		if k.R > k.A || k.G > k.A || k.B > k.A {
			if k.A == 0 && k.B >= 0x80 {
				c.Count("gradient_looking_user_colors", 1)
			}
			c.Count("nonsensical_user_colors", 1)
			want[i] = color.RGBA{0, 0, 0, 0xff}
		}
	}
	userCopies := append([][64]color.RGBA(nil), userPals...)
	h := run.Hash64(run.HashBytes(b), run.HashString(fmt.Sprint(odesc)))
	c.Eval(h, nOpts > 0)
	c.Count("decodes", 1)
	desc := func(extra map[string]interface{}) interface{} {
		d := map[string]interface{}{"bytes": hx(b), "options": odesc}
		for k, v := range extra {
			d[k] = v
		}
		return d
	}
	if c.WantSample() && nOpts > 0 {
		c.Sample(desc(nil))
	}
	if r.Chance(1, 4) {
		// The process has a past: the decode before this one was given a whole
		// palette of its own and then failed (the same graphic followed by the
		// beginning of a path that the input ends in). Nothing of that call may
		// show in this one.
		c.Count("after_a_failed_decode_with_a_palette_option", 1)
		var vivid [64]color.RGBA
		for i := range vivid {
			vivid[i] = color.RGBA{uint8(0x40 + i), 0x20, uint8(i), 0xff}
		}
		bad := append(append([]byte(nil), b...), 0xc0, 0x80)
		var failed error
		if !c.Guard("Decode(failing, with a palette)", func() interface{} { return desc(nil) }, func() {
			failed = decode.Decode(&rec.Dest{}, bad, decode.WithPalette(vivid))
		}) {
			return
		}
		if failed == nil {
			c.Count("the_decode_meant_to_fail_succeeded", 1)
		}
	}
	rect := image.Rect(2, 3, 2+r.Range(4, 40), 3+r.Range(4, 40))
	rz := &rec.Raster{}
	var z render.Renderer
	z.SetRasterizer(rz, rect)
	d := &rec.Dest{Tee: &z}
	if r.Bool() {
		// The Renderer is not fresh: it has just decoded, with the same options
		// (hence the same effective palette), a graphic that overwrote every
		// colour register and moved the selectors.
		c.Count("renderer_reused_after_same_palette", 1)
		var e2 encode.Encoder
		e2.Reset(ivg.DefaultViewBox, filePal)
		for i := 0; i < 64; i++ {
			e2.SetCSel(uint8(i))
			e2.SetCReg(0, false, ivg.RGBAColor(color.RGBA{0x10, uint8(i), 0x30, 0xee}))
		}
		e2.SetNSel(33)
		e2.SetLOD(1, 2)
		if db, err := e2.Bytes(); err == nil {
			db = append([]byte(nil), db...)
			if !c.Guard("Decode(dirtying graphic)", func() interface{} { return desc(nil) }, func() { decode.Decode(&z, db, opts...) }) {
				return
			}
		}
		if r.Bool() {
			// and then this very graphic, under options that give entry k0 another colour
			c.Count("same_graphic_decoded_before_with_other_options", 1)
			other := append(append([]decode.DecodeOption(nil), opts...), decode.WithColorAt(int(k0), color.RGBA{0x12, 0xee, 0x34, 0xff}))
			if !c.Guard("Decode(same graphic, other options)", func() interface{} { return desc(nil) }, func() { decode.Decode(&z, b, other...) }) {
				return
			}
		}
		rz.ResetLog()
	}
	if len(opts) >= 2 && r.Chance(1, 2) {
		// The options live in a table with spare capacity of which an earlier
		// decode used a prefix view: the callee must treat the slice it is
		// handed as read-only (an append to it would overwrite the caller's
		// next option).
		c.Count("option_table_prefix_used_first", 1)
		tbl := make([]decode.DecodeOption, len(opts), len(opts)+4)
		copy(tbl, opts)
		k := r.Range(1, len(opts)-1)
		if !c.Guard("Decode(prefix of the option table)", func() interface{} { return desc(nil) }, func() { decode.Decode(&rec.Dest{}, b, tbl[:k]...) }) {
			return
		}
		opts = tbl
	}
	var derr error
	if !c.Guard("Decode", func() interface{} { return desc(nil) }, func() { derr = decode.Decode(d, b, opts...) }) {
		return
	}
	if derr != nil || len(d.Ops) == 0 || d.Ops[0].K != rec.KReset {
		c.Violate("valid-graphic-rejected", desc(map[string]interface{}{"error": errStr(derr)}))
		return
	}
	if !bytes.Equal(b, orig) {
		c.Violate("input-bytes-modified", desc(nil))
	}
	for i := range userPals {
		if userPals[i] != userCopies[i] {
			c.Violate("caller-palette-modified", desc(nil))
		}
	}
	got := *d.Ops[0].Pal
	if got != want {
		i := 0
		for ; got[i] == want[i]; i++ {
		}
		sig := "reset-palette"
		k := got[i]
		if k.R > k.A || k.G > k.A || k.B > k.A {
			sig = "reset-palette/user-colour-not-sanitised"
		}
		c.Violate(sig, desc(map[string]interface{}{"index": i, "got": fmt.Sprint(got[i]), "want": fmt.Sprint(want[i])}))
		return
	}
	if d.Ops[0].VB != wantVB {
		c.Violate("reset-viewbox-is-not-the-metadata-after-the-options", desc(map[string]interface{}{"got": fmt.Sprint(d.Ops[0].VB), "want": fmt.Sprint(wantVB)}))
		return
	}
	// paints: the reference machine seeded with the reference palette
	cfg := c04Cfg{vb: d.Ops[0].VB, pal: want, rect: rect}
	vm := ref.NewVM(cfg.vb, cfg.pal)
	c04Replay(c, rz, vm, cfg, d.Ops[1:], b)
	// and decoding without options must still deliver the suggested palette
	if idx%8 == 0 {
		ops0, _ := decodeRec(b)
		if len(ops0) == 0 || *ops0[0].Pal != meta.Palette {
			c.Violate("option-leaked-into-later-decode", desc(nil))
		}
	}
}
