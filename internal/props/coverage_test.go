package props

import (
	"os"
	"strconv"
	"testing"

	"ivgverif/internal/run"
)

// TestLibraryCoverage runs a slice of every sub-monitor in-process so that
// `go test -coverpkg=github.com/reactivego/ivg/...` can report which
// statements of the library the workloads reach (tools/coverage.sh). It is a
// development aid, not a check.
func TestLibraryCoverage(t *testing.T) {
	if os.Getenv("VERIF_COVERAGE") == "" {
		t.Skip("set VERIF_COVERAGE=<cases per sub-monitor> to run")
	}
	k, _ := strconv.Atoi(os.Getenv("VERIF_COVERAGE"))
	if k <= 0 {
		k = 200
	}
	for _, id := range run.IDs() {
		p := run.Lookup(id)
		for _, s := range p.Subs {
			n := s.N("quick")
			if n == 0 {
				n = s.N("thorough")
			}
			step := uint64(1)
			if n > uint64(k) {
				step = n / uint64(k)
			}
			viol := int64(0)
			for idx := uint64(0); idx < n; idx += step {
				viol += run.RunOne(p, s, 1, "quick", idx, false).NViol
			}
			if viol != 0 {
				t.Errorf("%s/%s: %d violations", id, s.Name, viol)
			}
		}
	}
}
