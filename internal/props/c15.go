package props

import (
	"fmt"
	"image"
	"image/color"
	"image/draw"
	"math"
	"sort"

	"github.com/reactivego/ivg"
	"github.com/reactivego/ivg/raster/vec"
	"github.com/reactivego/ivg/render"

	"ivgverif/internal/gen"
	"ivgverif/internal/rec"
	"ivgverif/internal/ref"
	"ivgverif/internal/run"
)

// C15 — gradient paint: premultiplied interpolation, spread modes, geometry.
// Monitor: the image the Renderer hands to Draw is probed with At(x,y); each
// colour must lie in the exact envelope of the float64 reference over the
// offset uncertainty induced by the renderer's float32 scale, and be a valid
// premultiplied colour.

func init() {
	run.Register(&run.Prop{
		ID:    "C15",
		Title: "Gradient paint: premultiplied interpolation, spread modes, geometry",
		Rule:  "every case is one gradient (2..58 strictly increasing stops incl. transparent ones, all four spreads, both shapes, PRNG or dyadic matrix, PRNG or identity viewBox-to-rectangle map) set up on a real Renderer and probed at 64 pixels: rectangle corners and centre, pixels outside the rectangle, and (dyadic configurations) pixels whose offset is exactly an integer or a stop offset; an evaluation is one probe; non-trivial = the probe's offset is outside (0,1) or within 1e-9 of a stop; distinctness by hash of gradient and pixel",
		Assumptions: []string{
			"reference ref.Grad (float64): pixel centre (x+0.5,y+0.5), rectangle-relative coordinates, spread functions, piecewise-linear premultiplied interpolation",
			"offset uncertainty delta = 4*2^-24*kappa (kappa = sum of the magnitudes of the terms forming the offset); exact (delta = 0) for dyadic configurations; colours accepted within the exact envelope over [o-delta,o+delta] widened by 2 sixteen-bit units (the renderer truncates)",
		},
		Subs: []*run.Sub{
			{Name: "probes", N: func(t string) uint64 {
				if t == "thorough" {
					return 20_000_000
				}
				return 150_000
			}, Run: c15Gradient,
				Min: map[string]int64{"gradients": 20000, "probes": 1000000, "exact_integer_offsets": 2000, "exact_odd_integer_reflect": 100, "exact_stop_offsets": 1000, "negative_offsets": 50000, "offsets_above_1": 50000, "offsets_inside_0_1": 200000,
					"spread_none": 10000, "spread_pad": 10000, "spread_reflect": 10000, "spread_repeat": 10000, "radial": 100000, "linear": 100000, "transparent_outside": 1000, "dyadic_gradients": 5000, "far_offset_gradients": 3000, "offsets_beyond_2^63": 5000, "offsets_a_hair_outside_0_1": 5000, "gradients_after_another_gradient": 20000, "same_gradient_after_retargeting": 20000, "gradient_after_an_unpainted_path": 20000}},
			{Name: "pixels", N: func(t string) uint64 {
				if t == "thorough" {
					return 1_000_000
				}
				return 10_000
			}, Run: c15Pixels,
				Rule: "a full-rectangle path filled with a gradient is rasterised by raster/vec into an RGBA image at a non-zero rectangle origin; interior pixels must equal the reference colour at the rectangle-relative pixel centre (8-bit, +-2)",
				Min:  map[string]int64{"pixel_checks": 50000, "rectangle_overhangs_image_top_left": 1000, "paths_covering_half_the_rectangle": 1000}},
			{Name: "gradient-type", N: func(t string) uint64 {
				if t == "thorough" {
					return 5_000_000
				}
				return 100_000
			}, Run: c15Type,
				Rule: "the exported paint type used directly: render.Gradient.Init against the same gradient assembled from render.AppendRanges called piecewise (slices with and without spare capacity), and a Gradient value re-initialised after another stop list; the ranges must be those of the stop list and At must agree at PRNG pixels",
				Min:  map[string]int64{"gradients": 50000, "piecewise_without_spare_capacity": 10000, "points_compared": 500000, "points_far_from_the_origin": 1000, "points_exactly_on_a_stop": 100000}},
		},
	})
}

// c15Type exercises render.Gradient, render.AppendRanges and render.MakeRange
// as a caller of package render would.
func c15Type(c *run.Ctx, idx uint64) {
	r := c.Rng(idx)
	n := r.Pick(2, 2, 3, 4, 5, 8, 12, 58)
	stops := make([]render.Stop, n)
	off := 0.0
	for i := range stops {
		off += r.Uniform(0.001, 1/float64(n+1))
		k := gen.Premul(r)
		stops[i] = render.Stop{Offset: off, RGBA64: color.RGBA64{uint16(k.R) * 257, uint16(k.G) * 257, uint16(k.B) * 257, uint16(k.A) * 257}}
	}
	shape, spread := render.Shape(r.Intn(2)), render.Spread(r.Intn(4))
	m := render.Aff3{r.Uniform(-0.1, 0.1), r.Uniform(-0.1, 0.1), r.Uniform(-1, 1), r.Uniform(-0.1, 0.1), r.Uniform(-0.1, 0.1), r.Uniform(-1, 1)}
	desc := func(extra map[string]interface{}) interface{} {
		d := map[string]interface{}{"stops": fmt.Sprint(stops), "shape": int(shape), "spread": int(spread), "matrix": fmt.Sprint(m)}
		for k, v := range extra {
			d[k] = v
		}
		return d
	}
	c.Count("gradients", 1)
	c.Eval(run.Hash64(idx, uint64(n)), true)
	var g1, g2, g3 render.Gradient
	ok := c.Guard("Gradient", func() interface{} { return desc(nil) }, func() {
		g1.Init(shape, spread, m, stops)
		// piecewise: two or three calls, the intermediate slice with or without spare capacity
		// (the first piece needs two stops: a range list without ranges has no final stop to continue from)
		k := n
		if n >= 3 {
			k = r.Range(2, n-1)
		}
		a := render.AppendRanges(nil, stops[:k])
		if r.Bool() {
			a = a[:len(a):len(a)]
			c.Count("piecewise_without_spare_capacity", 1)
		} else {
			a = append(make([]render.Range, 0, len(a)+n+3), a...)
		}
		switch {
		case k == n:
		case n-k >= 2 && r.Bool():
			j := r.Range(k+1, n-1)
			a = render.AppendRanges(a, stops[k:j])
			a = a[:len(a):len(a)]
			a = render.AppendRanges(a, stops[j:])
		default:
			a = render.AppendRanges(a, stops[k:])
		}
		g2 = render.Gradient{Shape: shape, Spread: spread, Pix2Grad: m, Ranges: a, First: stops[0].RGBA64, Last: stops[n-1].RGBA64}
		// a Gradient value that held another gradient before
		other := []render.Stop{{Offset: 0.2, RGBA64: color.RGBA64{A: 0xffff}}, {Offset: 0.3, RGBA64: color.RGBA64{R: 0x8080, A: 0x8080}}, {Offset: 0.9, RGBA64: color.RGBA64{}}}
		g3.Init(render.ShapeRadial, render.SpreadReflect, render.Aff3{1, 0, 0, 0, 1, 0}, other[:r.Range(2, 3)])
		g3.Init(shape, spread, m, stops)
	})
	if !ok {
		return
	}
	// the ranges are those of the stop list
	for name, g := range map[string]*render.Gradient{"Init": &g1, "piecewise AppendRanges": &g2, "Init on a used Gradient": &g3} {
		if len(g.Ranges) != n-1 {
			c.Violate("gradient-type/range-count", desc(map[string]interface{}{"built_by": name, "ranges": len(g.Ranges)}))
			return
		}
		for i := range g.Ranges {
			if g.Ranges[i] != render.MakeRange(stops[i], stops[i+1]) {
				c.Violate("gradient-type/range", desc(map[string]interface{}{"built_by": name, "index": i, "range": fmt.Sprintf("%+v", g.Ranges[i])}))
				return
			}
		}
		if g.First != stops[0].RGBA64 || g.Last != stops[n-1].RGBA64 {
			c.Violate("gradient-type/first-last", desc(map[string]interface{}{"built_by": name}))
			return
		}
	}
	// "evaluated at any pixel": far from the origin a padded linear gradient shows
	// its first or its last colour, exactly
	if spread == render.SpreadPad && shape == render.ShapeLinear {
		for _, x := range []int{-(1 << 31), -2_000_000_000, -1_000_000_001, 1_000_000_000, 2_000_000_000, 1<<31 + 5} {
			o := m[0]*(float64(x)+0.5) + m[1]*0.5 + m[2]
			if math.Abs(o) < 10 {
				continue
			}
			want := stops[0].RGBA64
			if o > 0 {
				want = stops[n-1].RGBA64
			}
			c.Count("points_far_from_the_origin", 1)
			if got := g1.At(x, 0); got != color.Color(want) {
				c.Violate("gradient-type/far-point", desc(map[string]interface{}{"pixel": []int{x, 0}, "offset": o, "got": fmt.Sprint(got), "want": fmt.Sprint(want)}))
				return
			}
		}
	}
	// "at a stop's offset the colour is that stop's colour": a dyadic map puts
	// pixel x exactly on offset x/64, and the stops sit on 64ths (widths such as
	// 49/64, whose product with their own reciprocal is not 1)
	{
		var ks []int
		for k := 0; k <= 64; k++ {
			if r.Chance(1, 12) {
				ks = append(ks, k)
			}
		}
		if len(ks) >= 2 {
			es := make([]render.Stop, len(ks))
			for i, k := range ks {
				c8 := gen.Premul(r)
				es[i] = render.Stop{Offset: float64(k) / 64, RGBA64: color.RGBA64{uint16(c8.R) * 257, uint16(c8.G) * 257, uint16(c8.B) * 257, uint16(c8.A) * 257}}
			}
			var ge render.Gradient
			ge.Init(render.ShapeLinear, render.Spread(r.Intn(4)), render.Aff3{1.0 / 64, 0, -1.0 / 128, 0, 0, 0}, es)
			for i, k := range ks {
				c.Count("points_exactly_on_a_stop", 1)
				if got := ge.At(k, r.Range(-5, 5)); got != color.Color(es[i].RGBA64) {
					c.Violate("gradient-type/colour-at-a-stop-offset", desc(map[string]interface{}{"exact_stops": fmt.Sprint(es), "pixel_x": k, "got": fmt.Sprint(got), "want": fmt.Sprint(es[i].RGBA64)}))
					return
				}
			}
		}
	}
	for i := 0; i < 12; i++ {
		x, y := r.Range(-40, 40), r.Range(-40, 40)
		a, b, d := g1.At(x, y), g2.At(x, y), g3.At(x, y)
		c.Count("points_compared", 1)
		if a != b || a != d {
			c.Violate("gradient-type/At-differs", desc(map[string]interface{}{"pixel": []int{x, y}, "Init": fmt.Sprint(a), "piecewise": fmt.Sprint(b), "reinitialised": fmt.Sprint(d)}))
			return
		}
	}
}

type c15Grad struct {
	vb     ivg.ViewBox
	rect   image.Rectangle
	m      [6]float32
	g      ref.Grad
	cols   []color.RGBA
	offs   []float32
	dyadic bool
	far    bool
	// hairline: offsets within 2^-20 of 0 or 1 without being 0 or 1
	hairline bool
	// the register bases the last setup used; with sameBases the next setup uses
	// them again (the gradient then has the very same descriptor value)
	cbase, nbase int
	sameBases    bool
}

func c15Gen(r *run.Rng, small bool) *c15Grad {
	q := &c15Grad{}
	q.dyadic = r.Chance(1, 3)
	w, h := r.Range(1, 300), r.Range(1, 300)
	if small {
		w, h = r.Range(2, 40), r.Range(2, 40)
	}
	q.rect = image.Rect(0, 0, w, h).Add(image.Pt(r.Range(-30, 50), r.Range(-30, 50))) // origins of either sign
	if q.dyadic {
		q.vb = ivg.ViewBox{MinX: 0, MinY: 0, MaxX: float32(w), MaxY: float32(h)}
	} else {
		q.vb.MinX, q.vb.MinY = float32(r.Uniform(-80, 20)), float32(r.Uniform(-80, 20))
		q.vb.MaxX, q.vb.MaxY = q.vb.MinX+float32(r.Uniform(1, 150)), q.vb.MinY+float32(r.Uniform(1, 150))
	}
	n := r.Pick(2, 2, 3, 3, 4, 5, 8, 16, 58, r.Range(2, 58))
	set := map[float32]bool{}
	for len(set) < n {
		var f float32
		if q.dyadic {
			f = float32(r.Intn(65)) / 64
		} else {
			switch r.Intn(8) {
			case 0:
				f = 0
			case 1:
				f = 1
			default:
				f = float32(r.F64())
			}
		}
		set[f] = true
	}
	for f := range set {
		q.offs = append(q.offs, f)
	}
	sort.Slice(q.offs, func(i, j int) bool { return q.offs[i] < q.offs[j] })
	for range q.offs {
		c := gen.Premul(r)
		if r.Chance(1, 6) {
			c = color.RGBA{}
		}
		q.cols = append(q.cols, c)
	}
	q.g.Shape, q.g.Spread = r.Intn(2), r.Intn(4)
	for i := range q.offs {
		q.g.Stops = append(q.g.Stops, ref.GStop{Off: float64(q.offs[i]), C: ref.Stop16(q.cols[i])})
	}
	if q.dyadic {
		k8 := func() float32 { return float32(r.Range(-4, 4)) / 8 }
		k16 := func() float32 { return float32(r.Range(-64, 64)) / 16 }
		q.m = [6]float32{k8(), k8(), k16(), k8(), k8(), k16()}
		if r.Chance(1, 2) {
			q.m[1] = 0 // offset depends on x only: whole columns of exact values
		}
		if q.g.Shape == 1 && r.Chance(1, 2) {
			q.m[3], q.m[4], q.m[5] = 0, 0, 0 // radial degenerating to |gx|: exact integers reachable
		}
	} else {
		vw, vh := float64(q.vb.MaxX-q.vb.MinX), float64(q.vb.MaxY-q.vb.MinY)
		span := r.LogUniform(0.3, 14) // offset variation across the viewBox
		th := r.Uniform(0, 2*math.Pi)
		q.m[0], q.m[1] = float32(span*math.Cos(th)/vw), float32(span*math.Sin(th)/vh)
		q.m[3], q.m[4] = float32(span*math.Cos(th+r.Uniform(0.5, 2.5))/vw), float32(span*math.Sin(th+r.Uniform(0.5, 2.5))/vh)
		cx, cy := float64(q.vb.MinX)+vw*r.F64(), float64(q.vb.MinY)+vh*r.F64()
		q.m[2] = float32(r.Uniform(-3, 3) - float64(q.m[0])*cx - float64(q.m[1])*cy)
		q.m[5] = float32(r.Uniform(-3, 3) - float64(q.m[3])*cx - float64(q.m[4])*cy)
	}
	if q.dyadic && r.Chance(1, 10) {
		// offsets a hair outside [0,1] (or inside): the gradient varies by 2^-30..2^-45
		// per pixel around exactly 0 or exactly 1; every term is a power of two, so
		// the offsets are exact in float64
		e := r.Range(30, 45)
		q.m = [6]float32{float32(math.Ldexp(float64(r.Pick(-1, 1)), -e)), 0, float32(r.Intn(2)), 0, 0, 0}
		if r.Bool() {
			q.m[0], q.m[1] = 0, q.m[0]
		}
		q.hairline = true
	} else if r.Chance(1, 6) {
		// offsets far outside [0,1]: hundreds to millions of periods away
		q.far = true
		// (for exact matrices also beyond 2^53 and beyond 2^63, where every offset
		// is an even whole number of periods)
		f := float32(math.Ldexp(1, r.Pick(r.Range(6, 20), r.Range(6, 20), r.Range(21, 62), r.Range(63, 100))))
		if !q.dyadic {
			f = float32(r.LogUniform(1e2, 1e6))
		}
		for i := range q.m {
			q.m[i] *= f
		}
	}
	return q
}

// setup drives the Renderer so that the next path is filled with the
// gradient.
func (q *c15Grad) setup(c *run.Ctx, z *render.Renderer, r *run.Rng) {
	n := len(q.offs)
	cbase, nbase := r.Intn(64), r.Intn(64)
	if q.sameBases {
		cbase, nbase = q.cbase, q.nbase
	}
	q.cbase, q.nbase = cbase, nbase
	// One gradient in five takes its stop colours from where a new graphic finds
	// them: the custom palette the colour registers are initialised from. The
	// Renderer is Reset with such a palette and the stop registers (all but at most
	// one) are never written.
	fromPalette, keep := r.Chance(1, 5) && !q.sameBases, -1
	if fromPalette {
		pal := ivg.DefaultPalette
		for i, c := range q.cols {
			pal[(cbase+i)&63] = c
		}
		if r.Bool() {
			keep = (cbase + r.Intn(n)) & 63
			pal[keep] = color.RGBA{0x11, 0x22, 0x33, 0x44}
		}
		z.Reset(q.vb, pal)
		c.Count("stop_colours_left_as_initialised_from_the_palette", 1)
	}
	z.SetNSel(uint8(nbase))
	for i, v := range q.m {
		z.SetNReg(uint8(6-i), false, v)
	}
	for _, o := range q.offs {
		z.SetNReg(0, true, o)
	}
	z.SetCSel(uint8(cbase))
	for i, c := range q.cols {
		if fromPalette && (cbase+i)&63 != keep {
			// this stop colour is the one the register was initialised with
			z.SetCSel(uint8((cbase + i + 1) & 63))
			continue
		}
		z.SetCReg(0, true, ivg.RGBAColor(c))
	}
	sel := (cbase + n + r.Intn(64-n)) & 63 // outside the stop range
	z.SetCSel(uint8(sel))
	z.SetCReg(0, false, ivg.RGBAColor(gen.MakeGradientValue(cbase, nbase, q.g.Shape, q.g.Spread, n)))
}

// offsetAt returns the reference offset of rectangle-relative pixel (x,y) and
// the magnitude kappa of the terms forming it.
func (q *c15Grad) offsetAt(x, y int) (o, kappa float64) {
	sx := float64(q.rect.Dx()) / (float64(q.vb.MaxX) - float64(q.vb.MinX))
	sy := float64(q.rect.Dy()) / (float64(q.vb.MaxY) - float64(q.vb.MinY))
	px, py := float64(x)+0.5, float64(y)+0.5
	vx, vy := px/sx+float64(q.vb.MinX), py/sy+float64(q.vb.MinY)
	m := func(i int) float64 { return float64(q.m[i]) }
	gx := m(0)*vx + m(1)*vy + m(2)
	kappa = math.Abs(m(0))*(math.Abs(px/sx)+math.Abs(float64(q.vb.MinX))) + math.Abs(m(1))*(math.Abs(py/sy)+math.Abs(float64(q.vb.MinY))) + math.Abs(m(2))
	if q.g.Shape == 0 {
		return gx, kappa
	}
	gy := m(3)*vx + m(4)*vy + m(5)
	kappa += math.Abs(m(3))*(math.Abs(px/sx)+math.Abs(float64(q.vb.MinX))) + math.Abs(m(4))*(math.Abs(py/sy)+math.Abs(float64(q.vb.MinY))) + math.Abs(m(5))
	return math.Sqrt(gx*gx + gy*gy), kappa
}

func (q *c15Grad) desc() map[string]interface{} {
	return map[string]interface{}{"viewBox": fmt.Sprint(q.vb), "rect": q.rect.String(), "matrix": fmt.Sprint(q.m), "shape": q.g.Shape, "spread": q.g.Spread,
		"stop_offsets": fmt.Sprint(q.offs), "stop_colours": fmt.Sprint(q.cols), "dyadic": q.dyadic}
}

// judge compares a returned colour with the reference envelope.
func (q *c15Grad) judge(c *run.Ctx, x, y int, got color.RGBA64, slack float64, what string) bool {
	o, kappa := q.offsetAt(x, y)
	delta := 4 * math.Ldexp(1, -24) * kappa
	if q.dyadic {
		delta = 0
	}
	lo, hi := q.g.Envelope(o, delta)
	g4 := [4]float64{float64(got.R), float64(got.G), float64(got.B), float64(got.A)}
	if got.R > got.A || got.G > got.A || got.B > got.A {
		d := q.desc()
		d["pixel"], d["got"], d["offset"] = []int{x, y}, fmt.Sprint(got), o
		c.Violate(what+"/not-premultiplied", d)
		return false
	}
	for k := 0; k < 4; k++ {
		if g4[k] < lo[k]-slack || g4[k] > hi[k]+slack {
			d := q.desc()
			d["pixel"], d["got"], d["offset"], d["delta"] = []int{x, y}, fmt.Sprint(got), o, delta
			d["expected_min"], d["expected_max"] = lo, hi
			so, vis := ref.SpreadOffset(q.g.Spread, o)
			d["spread_offset"], d["visible"] = so, vis
			sig := what + "/colour"
			switch {
			case o == math.Floor(o) && q.dyadic:
				sig += "/at-integer-offset"
			case o < 0 || o > 1:
				sig += "/outside-0-1/spread-" + []string{"none", "pad", "reflect", "repeat"}[q.g.Spread]
			}
			c.Violate(sig, d)
			return false
		}
	}
	return true
}

// c15Probes chooses the pixels at which a gradient is probed.
func c15Probes(q *c15Grad, r *run.Rng) []image.Point {
	w, h := q.rect.Dx(), q.rect.Dy()
	pts := []image.Point{{0, 0}, {w - 1, 0}, {0, h - 1}, {w - 1, h - 1}, {w / 2, h / 2}, {-1, -1}, {w, h}, {-7, h + 5}}
	if q.dyadic {
		// pixels whose offset is exactly an integer or a stop offset
		found := 0
		for tries := 0; tries < 6 && found < 24; tries++ {
			y := r.Range(-10, h+10)
			for x := -60; x < w+60 && found < 24; x++ {
				o, _ := q.offsetAt(x, y)
				hit := o == math.Floor(o)
				if !hit && o > 0 && o < 1 {
					for _, s := range q.offs {
						if float64(s) == o {
							hit = true
						}
					}
				}
				if hit {
					pts = append(pts, image.Pt(x, y))
					found++
				}
			}
		}
	}
	for len(pts) < 64 {
		p := image.Pt(r.Range(-10, w+10), r.Range(-10, h+10))
		if len(pts)%2 == 0 {
			// every other probe: prefer a pixel whose offset is inside [0,1]
			for try := 0; try < 12; try++ {
				if o, _ := q.offsetAt(p.X, p.Y); o >= 0 && o <= 1 {
					break
				}
				p = image.Pt(r.Range(-10, w+10), r.Range(-10, h+10))
			}
		}
		pts = append(pts, p)
	}
	return pts
}

// c15Like generates another gradient for the same viewBox and rectangle.
func c15Like(r *run.Rng, base *c15Grad) *c15Grad {
	for {
		q := c15Gen(r, false)
		if q.dyadic != base.dyadic {
			continue
		}
		if q.dyadic {
			q.vb, q.rect = base.vb, base.rect
			return q
		}
		// the matrix was generated for q's own viewBox: move it to base's by
		// composing with the affine map base.vb -> q.vb
		ax := (float64(q.vb.MaxX) - float64(q.vb.MinX)) / (float64(base.vb.MaxX) - float64(base.vb.MinX))
		ay := (float64(q.vb.MaxY) - float64(q.vb.MinY)) / (float64(base.vb.MaxY) - float64(base.vb.MinY))
		bx := float64(q.vb.MinX) - ax*float64(base.vb.MinX)
		by := float64(q.vb.MinY) - ay*float64(base.vb.MinY)
		m := q.m
		for row := 0; row < 6; row += 3 {
			q.m[row+2] = float32(float64(m[row])*bx + float64(m[row+1])*by + float64(m[row+2]))
			q.m[row], q.m[row+1] = float32(float64(m[row])*ax), float32(float64(m[row+1])*ay)
		}
		q.vb, q.rect = base.vb, base.rect
		return q
	}
}

func c15Gradient(c *run.Ctx, idx uint64) {
	r := c.Rng(idx)
	q := c15Gen(r, false)
	rz := &rec.Raster{}
	var z render.Renderer
	z.SetRasterizer(rz, q.rect)
	z.Reset(q.vb, ivg.DefaultPalette)
	// One Renderer paints a sequence of gradients (1..3): the paint object is
	// reused, so anything it remembers from the previous gradient (ranges,
	// caches) must not leak into the next one.
	n := r.Pick(1, 1, 2, 2, 3)
	g0 := q
	for k := 0; k < n; k++ {
		g := q
		if k > 0 && r.Chance(1, 3) {
			// the same gradient in every respect but the stops: same shape, spread,
			// number of stops, registers and geometry - other colours, and other
			// offsets half of the time
			g2 := *g0
			g2.sameBases = true
			g2.cols = make([]color.RGBA, len(g0.cols))
			for i := range g2.cols {
				g2.cols[i] = gen.Premul(r)
			}
			if r.Bool() && !g0.hairline {
				g2.offs = append([]float32(nil), g0.offs...)
				for i := range g2.offs {
					lo, hi := float32(0), float32(1)
					if i > 0 {
						lo = g2.offs[i-1]
					}
					if i+1 < len(g2.offs) {
						hi = g0.offs[i+1]
					}
					if v := (lo + g0.offs[i]) / 2; v > lo && v < hi && (i == 0 || v > g2.offs[i-1]) {
						g2.offs[i] = v
					}
				}
			}
			// the reference gradient is rebuilt from the new stops
			g2.g.Stops = nil
			for i := range g2.offs {
				g2.g.Stops = append(g2.g.Stops, ref.GStop{Off: float64(g2.offs[i]), C: ref.Stop16(g2.cols[i])})
			}
			g = &g2
			c.Count("same_gradient_with_other_stops", 1)
		} else if k > 0 {
			g = c15Like(r, q)
			c.Count("gradients_after_another_gradient", 1)
		}
		if !c15DrawAndJudge(c, &z, rz, g, r, true) {
			return
		}
		g0 = g
		if r.Chance(1, 3) {
			// The Renderer is pointed at a rectangle of another size and the same
			// gradient (no register is written in between) fills another path: the
			// pixel-to-gradient map must follow the new rectangle.
			g2 := *g
			if g.dyadic {
				g2.rect = image.Rectangle{Min: g.rect.Min, Max: g.rect.Min.Add(g.rect.Size().Mul(2))}
			} else {
				g2.rect = image.Rect(0, 0, r.Range(1, 300), r.Range(1, 300)).Add(image.Pt(r.Intn(20), r.Intn(20)))
			}
			c.Count("same_gradient_after_retargeting", 1)
			z.SetRasterizer(rz, g2.rect)
			if !c15DrawAndJudge(c, &z, rz, &g2, r, false) {
				return
			}
			z.SetRasterizer(rz, q.rect)
		}
	}
}

// c15DrawAndJudge sets gradient q up on the Renderer, fills a path with it
// and judges the probes of the paint handed to Draw.
func c15DrawAndJudge(c *run.Ctx, zp *render.Renderer, rz *rec.Raster, q *c15Grad, r *run.Rng, setup bool) bool {
	w, h := q.rect.Dx(), q.rect.Dy()
	pts := c15Probes(q, r)
	rz.ResetLog()
	rz.Probes = pts
	ok := c.Guard("gradient", func() interface{} { return q.desc() }, func() {
		if setup {
			if r.Chance(1, 4) {
				// the path before this one was not painted (transparent colour, a colour
				// that is not premultiplied, or a height outside the level-of-detail range)
				zp.SetCSel(7)
				switch r.Intn(3) {
				case 0:
					zp.SetCReg(0, false, ivg.RGBAColor(color.RGBA{}))
				case 1:
					zp.SetCReg(0, false, ivg.RGBAColor(color.RGBA{0xff, 0, 0, 0x10}))
				default:
					zp.SetCReg(0, false, ivg.RGBAColor(color.RGBA{0, 0x80, 0, 0xff}))
					zp.SetLOD(9000, 9001)
				}
				zp.StartPath(0, q.vb.MinX, q.vb.MinY)
				zp.AbsLineTo(q.vb.MaxX, q.vb.MaxY)
				zp.ClosePathEndPath()
				zp.SetLOD(0, float32(math.Inf(1)))
				c.Count("gradient_after_an_unpainted_path", 1)
			}
			q.setup(c, zp, r)
		}
		zp.StartPath(0, q.vb.MinX, q.vb.MinY)
		zp.AbsLineTo(q.vb.MaxX, q.vb.MinY)
		zp.AbsLineTo(q.vb.MaxX, q.vb.MaxY)
		zp.ClosePathEndPath()
	})
	if !ok {
		return false
	}
	c.Count("gradients", 1)
	if q.dyadic {
		c.Count("dyadic_gradients", 1)
	}
	if q.far {
		c.Count("far_offset_gradients", 1)
	}
	if q.hairline {
		c.Count("gradients_a_hair_off_0_or_1", 1)
	}
	c.Count("spread_"+[]string{"none", "pad", "reflect", "repeat"}[q.g.Spread], 1)
	var paint *rec.Paint
	for i := range rz.Calls {
		if rz.Calls[i].K == rec.RDraw {
			paint = rz.Calls[i].Paint
			if rz.Calls[i].SP != (image.Point{}) || rz.Calls[i].R != q.rect {
				d := q.desc()
				d["draw"] = rz.Calls[i].String()
				c.Violate("draw-alignment", d)
				return false
			}
		}
	}
	if paint == nil || paint.Kind != 1 || len(paint.Probes) != len(pts) {
		d := q.desc()
		d["raster_calls"] = rec.RStrings(clipR(rz.Calls, 8))
		c.Violate("gradient-not-drawn", d)
		return false
	}
	if c.WantSample() {
		c.Sample(q.desc())
	}
	gh := run.Hash64(uint64(w)<<32|uint64(h), uint64(math.Float32bits(q.m[0]))<<32|uint64(math.Float32bits(q.m[2])), uint64(math.Float32bits(q.offs[0]))<<32|uint64(len(q.offs)), uint64(q.g.Shape*4+q.g.Spread))
	for i, p := range pts {
		o, _ := q.offsetAt(p.X, p.Y)
		nearStop := false
		for _, s := range q.offs {
			if math.Abs(float64(s)-o) < 1e-9 {
				nearStop = true
			}
		}
		c.Eval(run.Hash64(gh, uint64(uint32(p.X))<<32|uint64(uint32(p.Y))), o <= 0 || o >= 1 || nearStop)
		c.Count("probes", 1)
		if q.g.Shape == 1 {
			c.Count("radial", 1)
		} else {
			c.Count("linear", 1)
		}
		c.MaxF("largest_offset_magnitude", math.Min(math.Abs(o), 1e300))
		if math.Abs(o) >= 1<<63 {
			c.Count("offsets_beyond_2^63", 1)
		}
		if (o < 0 && o > -1e-6) || (o > 1 && o < 1+1e-6) {
			c.Count("offsets_a_hair_outside_0_1", 1)
		}
		switch {
		case o < 0:
			c.Count("negative_offsets", 1)
		case o > 1:
			c.Count("offsets_above_1", 1)
		default:
			c.Count("offsets_inside_0_1", 1)
		}
		if q.dyadic {
			if o == math.Floor(o) {
				c.Count("exact_integer_offsets", 1)
				if q.g.Spread == 2 && int64(math.Abs(o))%2 == 1 && math.Abs(o) > 1 {
					c.Count("exact_odd_integer_reflect", 1)
				}
			} else if nearStop {
				c.Count("exact_stop_offsets", 1)
			}
		}
		if q.g.Spread == 0 && (o < 0 || o > 1) {
			c.Count("transparent_outside", 1)
		}
		if !q.judge(c, p.X, p.Y, paint.Probes[i], 2, "paint") {
			return false
		}
	}
	return true
}

func c15Pixels(c *run.Ctx, idx uint64) {
	r := c.Rng(idx)
	q := c15Gen(r, true)
	w, h := q.rect.Dx(), q.rect.Dy()
	img := image.NewRGBA(q.rect.Inset(-3).Union(image.Rect(0, 0, 1, 1))) // the image may have negative bounds
	// One time in four the rectangle overhangs the image at the top and/or on the
	// left: the visible part shows the same gradient pixels as it would in a
	// larger image (a gradient-filled rectangle may be partly off-image).
	ox, oy := 0, 0
	if r.Chance(1, 4) {
		ox, oy = r.Intn(q.rect.Dx()), r.Intn(q.rect.Dy())
		if ox == 0 && oy == 0 {
			ox = q.rect.Dx() / 2
		}
		img = image.NewRGBA(image.Rect(q.rect.Min.X+ox, q.rect.Min.Y+oy, q.rect.Max.X+3, q.rect.Max.Y+3))
		c.Count("rectangle_overhangs_image_top_left", 1)
	}
	// In half of the overhanging cases (and a tenth of the others) the path covers
	// the left half of the rectangle only: where the shape ends is then visible, not
	// only which colour it has. The image is prefilled with a sentinel colour.
	half := (ox+oy > 0 && r.Bool()) || r.Chance(1, 10)
	sentinel := color.RGBA{0x12, 0x34, 0x56, 0x78}
	if half {
		c.Count("paths_covering_half_the_rectangle", 1)
		draw.Draw(img, img.Bounds(), image.NewUniform(sentinel), image.Point{}, draw.Src)
	}
	var z render.Renderer
	z.SetRasterizer(&vec.Rasterizer{Dst: img, DrawOp: draw.Src}, q.rect)
	z.Reset(q.vb, ivg.DefaultPalette)
	ok := c.Guard("render", func() interface{} { return q.desc() }, func() {
		q.setup(c, &z, r)
		// a path slightly larger than the viewBox so that every pixel of the rectangle is fully covered
		dx, dy := (q.vb.MaxX-q.vb.MinX)*0.5+1, (q.vb.MaxY-q.vb.MinY)*0.5+1
		right := q.vb.MaxX + dx
		if half {
			right = q.vb.MinX + (q.vb.MaxX-q.vb.MinX)/2
		}
		z.StartPath(0, q.vb.MinX-dx, q.vb.MinY-dy)
		z.AbsLineTo(right, q.vb.MinY-dy)
		z.AbsLineTo(right, q.vb.MaxY+dy)
		z.AbsLineTo(q.vb.MinX-dx, q.vb.MaxY+dy)
		z.ClosePathEndPath()
	})
	if !ok {
		return
	}
	c.Eval(run.Hash64(uint64(w)<<32|uint64(h), uint64(math.Float32bits(q.m[0]))<<32|uint64(math.Float32bits(q.m[2])), uint64(len(q.offs))), true)
	if c.WantSample() {
		c.Sample(q.desc())
	}
	if half {
		// nothing outside the rectangle is touched
		b := img.Bounds()
		for y := b.Min.Y; y < b.Max.Y; y++ {
			for x := b.Min.X; x < b.Max.X; x++ {
				if !(image.Pt(x, y).In(q.rect)) && img.RGBAAt(x, y) != sentinel {
					d := q.desc()
					d["pixel_in_image_coordinates"], d["got_8bit"] = []int{x, y}, fmt.Sprint(img.RGBAAt(x, y))
					c.Violate("pixels/pixel-outside-the-rectangle-modified", d)
					return
				}
			}
		}
	}
	for y := oy; y < h; y++ {
		for x := ox; x < w; x++ {
			if (x+y)%3 != 0 && w*h > 200 {
				continue
			}
			px := img.RGBAAt(q.rect.Min.X+x, q.rect.Min.Y+y)
			if half {
				// two pixels on either side of the path's right edge are not judged; beyond
				// it the Src operator leaves transparent black inside the rectangle
				if x >= w/2-2 && x <= w/2+2 {
					continue
				}
				if x > w/2+2 {
					c.Count("pixel_checks", 1)
					if px != (color.RGBA{}) {
						d := q.desc()
						d["pixel"], d["got_8bit"] = []int{x, y}, fmt.Sprint(px)
						c.Violate("pixels/painted-outside-the-path", d)
						return
					}
					continue
				}
			}
			got := color.RGBA64{uint16(px.R) * 257, uint16(px.G) * 257, uint16(px.B) * 257, uint16(px.A) * 257}
			c.Count("pixel_checks", 1)
			// 8-bit quantisation of the stored pixel: up to 257 below, plus coverage rounding
			o, kappa := q.offsetAt(x, y)
			delta := 4 * math.Ldexp(1, -24) * kappa
			if q.dyadic {
				delta = 0
			}
			lo, hi := q.g.Envelope(o, delta)
			g4 := [4]float64{float64(got.R), float64(got.G), float64(got.B), float64(got.A)}
			for k := 0; k < 4; k++ {
				if g4[k] < lo[k]-2*257 || g4[k] > hi[k]+257 {
					d := q.desc()
					d["pixel"], d["got_8bit"], d["offset"] = []int{x, y}, fmt.Sprint(px), o
					d["expected_min_16bit"], d["expected_max_16bit"] = lo, hi
					c.Violate("pixels/colour", d)
					return
				}
			}
		}
	}
}
