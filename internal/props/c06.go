package props

import (
	"fmt"
	"image"
	"image/color"
	"math"

	"github.com/reactivego/ivg"
	"github.com/reactivego/ivg/decode"
	"github.com/reactivego/ivg/encode"
	"github.com/reactivego/ivg/render"

	"ivgverif/internal/rec"
	"ivgverif/internal/ref"
	"ivgverif/internal/run"
)

// C06 — elliptical arcs end where they should and follow the requested
// ellipse. Monitor: the CubeTo/LineTo calls each arc operation produces on a
// recording rasterizer vs an independent float64 centre parameterisation.

func init() {
	run.Register(&run.Prop{
		ID:    "C06",
		Title: "Elliptical arcs end where they should and follow the requested ellipse",
		Rule:  "every case is one arc operation (radii +-[0.005,1500] incl. zero and negative, any rotation, all four flag combinations, endpoint distance 0.01..150, radii factors {0.3 (scale-up), 0.999, 1.001, 1.5, 10} x half the chord, absolute and relative) under a PRNG viewBox-to-rectangle map with independent x/y scale 0.2..5 and off-origin viewBox; non-trivial = non-degenerate radii and distinct end points; distinctness by hash of the parameters",
		Assumptions: []string{
			"reference ref.ArcToCenter: SVG 1.1 F.6.5/F.6.6 in float64, own implementation",
			"on-ellipse tolerance 1e-3 (a cubic spanning 90 degrees deviates 2.8e-4) plus a float32 conditioning term that grows as 1/chord when the chord is short compared with the radii (the centre is then ill-determined by the end points); sweep extent tolerance 2e-2 rad plus that term; endpoint 1e-5 relative",
			"arcs with |radii check - 1| < max(1e-4, 2e-6 x the magnitudes of pen and end point relative to the radii) (half turn fitting exactly) are excluded from the on-ellipse/extent checks only: centre and flags are ill-conditioned there (an input error eps moves the curve by sqrt(eps) of the radius); outside that band and below 1 the conditioning term carries the factor 1 + 1/sqrt(1/check - 1)",
			"shallow arcs (chord below 5e-3 in unit-circle coordinates, small arc) are also judged in pixels: a point at unit-circle radius r is at least |r-1|*min(radii)*min(scales) px off the ellipse; tolerance 0.02 px + 2e-6 of the pixel magnitudes involved (the unchanged tree stays below 4e-4 px on 8192-px targets for radii up to 1e8)",
		},
		Subs: []*run.Sub{
			{Name: "arcs", N: func(t string) uint64 {
				if t == "thorough" {
					return 150_000_000
				}
				return 1_500_000
			}, Run: c06Arc,
				Min: map[string]int64{"arcs": 100000, "relative": 20000, "absolute": 20000, "scaled_up_radii": 10000, "large_arc": 20000, "sweep_positive": 20000, "sweep_negative": 20000,
					"zero_radius": 5000, "exact_semicircles": 2000, "exact_quarter_circles": 2000, "rotation_whole_quarter_turns": 50000, "rotation_of_many_turns": 50000, "reset_before_setrasterizer": 50000, "rectangle_changed_after_reset": 50000, "renderer_used_for_an_earlier_graphic": 50000, "lattice_mode": 20000, "targets_of_thousands_of_pixels": 30000, "lattice_endpoint_equals_pen_pixels": 5000, "cubics_1": 1000, "cubics_2": 1000, "cubics_3": 1000, "cubics_4": 1000, "negative_radius": 5000, "through_destination_logger": 50000, "last_arc_of_an_encoded_run": 100000, "encoded_run_position_above_16": 30000, "arc_directly_after_other_arcs": 100000, "shallow_arcs_with_a_far_centre": 50000, "shallow_arc_points_judged_in_pixels": 100000, "same_ellipse_with_too_small_radii_earlier_in_the_path": 50000, "degenerate_arc_before_the_arc": 50000}},
		},
	})
}

func c06Arc(c *run.Ctx, idx uint64) {
	r := c.Rng(idx)
	// How the arc reaches the Renderer: by a direct call (most cases), through
	// the public logging wrapper, or as the last arc of a run of arcs that is
	// encoded by the library's Encoder and decoded again. In the last mode every
	// number has its two low mantissa bits clear, so that it survives the
	// 4-byte number form exactly and the oracle below applies unchanged.
	const (
		direct = iota
		logger
		viaBytes
	)
	mode := direct
	switch r.Intn(12) {
	case 0:
		mode = logger
		c.Count("through_destination_logger", 1)
	case 1, 2:
		mode = viaBytes
		c.Count("last_arc_of_an_encoded_run", 1)
	}
	q := func(f float32) float32 {
		if mode == viaBytes {
			return math.Float32frombits(math.Float32bits(f) &^ 3)
		}
		return f
	}
	var vb ivg.ViewBox
	if r.Chance(1, 5) {
		vb = ivg.DefaultViewBox
	} else {
		vb.MinX, vb.MinY = q(float32(r.Uniform(-80, 20))), q(float32(r.Uniform(-80, 20)))
		vb.MaxX, vb.MaxY = q(vb.MinX+float32(r.Uniform(1, 150))), q(vb.MinY+float32(r.Uniform(1, 150)))
	}
	// Lattice mode: integer viewBox bounds, integer scale factors and integer
	// coordinates, so that numbers of *different coordinate spaces* coincide
	// (a pen at pixel (8,16) and an end point at viewBox (8,16)): confusing the
	// spaces only shows on such inputs.
	lattice := r.Chance(1, 8)
	if lattice {
		vb = ivg.ViewBox{MinX: float32(r.Range(-40, 0)), MinY: float32(r.Range(-40, 0))}
		vb.MaxX, vb.MaxY = vb.MinX+float32(r.Range(8, 64)), vb.MinY+float32(r.Range(8, 64))
		c.Count("lattice_mode", 1)
	}
	vw, vh := float64(vb.MaxX)-float64(vb.MinX), float64(vb.MaxY)-float64(vb.MinY)
	// rectangle with independent scales in [0.2, 5]
	w := int(math.Max(1, math.Round(vw*r.LogUniform(0.2, 5))))
	h := int(math.Max(1, math.Round(vh*r.LogUniform(0.2, 5))))
	if r.Chance(1, 6) {
		w, h = r.Range(1, 300), r.Range(1, 300)
	}
	if r.Chance(1, 10) {
		// targets of thousands of pixels (a recording rasterizer has no pixels to pay for)
		w, h = r.Pick(1024, 2048, 4096, 8192, 16384)+r.Range(-1, 1), r.Pick(1024, 2048, 4096, 8192, 16384)+r.Range(-1, 1)
		c.Count("targets_of_thousands_of_pixels", 1)
	}
	if lattice {
		w, h = int(vw)*r.Pick(1, 2, 3, 4, 8), int(vh)*r.Pick(1, 2, 3, 4, 8)
	}
	rect := image.Rect(0, 0, w, h).Add(image.Pt(r.Range(-30, 50), r.Range(-30, 50))) // origins of either sign
	sx, sy := float64(w)/vw, float64(h)/vh
	mx, my := float64(vb.MinX), float64(vb.MinY)

	x0, y0 := float32(r.Uniform(-100, 100)), float32(r.Uniform(-100, 100))
	d := r.LogUniform(0.01, 150)
	ang := r.Uniform(0, 2*math.Pi)
	ex := float32(float64(x0) + d*math.Cos(ang))
	ey := float32(float64(y0) + d*math.Sin(ang))
	if lattice {
		x0, y0 = float32(r.Range(-40, 40)), float32(r.Range(-40, 40))
		ex, ey = float32(r.Range(-40, 40)), float32(r.Range(-40, 40))
		switch r.Intn(4) {
		case 0:
			// the end point's viewBox coordinates equal the pen's pixel coordinates
			ex, ey = float32(sx*(float64(x0)-mx)), float32(sy*(float64(y0)-my))
			c.Count("lattice_endpoint_equals_pen_pixels", 1)
		case 1:
			// the end point's pixel coordinates equal the pen's viewBox coordinates
			ex, ey = float32(float64(x0)/sx+mx), float32(float64(y0)/sy+my)
		}
		if ex == x0 && ey == y0 {
			ex += 3
		}
		d = math.Hypot(float64(ex-x0), float64(ey-y0))
	}
	fac := r.PickF(0.3, 0.999, 1.001, 1.5, 10)
	// shallow: radii thousands to a million times the chord (an almost straight
	// arc whose centre lies far outside the canvas); judged in pixels as well
	shallow := !lattice && r.Chance(1, 12)
	if shallow {
		fac = math.Min(r.LogUniform(1e3, 1e6), 2e7/d)
		c.Count("shallow_arcs_with_a_far_centre", 1)
	}
	rx := float32(d / 2 * fac * r.Uniform(0.5, 1.5))
	ry := float32(d / 2 * fac * r.Uniform(0.5, 1.5))
	if lattice && r.Bool() {
		rx, ry = float32(math.Round(float64(rx))+1), float32(math.Round(float64(ry))+1)
	}
	semicircle := lattice && r.Chance(1, 4)
	if semicircle {
		// radii that span the chord *exactly* (a half turn): the term under
		// the square root of the centre computation is zero up to rounding
		py := [][3]int{{3, 4, 5}, {6, 8, 10}, {5, 12, 13}, {8, 15, 17}, {12, 16, 20}, {7, 24, 25}}[r.Intn(6)]
		sgx, sgy := float32(r.Pick(-1, 1)), float32(r.Pick(-1, 1))
		ex, ey = x0+sgx*float32(py[0]), y0+sgy*float32(py[1])
		if r.Bool() {
			ex, ey = x0+sgx*float32(py[1]), y0+sgy*float32(py[0])
		}
		rx, ry = float32(py[2])/2, float32(py[2])/2
		d = float64(py[2])
		c.Count("exact_semicircles", 1)
	}
	if lattice && !semicircle && r.Chance(1, 4) {
		// exact quarter (or three-quarter) circles: the sweep is a multiple of pi/2,
		// the boundary at which the number of cubic segments changes
		rho := float32(r.Range(1, 20))
		ex, ey = x0+float32(r.Pick(-1, 1))*rho, y0+float32(r.Pick(-1, 1))*rho
		rx, ry = rho, rho
		d = float64(rho) * math.Sqrt2
		c.Count("exact_quarter_circles", 1)
	}
	if r.Chance(1, 4) {
		rx = -rx
		c.Count("negative_radius", 1)
	}
	if r.Chance(1, 8) {
		ry = -ry
	}
	zero := r.Chance(1, 16)
	if zero {
		switch r.Intn(4) {
		case 0:
			rx = 0
		case 1:
			ry = 0
		case 2:
			rx, ry = 0, 0
		default:
			rx = float32(math.Copysign(0, -1))
		}
	}
	rot := float32(r.Uniform(-1, 2))
	if r.Chance(1, 6) {
		rot = float32(r.Range(-9, 9)) / 4 // whole quarter turns of either sign
		c.Count("rotation_whole_quarter_turns", 1)
	} else if r.Chance(1, 12) {
		// hundreds or thousands of turns plus a fraction that float32 still holds exactly
		rot = float32(r.Pick(-4096, -2048, -300, 100, 1000, 4096)) + float32(r.Intn(64))/64
		c.Count("rotation_of_many_turns", 1)
	}
	fa, fs := r.Bool(), r.Bool()
	if shallow {
		fa = false // the small arc (the large one is an almost full turn of the huge ellipse)
	}
	rel := r.Bool()
	x0, y0, ex, ey, rx, ry, rot = q(x0), q(y0), q(ex), q(ey), q(rx), q(ry), q(rot)

	rz := &rec.Raster{}
	var z render.Renderer
	setup := idx % 5
	if mode == viaBytes {
		setup = 2 // Decode calls Reset itself
	}
	switch setup {
	case 4:
		z.SetRasterizer(rz, rect)
		earlierGraphic(&z, vb)
		rz.ResetLog()
		z.Reset(vb, ivg.DefaultPalette)
		c.Count("renderer_used_for_an_earlier_graphic", 1)
	case 0:
		z.Reset(vb, ivg.DefaultPalette)
		z.SetRasterizer(rz, rect)
		c.Count("reset_before_setrasterizer", 1)
	case 1:
		z.SetRasterizer(rz, image.Rect(0, 0, w*2+3, h+5))
		z.Reset(vb, ivg.DefaultPalette)
		z.SetRasterizer(rz, rect)
		c.Count("rectangle_changed_after_reset", 1)
	default:
		z.SetRasterizer(rz, rect)
		z.Reset(vb, ivg.DefaultPalette)
	}
	if mode != viaBytes && r.Chance(1, 6) {
		// The path before this one was not painted (outside the level-of-detail
		// range, or a fully transparent fill) and held arcs of both kinds: whatever
		// the Renderer noted for them must not reach the judged arc.
		c.Count("after_an_unpainted_path_with_arcs", 1)
		if r.Bool() {
			z.SetLOD(9000, 9001)
		} else {
			z.SetCSel(9)
			z.SetCReg(0, false, ivg.RGBAColor(color.RGBA{}))
		}
		z.StartPath(0, vb.MinX, vb.MinY)
		z.RelArcTo(3, 2, 0.1, true, false, 4, 5)
		if r.Bool() {
			z.AbsArcTo(2, 3, 0.2, false, true, vb.MaxX, vb.MaxY)
			z.RelArcTo(1, 1, 0, false, false, -2, 1)
		}
		z.ClosePathEndPath()
		z.SetLOD(0, float32(math.Inf(1)))
		z.SetCSel(0)
		if rz.NMut != 0 {
			c.Violate("activity-for-an-unpainted-path", map[string]interface{}{"calls": rec.RStrings(clipR(rz.Calls, 6))})
			return
		}
	}
	// what precedes the judged arc inside its path
	pre := []rec.Op{{K: rec.KStartPath, F: [6]float32{x0, y0}}}
	if r.Chance(1, 3) && !lattice {
		// move the pen by a relative line first, so that it is not a mapped float32 point
		pre = append(pre, rec.Op{K: rec.KRelLineTo, F: [6]float32{q(float32(r.Uniform(-1, 1))), q(float32(r.Uniform(-1, 1)))}})
	}
	runPos := 1
	if mode == viaBytes {
		// the judged arc is the runPos-th of a run of arcs of its kind (the Encoder
		// writes runs in chunks of at most 16 repetitions)
		runPos = r.Pick(1, 2, 15, 16, 17, 18, 32, 33, 34)
		if runPos > 16 {
			c.Count("encoded_run_position_above_16", 1)
		}
	} else if r.Chance(1, 5) {
		// also by direct calls the arc may directly follow other arcs, some of them
		// degenerate (a zero radius: a straight line)
		runPos = r.Range(2, 4)
		c.Count("arc_directly_after_other_arcs", 1)
	}
	{
		for i := 1; i < runPos; i++ {
			d := rec.Op{K: rec.KAbsArcTo, LargeArc: r.Bool(), Sweep: r.Bool(), F: [6]float32{q(float32(r.Uniform(1, 30))), q(float32(r.Uniform(1, 30))), float32(r.Intn(64)) / 64, q(float32(r.Uniform(-60, 60))), q(float32(r.Uniform(-60, 60)))}} // rotations in 1/64 turns survive the zero-to-one forms exactly (DESIGN 6.4)
			if rel {
				d.K = rec.KRelArcTo
				d.F[3], d.F[4] = q(float32(r.Uniform(-15, 15))), q(float32(r.Uniform(-15, 15)))
			}
			if r.Chance(1, 4) {
				d.F[r.Intn(2)] = 0 // a degenerate arc among them
				c.Count("degenerate_arc_before_the_arc", 1)
			}
			pre = append(pre, d)
		}
	}
	if mode != viaBytes && r.Chance(1, 8) {
		// Earlier in the same path: an arc on the very same ellipse (same radii and
		// rotation) whose radii are far too small for its chord, then a line back
		// to the start. Each arc's radii are scaled up for that arc only.
		far := q(5 * (float32(math.Abs(float64(rx))) + float32(math.Abs(float64(ry))) + 1))
		pre = append(pre, rec.Op{K: rec.KRelArcTo, LargeArc: r.Bool(), Sweep: r.Bool(), F: [6]float32{rx, ry, rot, far, q(float32(r.Uniform(-1, 1)))}},
			rec.Op{K: rec.KAbsLineTo, F: [6]float32{x0, y0}})
		c.Count("same_ellipse_with_too_small_radii_earlier_in_the_path", 1)
	}
	var dst ivg.Destination = &z
	if mode == logger {
		dst = &ivg.DestinationLogger{Destination: &z, Alt: r.Bool()}
	}
	var penX, penY float32
	before := 0
	if mode != viaBytes {
		if !c.Guard("path start", nil, func() { rec.ApplyAll(dst, pre) }) {
			return
		}
		penX, penY = rz.Pen()
		before = len(rz.Calls)
	} else {
		// a dry run by direct calls on scratch objects tells where the pen will be
		var zs render.Renderer
		rzs := &rec.Raster{}
		zs.SetRasterizer(rzs, rect)
		zs.Reset(vb, ivg.DefaultPalette)
		if !c.Guard("path start (dry run)", nil, func() { rec.ApplyAll(&zs, pre) }) {
			return
		}
		penX, penY = rzs.Pen()
	}
	var op rec.Op
	if rel {
		// offset from the *actual* pen position in viewBox units
		px, py := float64(penX)/sx+mx, float64(penY)/sy+my
		op = rec.Op{K: rec.KRelArcTo, LargeArc: fa, Sweep: fs, F: [6]float32{rx, ry, rot, q(float32(float64(ex) - px)), q(float32(float64(ey) - py))}}
		c.Count("relative", 1)
	} else {
		op = rec.Op{K: rec.KAbsArcTo, LargeArc: fa, Sweep: fs, F: [6]float32{rx, ry, rot, ex, ey}}
		c.Count("absolute", 1)
	}
	desc := func() map[string]interface{} {
		d := map[string]interface{}{"viewBox": fmt.Sprint(vb), "rect": rect.String(), "pen": []float32{penX, penY}, "op": op.String()}
		switch mode {
		case logger:
			d["through"] = "ivg.DestinationLogger"
		case viaBytes:
			d["through"] = fmt.Sprintf("Encoder and Decode, as arc number %d of a run", runPos)
			d["path_before_the_arc"] = rec.Strings(clip(pre, 40))
		}
		return d
	}
	var calls []rec.RCall
	if mode != viaBytes {
		if !c.Guard("arc", func() interface{} { return desc() }, func() { rec.Apply(dst, &op) }) {
			return
		}
		calls = rz.Calls[before:]
	} else {
		var e encode.Encoder
		if r.Bool() {
			// the Encoder has written another graphic before, possibly abandoned
			// in the middle of a path or after an error
			c.Count("encoder_with_a_past", 1)
			dirtyDestination(r, &e, ivg.DefaultPalette)
		}
		e.Reset(vb, ivg.DefaultPalette)
		e.HighResolutionCoordinates = true
		rec.ApplyAll(&e, pre)
		rec.Apply(&e, &op)
		e.ClosePathEndPath()
		bb, eerr := e.Bytes()
		if eerr != nil {
			d := desc()
			d["error"] = eerr.Error()
			c.Violate("encoder-rejects-arc-run", d)
			return
		}
		bb = append([]byte(nil), bb...)
		tee := &rec.Dest{Tee: &z}
		after := -1
		var pen2X, pen2Y float32
		tee.AfterCall = func(*rec.Op) {
			switch len(tee.Ops) {
			case 1 + len(pre): // Reset and everything before the judged arc have been delivered
				pen2X, pen2Y = rz.Pen()
				before = len(rz.Calls)
			case 2 + len(pre):
				after = len(rz.Calls)
			}
		}
		var derr error
		if !c.Guard("decode arc run", func() interface{} { return desc() }, func() { derr = decode.Decode(tee, bb) }) {
			return
		}
		if derr != nil || after < 0 || len(tee.Ops) != 3+len(pre) {
			d := desc()
			d["error"], d["delivered_calls"], d["bytes"] = errStr(derr), len(tee.Ops), hx(bb)
			c.Violate("encoded-arc-run-does-not-decode-to-itself", d)
			return
		}
		got := tee.Ops[1+len(pre)]
		frac := float32(float64(rot) - math.Floor(float64(rot)))
		same := got.K == op.K && got.LargeArc == op.LargeArc && got.Sweep == op.Sweep && math.Abs(float64(got.F[2]-frac)) < 1e-6
		for _, k := range []int{0, 1, 3, 4} {
			same = same && got.F[k] == op.F[k] // numerically: the short number forms have no negative zero
		}
		if !same || math.Float32bits(pen2X) != math.Float32bits(penX) || math.Float32bits(pen2Y) != math.Float32bits(penY) {
			d := desc()
			d["delivered"], d["pen_when_decoded"], d["bytes"] = got.String(), []float32{pen2X, pen2Y}, hx(bb)
			c.Violate("arc-of-an-encoded-run-differs-from-what-was-written", d)
			return
		}
		calls = rz.Calls[before:after]
	}
	hh := rec.HashOps([]rec.Op{op}) ^ run.Hash64(uint64(w)<<32|uint64(h), uint64(math.Float32bits(vb.MinX))<<32|uint64(math.Float32bits(vb.MaxY)), uint64(math.Float32bits(x0))<<32|uint64(math.Float32bits(y0)))
	c.Eval(hh, !zero)
	c.Count("arcs", 1)
	if c.WantSample() {
		c.Sample(desc())
	}
	fail := func(sig string, extra map[string]interface{}) {
		dd := desc()
		dd["raster_calls"] = rec.RStrings(calls)
		dd["path_before_the_arc"] = rec.Strings(clip(pre, 12))
		for k, v := range extra {
			dd[k] = v
		}
		c.Violate(sig, dd)
	}
	// expected endpoint in pixels
	var epx, epy float64
	if rel {
		epx, epy = float64(penX)+sx*float64(op.F[3]), float64(penY)+sy*float64(op.F[4])
	} else {
		epx, epy = sx*(float64(ex)-mx), sy*(float64(ey)-my)
	}
	endMag := math.Abs(epx) + math.Abs(epy) + sx*(math.Abs(float64(ex))+math.Abs(mx)) + sy*(math.Abs(float64(ey))+math.Abs(my)) + math.Abs(float64(penX)) + math.Abs(float64(penY))
	if len(calls) > 4 {
		fail("more-than-4-segments", nil)
		return
	}
	if zero {
		c.Count("zero_radius", 1)
		if len(calls) != 1 || calls[0].K != rec.RLineTo {
			fail("zero-radius-not-a-single-line", nil)
			return
		}
		if e := math.Hypot(float64(calls[0].A[0])-epx, float64(calls[0].A[1])-epy); e > 1e-5*endMag {
			fail("zero-radius-line-endpoint", map[string]interface{}{"expected": []float64{epx, epy}, "error": e})
		}
		return
	}
	// reference centre parameterisation in viewBox space from the actual pen
	X1, Y1 := float64(penX)/sx+mx, float64(penY)/sy+my
	X2, Y2 := epx/sx+mx, epy/sy+my
	a := ref.ArcToCenter(X1, Y1, X2, Y2, float64(rx), float64(ry), 2*math.Pi*float64(rot), fa, fs)
	if 2*math.Sqrt(a.Lambda) < 1e-7 {
		// The chord is below 1e-7 of the radii (what precedes the arc may move the
		// pen almost onto the end point): start and end are not distinct at the
		// resolution of any angle computation in double precision, which is the
		// coincident-end-points case the property excludes (DESIGN 6.13). Counted.
		c.Count("end_points_coincide_at_angle_resolution_not_judged", 1)
		return
	}
	if len(calls) == 0 {
		fail("no-segments", nil)
		return
	}
	for _, cl := range calls {
		if cl.K != rec.RCubeTo {
			fail("segment-not-a-cubic", nil)
			return
		}
	}
	c.Count(fmt.Sprintf("cubics_%d", len(calls)), 1)
	last := calls[len(calls)-1]
	mag := endMag + sx*(math.Abs(a.CX)+a.RX) + sy*(math.Abs(a.CY)+a.RY)
	eerr := math.Hypot(float64(last.A[4])-epx, float64(last.A[5])-epy)
	c.MaxF("worst_endpoint_error_rel", math.Min(eerr/mag, 1))
	if eerr > 1e-5*mag {
		fail("endpoint", map[string]interface{}{"expected": []float64{epx, epy}, "error": eerr, "relative": eerr / mag})
		return
	}
	if a.Lambda > 1 {
		c.Count("scaled_up_radii", 1)
	}
	if fa {
		c.Count("large_arc", 1)
	}
	if fs {
		c.Count("sweep_positive", 1)
	} else {
		c.Count("sweep_negative", 1)
	}
	// Near a half turn that fits exactly (radii check = 1) the centre moves like
	// the square root of the distance to 1, and on which side of 1 an arc falls
	// decides whether its radii are scaled: an input error eps moves the curve
	// by up to sqrt(eps) of the radius there. eps is the float32 rounding of the
	// pen and the end point relative to the radii, so for ellipses far below a
	// pixel the excluded band is wider than for ordinary ones.
	minR0 := math.Min(a.RX, a.RY)
	condBase := 1e-6 * (math.Abs(a.CX) + math.Abs(a.CY) + math.Abs(X1) + math.Abs(Y1) + math.Abs(X2) + math.Abs(Y2) +
		(math.Abs(float64(penX))+math.Abs(epx))/sx + (math.Abs(float64(penY))+math.Abs(epy))/sy) / minR0
	band := math.Max(1e-4, 2*condBase)
	if math.Abs(a.Lambda-1) < band {
		c.Count("ill_conditioned_skipped", 1)
		return
	}
	// outside the band, below 1: the square-root amplification as a factor of the
	// conditioning term (1.3 for radii three times the chord, 11 at 1 % from fitting)
	nearHalf := 1.0
	if a.Lambda < 1 {
		nearHalf = 1 + 1/math.Sqrt(math.Max(1/a.Lambda-1, band))
	}
	prevAng := math.NaN()
	total := 0.0
	p0 := [2]float64{float64(penX), float64(penY)}
	minR := math.Min(a.RX, a.RY)
	// The centre is determined by the two end points; when the chord is short
	// compared with the radii (a nearly full ellipse) a rounding error eps of
	// an end point moves the centre by about R*eps/chord. chordU is the chord
	// length in unit-circle coordinates.
	u1x, u1y := a.ToUnitCircle(X1, Y1)
	u2x, u2y := a.ToUnitCircle(X2, Y2)
	chordU := math.Hypot(u1x-u2x, u1y-u2y)
	illFactor := 1 + 1/math.Max(chordU, 1e-12)
	worstCond := 0.0
	for ci, cl := range calls {
		p1 := [2]float64{float64(cl.A[0]), float64(cl.A[1])}
		p2 := [2]float64{float64(cl.A[2]), float64(cl.A[3])}
		p3 := [2]float64{float64(cl.A[4]), float64(cl.A[5])}
		segStart := math.NaN()
		for _, t := range [...]float64{0, 0.125, 0.25, 0.375, 0.5, 0.625, 0.75, 0.875, 1} {
			p := ref.Bezier3(t, p0, p1, p2, p3)
			ux, uy := p[0]/sx+mx, p[1]/sy+my
			u0, u1 := a.ToUnitCircle(ux, uy)
			rad := math.Hypot(u0, u1)
			// float32 rounding of the recorded pixel coordinates and of the
			// renderer's own viewBox-space arithmetic, relative to the radius
			cond := 1e-6 * (math.Abs(a.CX) + math.Abs(a.CY) + math.Abs(ux) + math.Abs(uy) +
				(math.Abs(p[0])+math.Abs(float64(penX)))/sx + (math.Abs(p[1])+math.Abs(float64(penY)))/sy) / minR * illFactor * nearHalf
			worstCond = math.Max(worstCond, cond)
			dev := math.Abs(rad-1) - cond
			c.MaxF("worst_ellipse_deviation", math.Min(math.Max(dev, 0), 1))
			if dev > 1e-3 {
				fail("point-off-the-ellipse", map[string]interface{}{"segment": ci, "t": t, "radius_in_unit_circle": rad, "centre": []float64{a.CX, a.CY}, "radii": []float64{a.RX, a.RY}})
				return
			}
			if shallow && chordU < 5e-3 && !fa {
				// (the pen may have been moved by what precedes the arc: shallow is
				// decided on the actual chord, in unit-circle coordinates)
				// In pixels: a point at unit-circle radius rad is at least
				// |rad-1|*min(radii)*min(scales) pixels away from the ellipse. A shallow
				// arc is far below the cubic approximation error, and a rounding error of
				// an end point moves the curve by no more than itself (it moves the
				// ill-determined centre, along the curve's normal, not the curve), so
				// what remains is float32 rounding of pixel coordinates: measured
				// <= 4e-4 px on targets of 8192 px at any radius up to 1e8.
				c.Count("shallow_arc_points_judged_in_pixels", 1)
				devPx := math.Abs(rad-1) * minR * math.Min(sx, sy)
				tolPx := 0.02 + 2e-6*(math.Abs(p[0])+math.Abs(p[1])+math.Abs(float64(penX))+math.Abs(float64(penY)))
				c.MaxF("worst_shallow_arc_deviation_in_pixels", math.Min(devPx, 1e6))
				c.MaxF("worst_shallow_arc_deviation_as_a_fraction_of_its_tolerance", math.Min(devPx/tolPx, 1e6))
				if devPx > tolPx {
					fail("point-off-the-ellipse/pixels", map[string]interface{}{"segment": ci, "t": t, "pixels_off_at_least": devPx, "tolerance": tolPx, "centre": []float64{a.CX, a.CY}, "radii": []float64{a.RX, a.RY}})
					return
				}
			}
			an := math.Atan2(u1, u0)
			if math.IsNaN(segStart) {
				segStart = an
			}
			if !math.IsNaN(prevAng) {
				da := an - prevAng
				for da > math.Pi {
					da -= 2 * math.Pi
				}
				for da < -math.Pi {
					da += 2 * math.Pi
				}
				total += da
				if (fs && da < -1e-4-4*cond) || (!fs && da > 1e-4+4*cond) {
					fail("sweep-direction", map[string]interface{}{"segment": ci, "t": t, "step": da, "sweep_flag": fs})
					return
				}
			}
			prevAng = an
		}
		p0 = p3
	}
	serr := math.Abs(total - a.Delta)
	c.MaxF("worst_sweep_error_rad", math.Min(serr, 7))
	if serr > 2e-2+8*worstCond {
		fail("sweep-extent", map[string]interface{}{"swept": total, "expected": a.Delta, "large_arc": fa, "sweep": fs})
	}
}
