package props

import (
	"bytes"
	"fmt"
	"os"
	"path/filepath"
	"strconv"
	"strings"

	"github.com/reactivego/ivg"
	"github.com/reactivego/ivg/decode"
	"github.com/reactivego/ivg/encode"
	"github.com/reactivego/ivg/mdicons"
	"golang.org/x/image/math/f32"

	"ivgverif/internal/gen"
	"ivgverif/internal/rec"
	"ivgverif/internal/run"
)

// C20, whole icons: mdicons.ParseFile reads an SVG document (paths with
// opacity attributes, circles, a viewBox whose origin becomes the offset) and
// writes the encoded graphic as a Go byte-slice literal. The monitor writes a
// PRNG document to a scratch file, reads the literal back and compares the
// graphic with the composition the property spells out: every path converted
// in document order with one opacity-register map for the whole icon, the
// circles appended to the first converted path (or forming a path of their own
// when there is none). The single-path conversion used for the composition
// is mdicons.ParsePath, which the "converter" sub-monitor judges against the
// reference on its own.
//
// The converter carries a table of two known-bad Material Design paths that it
// leaves out when path data and fill attribute both match. For a matching
// path either outcome is accepted (the property speaks of neither); a path
// with the same data and another fill is an ordinary path, and circles are
// never lost.

var c20SkipTable = [][2]string{{"M16 34h22v4H16z", "#fff"}, {"M20.36 18", ""}}

type c20FilePath struct {
	p     mdicons.Path
	fill  string
	table bool // data and fill match the converter's table of left-out paths
}

func c20File(c *run.Ctx, idx uint64) {
	r := c.Rng(idx)
	type so struct{ size, out float32 }
	sizes := []so{{24, 48}, {48, 48}, {12, 48}, {24, 24}, {18, 36}, {36, 72}, {18, 48}, {20, 48}, {36, 100}}
	pick := sizes[r.Intn(len(sizes))]
	size, outSize := pick.size, pick.out
	vbx, vby := float32(0), float32(0)
	if ratio := outSize / size; r.Chance(1, 2) && (ratio == 1 || ratio == 2 || ratio == 4) {
		// a viewBox that does not start at the origin moves the whole icon (the
		// ratio is a power of two here, so that the offset is exact in any order
		// of evaluation)
		vbx, vby = float32(r.Range(-6, 6))/2, float32(r.Range(-6, 6))/2
	}
	off := f32.Vec2{vbx * outSize / size, vby * outSize / size}
	if off[0] != 0 || off[1] != 0 {
		c.Count("files_with_viewbox_origin_elsewhere", 1)
	}
	opacities := []float32{0.3, 0.54, 0.87, 0.38, 0.26, 0.12}
	var paths []c20FilePath
	nPaths := r.Pick(0, 1, 1, 2, 2, 3, 4, 6)
	nTable := 0
	for i := 0; i < nPaths; i++ {
		var fp c20FilePath
		switch {
		case r.Chance(1, 5) && nTable < 2:
			// one of the two table paths, with the matching fill or with another one
			e := c20SkipTable[r.Intn(2)]
			fp.p.D = e[0]
			fp.fill = e[1]
			if r.Chance(1, 2) {
				fp.fill = r.PickS("#000", "#fff", "none", "#010101", "")
			}
			fp.table = fp.fill == e[1]
			if fp.table {
				nTable++
				c.Count("table_paths_with_matching_fill", 1)
				if i == 0 {
					c.Count("table_path_first_in_document", 1)
				}
			} else {
				c.Count("table_paths_with_another_fill", 1)
			}
		default:
			fp.p.D, _ = gen.PathString(r, false)
			if r.Chance(1, 3) {
				fp.fill = r.PickS("#000", "#fff", "none", "#5f6368")
			}
		}
		fp.p.Fill = fp.fill
		if r.Chance(1, 2) {
			o := opacities[r.Intn(len(opacities))]
			if r.Bool() {
				fp.p.Opacity = &o
			} else {
				fp.p.FillOpacity = &o
			}
			c.Count("paths_with_opacity", 1)
		}
		paths = append(paths, fp)
		c.Count("paths", 1)
	}
	var circles []mdicons.Circle
	if r.Chance(1, 2) || nPaths == 0 {
		for n := r.Range(1, 3); n > 0; n-- {
			circles = append(circles, mdicons.Circle{Cx: float32(r.Range(2, 40)) + float32(r.Intn(2))/2, Cy: float32(r.Range(2, 40)), R: float32(r.Range(1, 8)) + float32(r.Intn(4))/4})
			c.Count("circles", 1)
		}
		if nPaths == 0 {
			c.Count("files_with_circles_only", 1)
		}
		if nPaths > 0 && paths[0].table {
			c.Count("circles_after_a_first_path_from_the_table", 1)
		}
	}
	// the document; circles before, between or after the paths
	var doc strings.Builder
	f := func(v float32) string { return strconv.FormatFloat(float64(v), 'g', -1, 32) }
	// the root element's width and height are display hints: present or not,
	// equal to the size the caller configures or not, the configured (size,
	// offset, outSize) triple is what transforms the coordinates
	dims := ""
	switch r.Intn(4) {
	case 0:
		c.Count("files_without_width_and_height", 1)
	case 1:
		other := float32(r.PickF(12, 18, 24, 36, 48, 96))
		dims = fmt.Sprintf(` width="%s" height="%s"`, f(other), f(other))
		if other != size {
			c.Count("files_whose_width_differs_from_the_configured_size", 1)
		}
	default:
		dims = fmt.Sprintf(` width="%s" height="%s"`, f(size), f(size))
	}
	fmt.Fprintf(&doc, `<svg xmlns="http://www.w3.org/2000/svg"%s viewBox="%s %s %s %s">`+"\n", dims, f(vbx), f(vby), f(size), f(size))
	circleAt := r.Intn(nPaths + 1)
	writeCircles := func() {
		for _, cc := range circles {
			fmt.Fprintf(&doc, `  <circle cx="%s" cy="%s" r="%s"/>`+"\n", f(cc.Cx), f(cc.Cy), f(cc.R))
		}
	}
	for i, fp := range paths {
		if i == circleAt {
			writeCircles()
		}
		doc.WriteString("  <path")
		if fp.fill != "" {
			fmt.Fprintf(&doc, ` fill="%s"`, fp.fill)
		}
		if fp.p.Opacity != nil {
			fmt.Fprintf(&doc, ` opacity="%s"`, f(*fp.p.Opacity))
		}
		if fp.p.FillOpacity != nil {
			fmt.Fprintf(&doc, ` fill-opacity="%s"`, f(*fp.p.FillOpacity))
		}
		fmt.Fprintf(&doc, ` d="%s"/>`+"\n", fp.p.D)
	}
	if circleAt == nPaths {
		writeCircles()
	}
	doc.WriteString("</svg>\n")
	name := filepath.Join(run.ScratchDir(), fmt.Sprintf("icon-%d.svg", idx))
	if err := os.WriteFile(name, []byte(doc.String()), 0644); err != nil {
		c.Count("scratch_file_unavailable", 1)
		return
	}
	defer os.Remove(name)
	desc := func() map[string]interface{} {
		return map[string]interface{}{"document": doc.String(), "size": size, "outSize": outSize}
	}
	if r.Chance(1, 4) {
		// The conversion before this one failed half way: a document whose first
		// paths are translucent (the opacities of the table, in another order) and
		// whose last path has path data that does not parse, or that uses a seventh
		// distinct opacity. Nothing of it may show in this conversion.
		var bad strings.Builder
		fmt.Fprintf(&bad, `<svg xmlns="http://www.w3.org/2000/svg" width="24" height="24" viewBox="0 0 24 24">`+"\n")
		k0 := r.Intn(len(opacities))
		nOp := r.Range(1, len(opacities))
		sevenOpacities := r.Bool()
		if sevenOpacities {
			nOp = len(opacities)
		}
		for k := 0; k < nOp; k++ {
			fmt.Fprintf(&bad, `  <path opacity="%s" d="M2 2h4v4z"/>`+"\n", f(opacities[(k0+k)%len(opacities)]))
		}
		if sevenOpacities {
			fmt.Fprintf(&bad, `  <path opacity=".71" d="M2 2h4v4z"/>`+"\n")
		} else {
			fmt.Fprintf(&bad, `  <path d="M2 2h4v4x1 2z"/>`+"\n")
		}
		bad.WriteString("</svg>\n")
		badName := filepath.Join(run.ScratchDir(), fmt.Sprintf("icon-%d-bad.svg", idx))
		if werr := os.WriteFile(badName, []byte(bad.String()), 0644); werr == nil {
			var sink bytes.Buffer
			var badErr error
			okBad := c.Guard("ParseFile(failing document)", func() interface{} { return map[string]interface{}{"document": bad.String()} }, func() {
				_, badErr = mdicons.ParseFile(badName, "action", "verif_bad", 24, 48, &sink)
			})
			os.Remove(badName)
			if !okBad {
				return
			}
			if badErr != nil {
				c.Count("after_a_conversion_that_failed_half_way", 1)
			} else {
				c.Count("the_conversion_meant_to_fail_succeeded", 1)
			}
		}
	}
	var out bytes.Buffer
	var err error
	if !c.Guard("ParseFile", func() interface{} { return desc() }, func() {
		_, err = mdicons.ParseFile(name, "action", "verif_icon", size, outSize, &out)
	}) {
		return
	}
	c.Count("files", 1)
	c.Eval(run.HashString(doc.String()), nPaths+len(circles) >= 2)
	// the compositions accepted: each table path either left out or converted
	var tableIdx []int
	for i, fp := range paths {
		if fp.table {
			tableIdx = append(tableIdx, i)
		}
	}
	var wants [][]byte
	var wantAdjs []int
	for mask := 0; mask < 1<<len(tableIdx); mask++ {
		leftOut := map[int]bool{}
		for k, i := range tableIdx {
			if mask>>k&1 == 0 {
				leftOut[i] = true
			}
		}
		var enc encode.Encoder
		enc.Reset(ivg.ViewBox{MinX: -24, MinY: -24, MaxX: 24, MaxY: 24}, ivg.DefaultPalette)
		adjs := map[float32]uint8{}
		pending := circles
		for i := range paths {
			if leftOut[i] {
				continue
			}
			p := paths[i].p
			if e := mdicons.ParsePath(&enc, &p, adjs, size, off, outSize, pending); e != nil {
				c.Count("compositions_not_convertible", 1)
				return
			}
			pending = nil
		}
		if len(pending) > 0 {
			if e := mdicons.ParsePath(&enc, &mdicons.Path{}, adjs, size, off, outSize, pending); e != nil {
				c.Count("compositions_not_convertible", 1)
				return
			}
		}
		want, e := enc.Bytes()
		if e != nil {
			c.Count("compositions_not_convertible", 1)
			return
		}
		wants = append(wants, append([]byte(nil), want...))
		wantAdjs = append(wantAdjs, len(adjs))
	}
	if err != nil {
		d := desc()
		d["error"] = err.Error()
		c.Violate("file/well-formed-icon-rejected", d)
		return
	}
	got, ok := c20Literal(out.String())
	if !ok {
		d := desc()
		d["output"] = fmt.Sprintf("%.400s", out.String())
		c.Violate("file/output-is-not-a-byte-slice-literal", d)
		return
	}
	for k, want := range wants {
		if bytes.Equal(want, got) {
			if wantAdjs[k] > 0 && nPaths > 1 {
				c.Count("icons_sharing_opacity_registers", 1)
			}
			if c.WantSample() {
				c.Sample(desc())
			}
			return
		}
	}
	first := wants[0]
	d := desc()
	var dg, dw rec.Dest
	decode.Decode(&dg, got)
	decode.Decode(&dw, first)
	i := 0
	for i < len(dg.Ops) && i < len(dw.Ops) && dg.Ops[i].String() == dw.Ops[i].String() {
		i++
	}
	d["first_difference_at_call"], d["got"], d["expected"], d["n_got"], d["n_expected"] = i, opStr(dg.Ops, i), opStr(dw.Ops, i), len(dg.Ops), len(dw.Ops)
	c.Violate("file/icon-is-not-the-composition-of-its-paths-and-circles", d)
}

// c20Literal reads the bytes of a `var X = []byte{ 0x.., ... }` literal.
func c20Literal(s string) ([]byte, bool) {
	a, b := strings.Index(s, "{"), strings.LastIndex(s, "}")
	if a < 0 || b < a || !strings.HasPrefix(s, "var ") {
		return nil, false
	}
	var out []byte
	for _, tok := range strings.FieldsFunc(s[a+1:b], func(r rune) bool { return r == ',' || r == ' ' || r == '\n' || r == '\t' }) {
		v, err := strconv.ParseUint(tok, 0, 8)
		if err != nil {
			return nil, false
		}
		out = append(out, byte(v))
	}
	return out, true
}
