package props

import (
	"math"

	"ivgverif/internal/rec"
	"ivgverif/internal/ref"
)

// The format's per-kind quantisation rules (DESIGN.md 3.5), used wherever a
// call list is compared with what comes back after encoding and decoding.

// ztoShortExact reports whether f is exactly k/120 or k/15120 (correctly
// rounded) for some k, i.e. representable in a short zero-to-one form.
func ztoShortExact(f float32) bool {
	if !(f >= 0 && f < 1) {
		return false
	}
	k := math.Round(float64(f) * 15120)
	if float32(k)/15120 == f && k < 15120 {
		return true
	}
	k = math.Round(float64(f) * 120)
	return float32(k)/120 == f && k < 120
}

// ruleReal: LOD values.
func ruleReal(in, out float32) bool {
	if lenReal(in) < 4 {
		return in == out
	}
	return f30(nil, in, out)
}

// ruleCoordExact: coordinates that are not quantised (viewBox, high
// resolution).
func ruleCoordExact(in, out float32) bool {
	if lenCoord(in) < 4 {
		return in == out
	}
	return f30(nil, in, out)
}

// ruleCoord: path coordinates under the given resolution.
func ruleCoord(in, out float32, lowres bool) bool {
	if !lowres {
		return ruleCoordExact(in, out)
	}
	if in >= -128 && in < 128 {
		if lenCoord(in) < 4 {
			return in == out
		}
		m := float64(out) * 64
		d := math.Abs(float64(out) - float64(in))
		slack := math.Ldexp(math.Max(1, math.Abs(64*float64(in))), -24) / 64
		return m == math.Trunc(m) && d <= 1.0/128+slack
	}
	return f30(nil, in, out)
}

// ruleNReg: number register values; shortZTO says the stream used a 1- or
// 2-byte zero-to-one form for it.
func ruleNReg(in, out float32, shortZTO bool) bool {
	if lenReal(in) < 4 || lenCoord(in) < 4 {
		return in == out
	}
	if shortZTO {
		if ztoShortExact(in) {
			return in == out
		}
		return ref.Ulps(in, out) <= 4
	}
	return f30(nil, in, out)
}

// ruleAngle: arc rotation, modulo one turn.
func ruleAngle(in, out float32, shortZTO bool) bool {
	if in != in || math.IsInf(float64(in), 0) {
		return nonFinite(out)
	}
	if in >= 0 && in < 1 {
		if shortZTO {
			if ztoShortExact(in) {
				return in == out
			}
			return ref.Ulps(in, out) <= 4
		}
		return f30(nil, in, out)
	}
	g := float64(in) - math.Floor(float64(in))
	d := math.Abs(float64(out) - g)
	return (d <= math.Ldexp(1, -20) || d >= 1-math.Ldexp(1, -20)) && out >= 0 && out <= 1
}

// compareEncoded compares the calls written (in) with the calls delivered
// after encode+decode (out). shortZTO indexes out. It returns -1 when they
// agree, else the index of the first disagreement and a reason.
func compareEncoded(in, out []rec.Op, lowres bool, shortZTO map[int]bool) (int, string) {
	return compareEncodedPer(in, out, func(int) bool { return lowres }, shortZTO)
}

// compareEncodedPer is compareEncoded with the resolution given per call
// index (the Encoder latches its resolution flag at every StartPath).
func compareEncodedPer(in, out []rec.Op, lowresAt func(i int) bool, shortZTO map[int]bool) (int, string) {
	n := len(in)
	if len(out) < n {
		n = len(out)
	}
	for i := 0; i < n; i++ {
		if why := compareOneEncoded(&in[i], &out[i], lowresAt(i), shortZTO[i]); why != "" {
			return i, why
		}
	}
	if len(in) != len(out) {
		return n, "call count"
	}
	return -1, ""
}

func compareOneEncoded(a, b *rec.Op, lowres, shortZTO bool) string {
	if a.K != b.K {
		return "different operation"
	}
	switch a.K {
	case rec.KReset:
		if !ruleCoordExact(a.VB.MinX, b.VB.MinX) || !ruleCoordExact(a.VB.MinY, b.VB.MinY) || !ruleCoordExact(a.VB.MaxX, b.VB.MaxX) || !ruleCoordExact(a.VB.MaxY, b.VB.MaxY) {
			return "viewBox"
		}
		if (a.Pal == nil) != (b.Pal == nil) || (a.Pal != nil && *a.Pal != *b.Pal) {
			return "palette"
		}
	case rec.KSetCSel, rec.KSetNSel:
		if a.Sel&0x3f != b.Sel&0x3f {
			return "selector"
		}
	case rec.KSetCReg:
		if a.Adj != b.Adj || a.Incr != b.Incr {
			return "adj/incr"
		}
		if a.Col != b.Col {
			return "colour"
		}
	case rec.KSetNReg:
		if a.Adj != b.Adj || a.Incr != b.Incr {
			return "adj/incr"
		}
		if !ruleNReg(a.F[0], b.F[0], shortZTO) {
			return "number register value"
		}
	case rec.KSetLOD:
		if !ruleReal(a.F[0], b.F[0]) || !ruleReal(a.F[1], b.F[1]) {
			return "LOD value"
		}
	case rec.KStartPath:
		if a.Adj != b.Adj {
			return "adj"
		}
		if !ruleCoord(a.F[0], b.F[0], lowres) || !ruleCoord(a.F[1], b.F[1], lowres) {
			return "coordinate"
		}
	case rec.KAbsArcTo, rec.KRelArcTo:
		if a.LargeArc != b.LargeArc || a.Sweep != b.Sweep {
			return "arc flags"
		}
		if !ruleCoord(a.F[0], b.F[0], lowres) || !ruleCoord(a.F[1], b.F[1], lowres) {
			return "arc radius"
		}
		if !ruleAngle(a.F[2], b.F[2], shortZTO) {
			return "arc angle"
		}
		if !ruleCoord(a.F[3], b.F[3], lowres) || !ruleCoord(a.F[4], b.F[4], lowres) {
			return "arc endpoint"
		}
	default:
		for j := 0; j < a.K.NArgs(); j++ {
			if !ruleCoord(a.F[j], b.F[j], lowres) {
				return "coordinate"
			}
		}
	}
	return ""
}
