package props

import (
	"fmt"
	"image"
	"math"

	"github.com/reactivego/ivg"
	"github.com/reactivego/ivg/raster"
	"github.com/reactivego/ivg/render"

	"ivgverif/internal/gen"
	"ivgverif/internal/rec"
	"ivgverif/internal/ref"
	"ivgverif/internal/run"
)

// C05 — path geometry reaches the rasterizer correctly mapped from viewBox to
// pixels. Monitor: after every drawing call fed to a real Renderer, the
// rasterizer calls it produced are compared with the float64 expectation
// computed from the actual pen (no error accumulation).

const c05Tol = 2e-6

func init() {
	min := map[string]int64{"reset_before_setrasterizer": 5000, "rectangle_changed_after_reset": 5000, "renderer_used_for_an_earlier_graphic": 5000, "lattice_mode": 5000, "empty_target_rectangles": 5000, "lattice_operand_equals_pen_pixels": 5000, "paths": 10000, "ops": 100000, "draws": 10000, "smooth_reflected": 1000, "smooth_from_pen": 1000, "rel_move_after_close": 1000, "nonsquare_maps": 5000, "offset_rects": 5000, "through_rasterizer_logger": 10000, "through_destination_logger": 10000}
	for _, a := range gen.NonArcVerbs {
		for _, b := range gen.NonArcVerbs {
			min["pair/"+a.String()+">"+b.String()] = 50
		}
	}
	run.Register(&run.Prop{
		ID:    "C05",
		Title: "Path geometry reaches the rasteriser correctly mapped from viewBox to pixels",
		Rule:  "every case is one path program (all 18 non-arc verbs in PRNG order and run length, arcs only as predecessors of other verbs) fed call by call to a real Renderer over a recording rasterizer, under a PRNG viewBox (off-centre, non-square) and target rectangle (size 1..600, non-zero origin, aspect unrelated to the viewBox); non-trivial = at least 3 drawing operations; distinctness by hash of the call list and configuration",
		Assumptions: []string{
			"pen semantics of the recording rasterizer = golang.org/x/image/vector (Reset zeroes the pen, ClosePath returns it to the sub-path start)",
			"tolerance 2e-6 relative to the magnitudes of the terms added (the renderer works in float32; worst error seen on the unchanged tree 2.1e-7)",
		},
		Subs: []*run.Sub{
			{Name: "paths", N: func(t string) uint64 {
				if t == "thorough" {
					return 60_000_000
				}
				return 400_000
			}, Run: c05Path, Min: min,
				Rule: "PRNG path programs; every ordered pair of non-arc verbs must be seen adjacent at least 50 times"},
		},
	})
}

type c05Config struct {
	vb   ivg.ViewBox
	rect image.Rectangle
	// given, when set, is the (empty) rectangle actually handed to SetRasterizer;
	// rect is then the zero Rectangle the Renderer is documented to use instead
	given *image.Rectangle
}

// target returns the rectangle to hand to SetRasterizer.
func (cfg c05Config) target() image.Rectangle {
	if cfg.given != nil {
		return *cfg.given
	}
	return cfg.rect
}

func c05GenConfig(r *run.Rng) c05Config {
	var vb ivg.ViewBox
	switch r.Intn(4) {
	case 0:
		vb = ivg.DefaultViewBox
	case 1:
		vb = ivg.ViewBox{MinX: 0, MinY: 0, MaxX: 48, MaxY: 48}
	default:
		vb.MinX, vb.MinY = float32(r.Uniform(-80, 20)), float32(r.Uniform(-80, 20))
		vb.MaxX, vb.MaxY = vb.MinX+float32(r.Uniform(1, 150)), vb.MinY+float32(r.Uniform(1, 150))
	}
	w, h := r.Range(1, 600), r.Range(1, 600)
	if r.Chance(1, 4) {
		w, h = r.Pick(1, 2, 16, 64, 256, 512), r.Pick(1, 2, 16, 64, 256, 513)
	}
	rect := image.Rect(0, 0, w, h)
	if r.Chance(2, 3) {
		rect = rect.Add(image.Pt(r.Range(-20, 300), r.Range(-20, 300)))
	}
	return c05Config{vb: vb, rect: rect}
}

func c05Path(c *run.Ctx, idx uint64) {
	r := c.Rng(idx)
	cfg := c05GenConfig(r)
	coord := func(r *run.Rng) float32 { return float32(r.Uniform(-100, 100)) }
	if r.Chance(1, 5) {
		coord = func(r *run.Rng) float32 { return float32(r.Range(-64, 63)) }
	}
	// Lattice mode: integer viewBox, integer scale factors, integer
	// coordinates, and operands that repeat the previous point's *pixel*
	// coordinates: numbers of different coordinate spaces coincide, which is
	// what it takes to notice that two spaces were confused.
	lattice := r.Chance(1, 8)
	if lattice {
		c.Count("lattice_mode", 1)
		cfg.vb = ivg.ViewBox{MinX: float32(r.Range(-40, 0)), MinY: float32(r.Range(-40, 0))}
		cfg.vb.MaxX, cfg.vb.MaxY = cfg.vb.MinX+float32(r.Range(8, 64)), cfg.vb.MinY+float32(r.Range(8, 64))
		w, h := int(cfg.vb.MaxX-cfg.vb.MinX)*r.Pick(1, 2, 3, 4, 8), int(cfg.vb.MaxY-cfg.vb.MinY)*r.Pick(1, 2, 3, 4, 8)
		cfg.rect = image.Rect(0, 0, w, h).Add(image.Pt(r.Pick(0, 0, 8, 16), r.Pick(0, 0, 8, 16)))
		coord = func(r *run.Rng) float32 { return float32(r.Range(-40, 40)) }
	}
	if !lattice && r.Chance(1, 25) {
		// an empty target (no width, no height, or neither) at some position: the
		// graphic is scaled to nothing, whatever the rasterizer's own bounds are
		g := image.Rect(0, 0, r.Pick(0, 0, 7), r.Pick(0, 9, 0)).Add(image.Pt(r.Range(-5, 30), r.Range(-5, 30)))
		if g.Dx() > 0 && g.Dy() > 0 {
			g.Max.X = g.Min.X
		}
		if r.Chance(1, 3) {
			// described with its corners the wrong way round in x, in y or in both
			// (a struct literal: image.Rect would have swapped them)
			d := image.Pt(r.Pick(0, 6, 6), r.Pick(11, 0, 11))
			g = image.Rectangle{Min: g.Min.Add(d), Max: g.Min}
			if r.Bool() {
				g.Min.Y, g.Max.Y = g.Max.Y, g.Min.Y+3
			}
			c.Count("inverted_target_rectangles", 1)
		}
		cfg.given, cfg.rect = &g, image.Rectangle{}
		c.Count("empty_target_rectangles", 1)
	}
	sxL := float32(cfg.rect.Dx()) / (cfg.vb.MaxX - cfg.vb.MinX)
	syL := float32(cfg.rect.Dy()) / (cfg.vb.MaxY - cfg.vb.MinY)
	o := gen.Opts{Coord: coord, Angle: func(r *run.Rng) float32 { return float32(r.F64()) }}
	// the path program
	ops := []rec.Op{{K: rec.KStartPath, Adj: 0, F: [6]float32{coord(r), coord(r)}}}
	n := r.Range(1, 30)
	for i := 0; i < n; i++ {
		k := gen.NonArcVerbs[r.Intn(len(gen.NonArcVerbs))]
		if r.Chance(1, 25) {
			k = gen.DrawVerbs[16+r.Intn(2)] // an arc as predecessor
		}
		l := 1
		if r.Chance(1, 4) {
			l = r.Range(2, 4)
		}
		for ; l > 0; l-- {
			op := gen.DrawOp(r, k, &o)
			if lattice && r.Chance(1, 4) && len(ops) > 0 {
				// operands equal to the pixel coordinates of the previous absolute point
				if p := ops[len(ops)-1]; !p.K.IsRel() && p.K.NArgs() >= 2 && p.K != rec.KAbsArcTo {
					n := p.K.NArgs()
					px, py := sxL*(p.F[n-2]-cfg.vb.MinX), syL*(p.F[n-1]-cfg.vb.MinY)
					for j := 0; j+1 < op.K.NArgs() && op.K != rec.KAbsArcTo && op.K != rec.KRelArcTo; j += 2 {
						op.F[j], op.F[j+1] = px, py
					}
					c.Count("lattice_operand_equals_pen_pixels", 1)
				}
			}
			ops = append(ops, op)
		}
	}
	ops = append(ops, rec.Op{K: rec.KClosePathEndPath})
	if r.Chance(1, 3) {
		// a second path: the renderer must start over
		ops = append(ops, rec.Op{K: rec.KStartPath, F: [6]float32{coord(r), coord(r)}}, gen.DrawOp(r, gen.NonArcVerbs[8+r.Intn(8)], &o), rec.Op{K: rec.KClosePathEndPath})
	}
	h := rec.HashOps(ops) ^ run.Hash64(uint64(cfg.rect.Dx())<<32|uint64(cfg.rect.Dy()), uint64(math.Float32bits(cfg.vb.MinX))<<32|uint64(math.Float32bits(cfg.vb.MaxY)))
	c.Eval(h, len(ops) >= 5)
	if c.WantSample() {
		c.Sample(map[string]interface{}{"viewBox": fmt.Sprint(cfg.vb), "rect": cfg.rect.String(), "path": rec.Strings(clip(ops, 12))})
	}
	c05Run(c, cfg, ops)
}

// c05Run feeds ops to a Renderer and judges every step.
func c05Run(c *run.Ctx, cfg c05Config, ops []rec.Op) bool {
	rz := &rec.Raster{}
	if cfg.given != nil {
		rz.Reset(37, 41) // the rasterizer was used for something else before: its own bounds are not empty
		rz.ResetLog()
	}
	var z render.Renderer
	// one run in eight puts the public logging wrapper of the rasterizer side
	// between the Renderer and the recording rasterizer (the Renderer asks its
	// rasterizer for the pen)
	var rzDst raster.Rasterizer = rz
	if (uint64(cfg.rect.Dx())*13+uint64(len(ops))*7)%8 == 5 {
		rzDst = &raster.RasterizerLogger{Rasterizer: rz}
		c.Count("through_rasterizer_logger", 1)
	}
	// the map from viewBox to rectangle is established by SetRasterizer and
	// Reset in either order, and again when the rectangle changes afterwards
	switch (uint64(cfg.rect.Dx())*31 + uint64(len(ops))) % 5 {
	case 4:
		z.SetRasterizer(rzDst, cfg.target())
		earlierGraphic(&z, cfg.vb)
		rz.ResetLog()
		z.Reset(cfg.vb, ivg.DefaultPalette)
		c.Count("renderer_used_for_an_earlier_graphic", 1)
	case 0:
		z.Reset(cfg.vb, ivg.DefaultPalette)
		z.SetRasterizer(rzDst, cfg.target())
		c.Count("reset_before_setrasterizer", 1)
	case 1:
		z.SetRasterizer(rzDst, image.Rect(0, 0, cfg.rect.Dx()*2+3, cfg.rect.Dy()+5))
		z.Reset(cfg.vb, ivg.DefaultPalette)
		z.SetRasterizer(rzDst, cfg.target())
		c.Count("rectangle_changed_after_reset", 1)
	default:
		z.SetRasterizer(rzDst, cfg.target())
		z.Reset(cfg.vb, ivg.DefaultPalette)
	}
	g := &ref.Geom{VB: cfg.vb, DX: cfg.rect.Dx(), DY: cfg.rect.Dy()}
	vw, vh := float64(cfg.vb.MaxX-cfg.vb.MinX), float64(cfg.vb.MaxY-cfg.vb.MinY)
	if math.Abs(float64(cfg.rect.Dx())/vw/(float64(cfg.rect.Dy())/vh)-1) > 0.1 {
		c.Count("nonsquare_maps", 1)
	}
	if cfg.rect.Min != (image.Point{}) {
		c.Count("offset_rects", 1)
	}
	firstX, firstY := 0.0, 0.0
	prevK := rec.NKinds
	desc := func(i int) map[string]interface{} {
		lo := i - 3
		if lo < 0 {
			lo = 0
		}
		return map[string]interface{}{"viewBox": fmt.Sprint(cfg.vb), "rect": cfg.rect.String(), "op_index": i, "op": ops[i].String(), "preceding_ops": rec.Strings(ops[lo:i])}
	}
	ok := true
	// one run in eight drives the Renderer through the public logging wrapper
	var dst ivg.Destination = &z
	if (uint64(cfg.rect.Dy())*17+uint64(len(ops)))%8 == 3 {
		dst = &ivg.DestinationLogger{Destination: &z, Alt: len(ops)%2 == 0}
		c.Count("through_destination_logger", 1)
	}
	for i := range ops {
		o := &ops[i]
		penX, penY := rz.Pen()
		before := len(rz.Calls)
		if !c.Guard("render", func() interface{} { return desc(i) }, func() { rec.Apply(dst, o) }) {
			return false
		}
		got := rz.Calls[before:]
		c.Count("ops", 1)
		if prevK != rec.NKinds && o.K != rec.KStartPath && o.K != rec.KClosePathEndPath && prevK != rec.KStartPath {
			if o.K < rec.KAbsArcTo && prevK < rec.KAbsArcTo {
				c.Count("pair/"+prevK.String()+">"+o.K.String(), 1)
			}
		}
		if o.K == rec.KAbsArcTo || o.K == rec.KRelArcTo {
			// judged by C06; here only: at most 4 calls (none at all when the
			// arc's start and end coincide, as SVG prescribes)
			if len(got) > 4 {
				d := desc(i)
				d["raster_calls"] = rec.RStrings(got)
				c.Violate("arc-call-count", d)
				ok = false
			}
			g.After(o, nil)
			prevK = o.K
			continue
		}
		exp := g.Expect(o, float64(penX), float64(penY), firstX, firstY)
		fail := func(sig string, extra map[string]interface{}) {
			d := desc(i)
			d["raster_calls"] = rec.RStrings(got)
			d["pen_before"] = []float32{penX, penY}
			for k, v := range extra {
				d[k] = v
			}
			c.Violate(sig+"/"+o.K.String(), d)
			ok = false
		}
		if len(got) != len(exp) {
			fail("call-sequence", map[string]interface{}{"expected_calls": len(exp)})
			return false
		}
		switch {
		case o.K == rec.KAbsSmoothQuadTo || o.K == rec.KRelSmoothQuadTo || o.K == rec.KAbsSmoothCubeTo || o.K == rec.KRelSmoothCubeTo:
			if g.PrevFamily == ref.Family(o.K) {
				c.Count("smooth_reflected", 1)
			} else {
				c.Count("smooth_from_pen", 1)
			}
		case o.K == rec.KClosePathRelMoveTo:
			c.Count("rel_move_after_close", 1)
		}
		for j := range exp {
			e, gc := &exp[j], &got[j]
			if gc.K != e.K {
				fail("call-kind", map[string]interface{}{"call": j, "expected": e.K.String()})
				return false
			}
			switch e.K {
			case rec.RReset:
				if gc.A[0] != float32(cfg.rect.Dx()) || gc.A[1] != float32(cfg.rect.Dy()) {
					fail("reset-size", nil)
				}
			case rec.RDraw:
				c.Count("draws", 1)
				if gc.R != cfg.rect {
					fail("draw-rectangle", map[string]interface{}{"drawn": gc.R.String()})
				}
				if gc.SP != (image.Point{}) {
					fail("draw-source-point", map[string]interface{}{"sp": gc.SP.String()})
				}
			default:
				for q := 0; q < e.N; q++ {
					d := math.Abs(float64(gc.A[q]) - e.A[q])
					m := e.Mag[q] + 1e-30
					c.MaxF("worst_relative_error", math.Min(d/m, 1))
					if d > c05Tol*m {
						fail("coordinate", map[string]interface{}{"call": j, "coordinate": q, "expected": e.A[q], "got": gc.A[q], "relative_error": d / m})
						break
					}
				}
			}
			if gc.K == rec.RMoveTo {
				firstX, firstY = float64(gc.A[0]), float64(gc.A[1])
			}
		}
		if o.K == rec.KStartPath {
			c.Count("paths", 1)
		}
		var produced *rec.RCall
		if len(got) > 0 {
			produced = &got[len(got)-1]
		}
		g.After(o, produced)
		prevK = o.K
	}
	return ok
}
