package props

import (
	"bytes"
	"crypto/sha256"
	"fmt"
	"image"
	"image/color"
	"image/draw"
	"math"
	"os"
	"path/filepath"
	"runtime"
	"sort"
	"strconv"
	"strings"
	"sync"
	"sync/atomic"
	"time"

	"github.com/reactivego/ivg"
	"github.com/reactivego/ivg/decode"
	"github.com/reactivego/ivg/encode"
	"github.com/reactivego/ivg/generate"
	"github.com/reactivego/ivg/mdicons"
	"github.com/reactivego/ivg/raster/vec"
	"github.com/reactivego/ivg/render"
	"golang.org/x/image/math/f32"

	"ivgverif/internal/corpus"
	"ivgverif/internal/gen"
	"ivgverif/internal/rec"
	"ivgverif/internal/run"
)

// C18 — independent decodes, renders and encodes are safe to run
// concurrently. Monitors: the Go race detector (this sub-monitor only runs in
// the -race build; the driver counts the reports), per-task result equality
// with the serial result, and hashes of the shared inputs and of every
// package-level variable (verif hook VerifGlobals) before and after.

func init() {
	run.Register(&run.Prop{
		ID:    "C18",
		Title: "Independent decodes, renders and encodes are safe to run concurrently",
		Rule:  "every case is one round: G in {2,4,16,64} goroutines x GOMAXPROCS in {2,4,16}, each goroutine running a PRNG sequence of independent pipelines (decode->render->recording rasterizer, decode->render->vec image, transcode, disassemble, metadata only, decode with palette options, generator helpers + SetPathData -> Encoder, mdicons.ParsePath, mdicons.ParseFile over shared SVG documents on disk, colour and viewBox helpers) over the same 4-8 hot corpus slices, palettes, stop lists and path strings; an evaluation is one task; non-trivial = the task overlapped in time with a task of another goroutine on the same input; distinctness by (round, goroutine, task index)",
		Assumptions: []string{
			"the Go race detector reports a race only if the two conflicting accesses happen in the schedules produced; 'all interleavings' is sampled",
			"the harness adds no synchronisation inside the workload: one start barrier, goroutine-local logs merged after the join",
		},
		Subs: []*run.Sub{
			{Name: "race-workload", Race: true, CaseCPU: 900, N: func(t string) uint64 {
				if t == "thorough" {
					return 4800
				}
				return 96
			}, Run: c18Round,
				Min: map[string]int64{"tasks": 50000, "overlapping_same_input_pairs": 1000, "rounds": 50, "globals_hash_checks": 50, "kind_render_log": 1000, "kind_render_pixels": 1000, "kind_transcode": 1000, "kind_disassemble": 1000,
					"kind_viewbox": 1000, "buffers_reused_for_another_graphic": 500, "kind_options": 1000, "kind_generator": 1000, "kind_mdicons": 1000, "kind_helpers": 1000, "kind_encode_defaults": 1000, "kind_mdicons_file": 1000, "rounds_with_two_icon_trees": 50}},
		},
	})
}

const nKinds18 = 11

var kind18Names = [nKinds18]string{"render_log", "render_pixels", "transcode", "disassemble", "viewbox", "options", "generator", "mdicons", "helpers", "encode_defaults", "mdicons_file"}

type shared18 struct {
	inputs [][]byte
	pal    *[64]color.RGBA
	// rawPal is a caller's palette as it may come from anywhere: some entries are
	// not valid premultiplied colours, some look like gradients. Colour helpers
	// receive pointers to it and to rawReg and must only read them.
	rawPal, rawReg *[64]color.RGBA
	stops          []generate.GradientStop
	// stopsUnordered is accepted by the Generator although its offsets decrease;
	// transforms is passed as a variadic argument from this slice
	stopsUnordered []generate.GradientStop
	transforms     []generate.Aff3
	paths          []string
	mdPath         *mdicons.Path
	// mdPathFill has a fill-opacity and no opacity; factors is a shared table of scale factors
	mdPathFill *mdicons.Path
	factors    []float32
	// grad is one gradient paint that all pipelines read (At and the accessors)
	grad *render.Gradient
	// gradStops is a stop list with two stops at the same offset (a hard transition), used to initialise private Gradients
	gradStops []render.Stop
	circ      []mdicons.Circle
	// opts is a shared, read-only option table with spare capacity; tasks pass prefix views of it
	opts []decode.DecodeOption
	// svgNames are SVG documents on disk that all pipelines convert with
	// mdicons.ParseFile (each into a buffer and an Encoder of its own); svgWant
	// holds the graphic each one is, composed path by path from the elements the
	// documents were written from
	svgNames []string
	svgWant  [][]byte
	// stat is a conversion summary that every pipeline adds to an accumulator of
	// its own (its lists have spare capacity: they grew by append)
	stat mdicons.Statistics
	// trees are two icon directory trees with the same category and icon names
	// but different files (path data, PNG sizes), converted with mdicons.ParseDir;
	// treeWant is what each conversion yields when it is the only thing the
	// process ever does (known from how the trees were written)
	trees    []string
	treePNG  [][2]int
	treeWant []string
}

func hashOps18(ops []rec.Op) [32]byte {
	h := sha256.New()
	for _, s := range rec.Strings(ops) {
		h.Write([]byte(s))
		h.Write([]byte{0})
	}
	var out [32]byte
	copy(out[:], h.Sum(nil))
	return out
}

// task18 runs one independent pipeline and returns a hash of its result.
func task18(kind int, in int, sh *shared18, variant uint64) [32]byte {
	b := sh.inputs[in]
	switch kind {
	case 0:
		rz := &rec.Raster{Probes: []image.Point{{1, 1}, {5, 9}}}
		var z render.Renderer
		z.SetRasterizer(rz, image.Rect(2, 3, 2+24+int(variant%8), 3+24))
		decode.Decode(&z, b)
		h := sha256.New()
		for _, s := range rec.RStrings(rz.Calls) {
			h.Write([]byte(s))
		}
		var out [32]byte
		copy(out[:], h.Sum(nil))
		return out
	case 1:
		dst := image.NewRGBA(image.Rect(0, 0, 32, 32))
		var z render.Renderer
		z.SetRasterizer(&vec.Rasterizer{Dst: dst, DrawOp: draw.Src}, dst.Bounds())
		decode.Decode(&z, b)
		return sha256.Sum256(dst.Pix)
	case 2:
		var e encode.Encoder
		decode.Decode(&e, b)
		o, _ := e.Bytes()
		return sha256.Sum256(o)
	case 3:
		o, _ := decode.Disassemble(b)
		return sha256.Sum256(o)
	case 4:
		vb, err := decode.DecodeViewBox(b)
		// A caller reads one graphic after another into a buffer of its own: what
		// comes back belongs to the bytes that are in the buffer now, not to the
		// buffer (compared with the same bytes in a slice of their own).
		buf := append([]byte(nil), b...)
		vb1, _ := decode.DecodeViewBox(buf)
		// the next graphic has the same length and another viewBox (1-byte coordinates)
		var vb2 ivg.ViewBox
		var err2 error
		if len(buf) > 11 && buf[4] == 0x02 && buf[5] == 0x0a && buf[6] == 0x00 && buf[7]&1 == 0 && (buf[7]^0x04) <= buf[9] {
			other := append([]byte(nil), buf...)
			other[7] ^= 0x04
			copy(buf, other)
			vb2, err2 = decode.DecodeViewBox(buf)
			vbOwn, errOwn := decode.DecodeViewBox(other)
			if vb2 != vbOwn || (err2 == nil) != (errOwn == nil) {
				atomic.AddInt64(&c18BufferIdentity, 1)
			}
			atomic.AddInt64(&c18BufferReuses, 1)
		}
		return sha256.Sum256([]byte(fmt.Sprint(vb, err, vb1, vb2, err2)))
	case 5:
		d := &rec.Dest{}
		if variant%2 == 0 {
			decode.Decode(d, b, sh.opts[:1+int(variant/2)%len(sh.opts)]...)
		} else {
			decode.Decode(d, b, decode.WithPalette(*sh.pal), decode.WithColorAt(int(variant%64), sh.pal[3]), decode.WithColorAt(1, color.NRGBA{1, 2, 3, uint8(variant)}))
		}
		return hashOps18(d.Ops)
	case 6:
		var e encode.Encoder
		g := generate.Generator{}
		g.SetDestination(&e)
		g.SetTransform(generate.Scale(2), generate.Translate(-32, -32))
		switch variant % 3 {
		case 0:
			g.SetLinearGradient(0, 0, 10, 5, generate.GradientSpreadPad, sh.stops)
		case 1:
			g.SetCircularGradient(1, 2, 3, 4, generate.GradientSpreadReflect, sh.stops)
		default:
			g.SetEllipticalGradient(1, 2, 3, 0, 0, 4, generate.GradientSpreadRepeat, sh.stops)
		}
		g.SetPathData(sh.paths[int(variant)%len(sh.paths)], uint8(variant%7))
		// caller-held slices shared by all pipelines: a transform list handed over
		// with "..." and a stop list that is not in increasing offset order
		g.SetTransform() // back to the identity (no arguments), then a transform again: nothing but this Generator changes
		g.SetPathData(sh.paths[(in+1)%len(sh.paths)], 2)
		g.SetTransform(sh.transforms...)
		g.SetPathData(sh.paths[in%len(sh.paths)], 1)
		g.SetTransform()
		g.SetPathData(sh.paths[(in+2)%len(sh.paths)], 3)
		m := generate.Concat(sh.transforms...)
		i := int(variant) % len(sh.factors)
		m = generate.Concat(m, generate.Scale(sh.factors[i:i+1]...)) // one factor, handed over as a slice of the shared table
		g.SetEllipticalGradient(1, 2, 3, 0, 0, 4, generate.GradientSpreadNone, sh.stopsUnordered)
		o, _ := e.Bytes()
		return sha256.Sum256(append(append([]byte(nil), o...), []byte(fmt.Sprint(m))...))
	case 7:
		d := &rec.Dest{}
		adjs := map[float32]uint8{}
		mdicons.ParsePath(d, sh.mdPath, adjs, 24, f32.Vec2{1, 0}, 48, sh.circ)
		mdicons.ParsePath(d, sh.mdPathFill, adjs, 24, f32.Vec2{}, 48, nil) // fill-opacity only: the fallback reads it, nothing is written back
		mdicons.ParsePathData(d, "M2 3h4v5H2z", 0, 24, f32.Vec2{}, 48)
		return hashOps18(d.Ops)
	case 8:
		h := sha256.New()
		for i := 0; i < 64; i++ {
			c := ivg.BlendColor(uint8(variant), 0x80|uint8(i), 0xc0|uint8(63-i))
			r := c.Resolve(sh.pal, &ivg.DefaultPalette)
			h.Write([]byte{r.R, r.G, r.B, r.A})
			h.Write([]byte(c.String()))
			k := ivg.RGBAColor(sh.pal[i])
			x1, ok1 := k.Encode1()
			x2, ok2 := k.Encode2()
			h.Write([]byte(fmt.Sprint(x1, ok1, x2, ok2, ivg.DecodeColor1(uint8(i*3)).String())))
			for _, q := range [...]ivg.Color{ivg.PaletteIndexColor(uint8(i)), ivg.CRegColor(uint8(i)), ivg.BlendColor(uint8(variant)|1, 0x80|uint8(i), 0xc0|uint8(i))} {
				r := q.Resolve(sh.rawPal, sh.rawReg)
				h.Write([]byte{r.R, r.G, r.B, r.A})
			}
		}
		// a Gradient paint shared read-only by everybody: sampled, and its accessors
		// called; what an accessor returns belongs to the caller
		for i := 0; i < 24; i++ {
			k := sh.grad.At(i*5-30, int(variant%7)*3-9)
			r, g, b, a := k.RGBA()
			h.Write([]byte{byte(r >> 8), byte(g >> 8), byte(b >> 8), byte(a >> 8)})
		}
		var own render.Gradient
		own.Init(render.ShapeLinear, render.SpreadPad, render.Aff3{0.03, 0, 0.1, 0, 0, 0}, sh.gradStops) // shared stop list with a hard colour transition
		for i := 0; i < 8; i++ {
			r, g, b, a := own.At(i*4, 0).RGBA()
			h.Write([]byte{byte(r >> 8), byte(g >> 8), byte(b >> 8), byte(a >> 8)})
		}
		offs := sh.grad.StopOffsets()
		cols := sh.grad.StopColors()
		for i := range offs {
			offs[i] += float64(variant) // the caller's own copy
			cols[i].A ^= uint8(variant)
		}
		ta, tb, tc, td, te, tf := sh.grad.Transform()
		h.Write([]byte(fmt.Sprint(offs, cols, ta, tb, tc, td, te, tf, sh.grad.GradientShape(), sh.grad.SpreadMethod())))
		a, bb, cc, dd := ivg.DefaultViewBox.AspectMeet(100, 50, ivg.Mid, ivg.Max)
		e, f, gg, hh := ivg.DefaultMetadata.ViewBox.AspectSlice(100, 50, ivg.Min, ivg.Mid)
		h.Write([]byte(fmt.Sprint(a, bb, cc, dd, e, f, gg, hh, ivg.DefaultPalette[7], ivg.MagicBytes)))
		var out [32]byte
		copy(out[:], h.Sum(nil))
		return out
	case 10:
		if variant%8 == 7 && len(sh.trees) == 2 {
			// the directory-level front end on one of two trees
			t := int(variant>>3) % 2
			var out bytes.Buffer
			st, err := mdicons.ParseDir(sh.trees[t], "action", 48, &out)
			if err != nil || st.TotalFiles != 1 || st.TotalPNG24Bytes != sh.treePNG[t][0] || st.TotalPNG48Bytes != sh.treePNG[t][1] || len(st.Failures) != 0 || out.String() != sh.treeWant[t] {
				atomic.AddInt64(&c18FileMismatch, 1)
			}
			return sha256.Sum256([]byte(fmt.Sprint(out.String(), st, err)))
		}
		k := int(variant) % len(sh.svgNames)
		var out bytes.Buffer
		_, err := mdicons.ParseFile(sh.svgNames[k], "action", "verif", 24, 48, &out)
		if sh.svgWant[k] == nil {
			// more distinct opacities than there are registers for: no graphic, the
			// same outcome every time
			if err == nil {
				atomic.AddInt64(&c18FileMismatch, 1)
			}
			return sha256.Sum256([]byte(fmt.Sprint(out.String(), err)))
		}
		if got, ok := c20Literal(out.String()); err != nil || !ok || !bytes.Equal(got, sh.svgWant[k]) {
			atomic.AddInt64(&c18FileMismatch, 1)
		}
		// the conversion's summary joins the shared one in an accumulator of this pipeline's own
		var total mdicons.Statistics
		total = total.Add(sh.stat)
		total = total.Add(mdicons.Statistics{VarNames: []string{fmt.Sprint("own", variant)}, Failures: []string{"f"}, TotalFiles: 1})
		return sha256.Sum256([]byte(fmt.Sprint(out.String(), total)))
	default:
		var e encode.Encoder
		e.Reset(ivg.DefaultViewBox, ivg.DefaultPalette)
		e.SetCReg(0, false, ivg.PaletteIndexColor(uint8(variant)))
		e.StartPath(0, 1, 2)
		e.AbsLineTo(float32(variant%50), 4)
		e.ClosePathEndPath()
		var f encode.Encoder // zero value: default metadata implied
		f.StartPath(0, 1, 2)
		f.ClosePathEndPath()
		// a third Encoder starts a graphic with a viewBox and a palette of its own:
		// one of four palettes of the same shape (64 translucent colours, four bytes
		// each) that differ in every entry, so that concurrent pipelines write
		// metadata chunks of equal length and different content
		var p encode.Encoder
		var pal [64]color.RGBA
		k := uint8(variant % 4)
		for i := range pal {
			pal[i] = color.RGBA{0x10 + k, uint8(i), 0x21 + 2*k, 0x80 + k}
		}
		p.Reset(ivg.ViewBox{MinX: -float32(8 + k), MinY: -8, MaxX: 8, MaxY: float32(9 + k)}, pal)
		p.StartPath(0, 1, 2)
		p.AbsLineTo(3, 4)
		p.ClosePathEndPath()
		o1, _ := e.Bytes()
		o2, _ := f.Bytes()
		o3, _ := p.Bytes()
		return sha256.Sum256(append(append(append([]byte(nil), o1...), o2...), o3...))
	}
}

func globals18() [32]byte {
	h := sha256.New()
	h.Write(ivg.VerifGlobals())
	h.Write(encode.VerifGlobals())
	h.Write(decode.VerifGlobals())
	h.Write(render.VerifGlobals())
	h.Write(mdicons.VerifGlobals())
	var out [32]byte
	copy(out[:], h.Sum(nil))
	return out
}

func sharedHash18(sh *shared18) [32]byte {
	h := sha256.New()
	for _, b := range sh.inputs {
		h.Write(b)
	}
	h.Write([]byte(fmt.Sprintf("%+v %v", *sh.grad, sh.gradStops)))
	h.Write([]byte(fmt.Sprint(*sh.pal, *sh.rawPal, *sh.rawReg, sh.stops, sh.stopsUnordered, sh.transforms, sh.factors[:cap(sh.factors)], sh.paths, sh.mdPath.D, sh.circ, sh.stat.VarNames[:cap(sh.stat.VarNames)], sh.stat.Failures[:cap(sh.stat.Failures)], sh.stat)))
	for _, p := range []*mdicons.Path{sh.mdPath, sh.mdPathFill} {
		h.Write([]byte(fmt.Sprint(p.D, p.Fill, p.FillOpacity == nil, p.Opacity == nil)))
		if p.FillOpacity != nil {
			h.Write([]byte(fmt.Sprint(*p.FillOpacity)))
		}
		if p.Opacity != nil {
			h.Write([]byte(fmt.Sprint(*p.Opacity)))
		}
	}
	var out [32]byte
	copy(out[:], h.Sum(nil))
	return out
}

var c18Warm bool

// c18BufferIdentity counts results that depended on which buffer held the bytes.
var c18BufferIdentity, c18BufferReuses int64

// c18FileMismatch counts whole-icon conversions whose result was not the
// graphic the document spells (whatever other documents were converted before
// or meanwhile).
var c18FileMismatch int64

// c18Trees writes two small icon trees in the layout mdicons.ParseDir expects
// (<root>/<category>/svg/production/ic_<name>_<size>px.svg and
// <root>/<category>/1x_web/ic_<name>_black_<size>dp.png).
func c18Trees(r *run.Rng, sh *shared18, tag string) {
	for t := 0; t < 2; t++ {
		root := filepath.Join(run.ScratchDir(), fmt.Sprintf("c18-tree-%s-%d", tag, t))
		svgDir := filepath.Join(root, "action", "svg", "production")
		pngDir := filepath.Join(root, "action", "1x_web")
		if os.MkdirAll(svgDir, 0755) != nil || os.MkdirAll(pngDir, 0755) != nil {
			return
		}
		d, _ := gen.PathString(r, false)
		doc := `<svg xmlns="http://www.w3.org/2000/svg" width="48" height="48" viewBox="0 0 48 48"><path d="` + d + `"/></svg>`
		n24, n48 := 100+37*t+r.Intn(30), 400+91*t+r.Intn(30)
		if os.WriteFile(filepath.Join(svgDir, "ic_verif_48px.svg"), []byte(doc), 0644) != nil ||
			os.WriteFile(filepath.Join(pngDir, "ic_verif_black_24dp.png"), make([]byte, n24), 0644) != nil ||
			os.WriteFile(filepath.Join(pngDir, "ic_verif_black_48dp.png"), make([]byte, n48), 0644) != nil {
			return
		}
		// the listing ParseDir must write is that of ParseFile for the one file
		// (the whole-icon sub-monitor of C20 judges ParseFile itself)
		var want bytes.Buffer
		if _, err := mdicons.ParseFile(filepath.Join(svgDir, "ic_verif_48px.svg"), "action", "verif", 48, 48, &want); err != nil {
			return
		}
		sh.trees = append(sh.trees, root)
		sh.treePNG = append(sh.treePNG, [2]int{n24, n48})
		sh.treeWant = append(sh.treeWant, want.String())
	}
}

// c18Documents writes the round's SVG documents: the same number of path
// elements in each, with and without optional attributes at the same
// positions, with and without circles.
func c18Documents(r *run.Rng, sh *shared18, tag string) {
	ops := []float32{0.3, 0.54, 0.87}
	for k := 0; k < 6; k++ {
		var paths []mdicons.Path
		var circles []mdicons.Circle
		for i := 0; i < 3; i++ {
			d, _ := gen.PathString(r, false)
			p := mdicons.Path{D: d}
			switch k {
			case 0: // every optional attribute present
				o, fo := ops[i], ops[(i+1)%3]
				p.Opacity, p.FillOpacity, p.Fill = &o, &fo, "#fff"
			case 1: // none
			case 2:
				fo := ops[i]
				p.FillOpacity = &fo
			case 3:
				if i == 1 {
					o := ops[2]
					p.Opacity = &o
				}
			}
			paths = append(paths, p)
		}
		if k == 4 {
			paths = paths[:1]
			circles = []mdicons.Circle{{Cx: 6, Cy: 7, R: 2}, {Cx: 15, Cy: 9.5, R: 1.25}}
		}
		if k == 5 {
			// seven distinct opacities: one more than there are registers for
			paths = nil
			for _, o := range []float32{0.1, 0.2, 0.3, 0.4, 0.5, 0.6, 0.7} {
				o := o
				paths = append(paths, mdicons.Path{D: "M2 3h4v5H2z", Opacity: &o})
			}
		}
		var doc strings.Builder
		f := func(v float32) string { return strconv.FormatFloat(float64(v), 'g', -1, 32) }
		doc.WriteString(`<svg xmlns="http://www.w3.org/2000/svg" width="24" height="24" viewBox="0 0 24 24">` + "\n")
		for _, p := range paths {
			doc.WriteString("  <path")
			if p.Fill != "" {
				fmt.Fprintf(&doc, ` fill="%s"`, p.Fill)
			}
			if p.Opacity != nil {
				fmt.Fprintf(&doc, ` opacity="%s"`, f(*p.Opacity))
			}
			if p.FillOpacity != nil {
				fmt.Fprintf(&doc, ` fill-opacity="%s"`, f(*p.FillOpacity))
			}
			fmt.Fprintf(&doc, ` d="%s"/>`+"\n", p.D)
		}
		for _, cc := range circles {
			fmt.Fprintf(&doc, `  <circle cx="%s" cy="%s" r="%s"/>`+"\n", f(cc.Cx), f(cc.Cy), f(cc.R))
		}
		doc.WriteString("</svg>\n")
		name := filepath.Join(run.ScratchDir(), fmt.Sprintf("c18-%s-%d.svg", tag, k))
		if os.WriteFile(name, []byte(doc.String()), 0644) != nil {
			continue
		}
		var enc encode.Encoder
		enc.Reset(ivg.ViewBox{MinX: -24, MinY: -24, MaxX: 24, MaxY: 24}, ivg.DefaultPalette)
		adjs := map[float32]uint8{}
		pending := circles
		for i := range paths {
			mdicons.ParsePath(&enc, &paths[i], adjs, 24, f32.Vec2{}, 48, pending)
			pending = nil
		}
		want, err := enc.Bytes()
		sh.svgNames = append(sh.svgNames, name)
		if err != nil {
			sh.svgWant = append(sh.svgWant, nil)
			continue
		}
		sh.svgWant = append(sh.svgWant, append([]byte(nil), want...))
	}
}

type span18 struct {
	s, e int64
	in   int
	kind int
	g    int
}

func c18Round(c *run.Ctx, idx uint64) {
	// each workload is repeated three times (race reports vary between runs)
	r := c.Rng(idx / 3)
	fs := corpus.Files()
	sh := &shared18{}
	nHot := r.Range(4, 8)
	for i := 0; i < nHot; i++ {
		f := fs[r.Intn(len(fs))]
		if r.Chance(1, 4) {
			f = fs[r.Intn(10)] // testdata graphics: gradients, arcs, LOD
		}
		sh.inputs = append(sh.inputs, append([]byte(nil), f.Data...))
	}
	{
		// Two hot inputs of the same length and with the same first bytes but
		// different content: a cache or scratch state keyed by anything less
		// than the content (length, prefix, pointer of a reused buffer) shows
		// up as a result that differs from the serial one.
		b := append([]byte(nil), sh.inputs[0]...)
		for i := len(b) - 2; i > 8; i-- {
			if b[i]&1 == 0 && b[i] >= 0x40 && b[i] < 0xc0 { // a 1-byte coordinate: stays one
				b[i] ^= 0x04
				break
			}
		}
		sh.inputs = append(sh.inputs, b)
		// and one that differs in its viewBox only (1-byte coordinates)
		for _, in := range sh.inputs {
			if len(in) > 11 && in[4] == 0x02 && in[5] == 0x0a && in[6] == 0x00 && in[7]&1 == 0 && (in[7]^0x04) <= in[9] {
				v := append([]byte(nil), in...)
				v[7] ^= 0x04
				sh.inputs = append(sh.inputs, v)
				break
			}
		}
	}
	if r.Chance(1, 3) {
		// a malformed input shared by everybody
		b := append([]byte(nil), sh.inputs[0]...)
		sh.inputs = append(sh.inputs, b[:len(b)*2/3])
	}
	pal := gen.Palette(r)
	sh.pal = &pal
	var rawPal, rawReg [64]color.RGBA
	for i := range rawPal {
		rawPal[i], rawReg[i] = gen.AnyRGBA(r), gen.AnyRGBA(r)
		if i%8 == 3 {
			rawPal[i] = color.RGBA{0x02, 0x14, 0x94, 0x00} // gradient-looking
			rawReg[i] = color.RGBA{0xff, 0x00, 0x00, 0x10} // not premultiplied
		}
	}
	sh.rawPal, sh.rawReg = &rawPal, &rawReg
	sh.stops = []generate.GradientStop{{Offset: 0, Color: color.RGBA{0xff, 0, 0, 0xff}}, {Offset: 0.5, Color: color.NRGBA{0, 0xff, 0, 0x80}}, {Offset: 1, Color: color.Gray{0x40}}}
	sh.stopsUnordered = []generate.GradientStop{{Offset: 1, Color: color.RGBA{0, 0, 0xff, 0xff}}, {Offset: 0.25, Color: color.Gray{0x80}}, {Offset: 0.5, Color: color.RGBA{0xff, 0, 0, 0xff}}, {Offset: 0, Color: color.Black}}
	sh.transforms = append(make([]generate.Aff3, 0, 5), generate.Scale(2, 3), generate.Translate(-4, 5), generate.Scale(0.5))
	for i := 0; i < 3; i++ {
		s, _ := gen.PathString(r, true)
		sh.paths = append(sh.paths, s)
	}
	md, _ := gen.PathString(r, false)
	op := float32(0.54)
	sh.mdPath = &mdicons.Path{D: md, Opacity: &op}
	sh.grad = &render.Gradient{}
	sh.grad.Init(render.ShapeRadial, render.SpreadReflect, render.Aff3{0.05, 0.01, -0.3, -0.02, 0.04, 0.2}, []render.Stop{
		{Offset: 0.1, RGBA64: color.RGBA64{0xffff, 0, 0, 0xffff}}, {Offset: 0.4, RGBA64: color.RGBA64{0, 0x8080, 0, 0x8080}},
		{Offset: 0.7, RGBA64: color.RGBA64{0, 0, 0xffff, 0xffff}}, {Offset: 0.95, RGBA64: color.RGBA64{}}})
	sh.gradStops = []render.Stop{{Offset: 0.2, RGBA64: color.RGBA64{0xffff, 0, 0, 0xffff}}, {Offset: 0.5, RGBA64: color.RGBA64{0, 0xffff, 0, 0xffff}},
		{Offset: 0.5, RGBA64: color.RGBA64{0, 0, 0xffff, 0xffff}}, {Offset: 0.9, RGBA64: color.RGBA64{0x8080, 0x8080, 0x8080, 0x8080}}}
	fop := float32(0.38)
	sh.mdPathFill = &mdicons.Path{D: "M2 3h4v5H2z", FillOpacity: &fop}
	sh.factors = append(make([]float32, 0, 6), 2, 0.5, 3, 1.5) // a table of scale factors with spare capacity
	sh.circ = []mdicons.Circle{{Cx: 12, Cy: 12, R: 3}}
	sh.opts = make([]decode.DecodeOption, 0, 8)
	sh.opts = append(sh.opts, decode.WithColorAt(2, color.RGBA{9, 8, 7, 0xff}), decode.WithColorAt(3, color.NRGBA{200, 100, 50, 0x80}), decode.WithPalette(pal), decode.WithColorAt(0, color.Gray{0x33}))

	c18Documents(r, sh, fmt.Sprint(idx))
	c18Trees(r, sh, fmt.Sprint(idx))
	defer func() {
		for _, t := range sh.trees {
			os.RemoveAll(t)
		}
	}()
	sh.stat = mdicons.Statistics{VarNames: append(make([]string, 0, 8), "ActionA", "ActionB", "ActionC"), Failures: append(make([]string, 0, 4), "x"), TotalFiles: 3, TotalIVGBytes: 300, TotalSVGBytes: 900}
	defer func() {
		for _, n := range sh.svgNames {
			os.Remove(n)
		}
	}()
	if len(sh.svgNames) == 0 {
		c.Count("scratch_files_unavailable", 1)
		return
	}
	G := r.Pick(2, 4, 16, 64)
	procs := r.Pick(2, 4, 16)
	if !c18Warm {
		// the first round of a process meets cold caches: make it the most concurrent one
		c18Warm = true
		G, procs = 16, 16
		c.Count("cold_start_rounds", 1)
	}
	tasksPer := 1600 / G
	type plan struct {
		kind, in int
		variant  uint64
	}
	plans := make([][]plan, G)
	for g := range plans {
		plans[g] = make([]plan, tasksPer)
		for t := range plans[g] {
			plans[g][t] = plan{r.Intn(nKinds18), r.Intn(len(sh.inputs)), uint64(r.Intn(256))}
		}
	}
	g0 := globals18()
	s0 := sharedHash18(sh)
	// concurrent pass
	old := runtime.GOMAXPROCS(procs)
	got := make([][][32]byte, G)
	spans := make([][]span18, G)
	panics := make([]string, G)
	var wg sync.WaitGroup
	start := make(chan struct{})
	t0 := time.Now()
	for g := 0; g < G; g++ {
		wg.Add(1)
		go func(g int) {
			defer wg.Done()
			defer func() {
				if p := recover(); p != nil {
					panics[g] = fmt.Sprint(p)
				}
			}()
			res := make([][32]byte, 0, tasksPer)
			sp := make([]span18, 0, tasksPer)
			<-start
			for _, p := range plans[g] {
				s := time.Since(t0).Nanoseconds()
				h := task18(p.kind, p.in, sh, p.variant)
				sp = append(sp, span18{s, time.Since(t0).Nanoseconds(), p.in, p.kind, g})
				res = append(res, h)
			}
			got[g], spans[g] = res, sp
		}(g)
	}
	close(start)
	wg.Wait()
	runtime.GOMAXPROCS(old)
	// serial pass afterwards: reference results. The concurrent pass runs
	// first so that anything initialised lazily is first touched
	// concurrently (a serial warm-up would hide such races).
	want := make([][][32]byte, G)
	ok := c.Guard("serial pass", nil, func() {
		for g := range plans {
			want[g] = make([][32]byte, tasksPer)
			for t, p := range plans[g] {
				want[g][t] = task18(p.kind, p.in, sh, p.variant)
			}
		}
	})
	if !ok {
		return
	}
	// A canonical probe list over the round's inputs, evaluated serially: the
	// three repeats of a workload run in different worker processes (with
	// different histories) and must agree on it.
	{
		h := sha256.New()
		for in := range sh.inputs {
			for kind := 0; kind < nKinds18; kind++ {
				for v := uint64(0); v < 2; v++ {
					d := task18(kind, in, sh, v)
					h.Write(d[:])
				}
			}
		}
		c.Digest(fmt.Sprintf("workload-%d", idx/3), fmt.Sprintf("%x", h.Sum(nil)[:12]))
	}
	c.Count("rounds", 1)
	if len(sh.trees) == 2 {
		c.Count("rounds_with_two_icon_trees", 1)
	}
	c.Count("globals_hash_checks", 1)
	desc := map[string]interface{}{"round": idx, "goroutines": G, "gomaxprocs": procs, "hot_inputs": len(sh.inputs)}
	for g := range panics {
		if panics[g] != "" {
			c.Violate("panic-in-concurrent-task", map[string]interface{}{"round": desc, "panic": panics[g]})
			return
		}
	}
	if globals18() != g0 {
		c.Violate("package-level-variable-modified", desc)
	}
	if sharedHash18(sh) != s0 {
		c.Violate("shared-input-modified", desc)
	}
	c.Count("buffers_reused_for_another_graphic", atomic.SwapInt64(&c18BufferReuses, 0))
	if n := atomic.SwapInt64(&c18FileMismatch, 0); n != 0 {
		c.Violate("icon-conversion-depends-on-other-conversions", map[string]interface{}{"round": desc, "occurrences": n})
	}
	if n := atomic.SwapInt64(&c18BufferIdentity, 0); n != 0 {
		c.Violate("result-depends-on-the-buffer-not-on-its-bytes", map[string]interface{}{"round": desc, "occurrences": n})
	}
	for g := range plans {
		for t := range plans[g] {
			if t >= len(got[g]) || got[g][t] != want[g][t] {
				c.Violate("concurrent-result-differs-from-serial/"+kind18Names[plans[g][t].kind], map[string]interface{}{"round": desc, "goroutine": g, "task": t, "input": hx(sh.inputs[plans[g][t].in])})
				return
			}
		}
	}
	// evidence: overlapping task pairs on the same input
	var all []span18
	for g := range spans {
		all = append(all, spans[g]...)
	}
	sort.Slice(all, func(i, j int) bool { return all[i].s < all[j].s })
	overlapped := make(map[[2]int]bool)
	pairs := int64(0)
	kindPairs := map[[2]int]bool{}
	for i := range all {
		for j := i + 1; j < len(all) && all[j].s < all[i].e; j++ {
			if all[i].in == all[j].in && all[i].g != all[j].g {
				pairs++
				overlapped[[2]int{all[i].g, i}] = true
				overlapped[[2]int{all[j].g, j}] = true
				a, b := all[i].kind, all[j].kind
				if a > b {
					a, b = b, a
				}
				kindPairs[[2]int{a, b}] = true
			}
		}
	}
	c.Count("overlapping_same_input_pairs", pairs)
	c.Count("distinct_overlapping_kind_pairs_in_round", int64(len(kindPairs)))
	c.MaxF("max_distinct_kind_pairs_in_a_round", float64(len(kindPairs)))
	for i := range all {
		c.Eval(run.Hash64(idx, uint64(all[i].g), uint64(i)), overlapped[[2]int{all[i].g, i}])
		c.Count("kind_"+kind18Names[all[i].kind], 1)
	}
	c.Count("tasks", int64(len(all)))
	if c.WantSample() {
		c.Sample(map[string]interface{}{"goroutines": G, "gomaxprocs": procs, "hot_inputs": len(sh.inputs), "tasks": len(all), "overlapping_same_input_pairs": pairs})
	}
	_ = math.Pi
}
