package props

import (
	"bytes"
	"fmt"
	"image/color"

	"github.com/reactivego/ivg"
	"github.com/reactivego/ivg/decode"
	"github.com/reactivego/ivg/encode"

	"ivgverif/internal/corpus"
	"ivgverif/internal/gen"
	"ivgverif/internal/rec"
	"ivgverif/internal/ref"
	"ivgverif/internal/run"
)

// C01 — encode then decode reproduces the drawing program (and back again).
// Monitor: trace vs trace. The generated call list is fed to a real Encoder,
// the bytes to the real Decoder, and the delivered call list is compared with
// the input under the format's per-kind quantisation rules. Converse: decoder-
// accepted streams are transcoded several hops.

func init() {
	tier := func(q, t uint64) func(string) uint64 {
		return func(s string) uint64 {
			if s == "thorough" {
				return t
			}
			return q
		}
	}
	run.Register(&run.Prop{
		ID:    "C01",
		Title: "Encode then decode reproduces the drawing program (and back again)",
		Rule:  "forward: every case is a generated well-formed Destination call sequence (all methods, ADJ 0..6, increments, run lengths straddling 16/32, every colour kind, numbers of every float class) x {low,high} resolution x {default,custom} viewBox and palette; converse: every case is a decoder-accepted byte stream transcoded four hops. Non-trivial = the program has at least one complete path or three styling calls; distinctness by hash of the call list / bytes",
		Assumptions: []string{
			"per-kind numeric rules of DESIGN.md 3.5 (exact when representable in a short form or with two zero low mantissa bits, <= 4 ulp otherwise, nearest 1/64 for low-resolution coordinates in [-128,128), angles modulo one turn)",
			"streams that end inside an unterminated path are compared up to the last ended path; the remainder must be a prefix (DESIGN.md 6.9)",
		},
		Subs: []*run.Sub{
			{Name: "boundary", N: func(string) uint64 { return uint64(len(c01BoundaryCases())) }, Run: c01Boundary,
				Rule: "seed-independent list: runs of 1/15/16/17/31/32/33/40 of every verb in both resolutions, every colour kind under every ADJ and increment, every colour of the multiple-of-0x40 grid as palette entry, boundary numbers in every operand position",
				Min:  map[string]int64{"programs": 500}},
			{Name: "programs", N: tier(250_000, 6_000_000), Run: c01Programs,
				Rule: "PRNG programs as described above",
				Min: map[string]int64{"programs": 20000, "lowres": 5000, "highres": 5000, "custom_viewbox": 5000, "custom_palette": 5000, "no_reset": 1000, "encoders_with_a_past": 20000, "accessor_reads_between_calls": 100000, "viewbox_extent_beyond_float32": 2000, "resolution_toggled_programs": 5000,
					"op_AbsArcTo": 1000, "op_RelArcTo": 1000, "op_SetCReg": 10000, "op_SetNReg": 10000, "op_SetLOD": 1000, "op_AbsHLineTo": 1000, "op_RelVLineTo": 1000}},
			{Name: "transcode", N: tier(120_000, 3_000_000), Run: c01Transcode,
				Rule: "decoder-accepted streams (corpus files, mutated corpus files, hand-assembled streams with non-canonical forms) fed to an Encoder and decoded again, 4 hops, with a low-resolution and a high-resolution Encoder",
				Min:  map[string]int64{"accepted_streams": 10000, "hops": 40000, "unterminated": 100, "fixed_point_checked": 1000, "one_encoder_for_all_hops": 5000, "hops_through_destination_logger": 5000}},
		},
	})
}

// hiResEnc forwards to an Encoder and switches it to high resolution after
// every Reset (Reset clears the flag).
type hiResEnc struct{ *encode.Encoder }

func (h hiResEnc) Reset(vb ivg.ViewBox, pal [64]color.RGBA) {
	h.Encoder.Reset(vb, pal)
	h.Encoder.HighResolutionCoordinates = true
}

// encodeProgram feeds ops to a fresh Encoder and returns a copy of its bytes.
func encodeProgram(ops []rec.Op, hires bool) ([]byte, error) {
	b, _, err := encodeProgramToggling(ops, hires, nil)
	return b, err
}

// c01EncodersWithPast counts, per worker process, the Encoders that were given a
// past before the program under test (reported through c01Programs).
var c01EncodersWithPast int64

// c01AccessorReads counts the CSel/NSel/LOD calls interleaved with the programs.
var c01AccessorReads int64

// encodeProgramToggling additionally sets the public resolution flag to
// toggles[i] right before call i. It returns, per call, whether low
// resolution applies: the Encoder copies the flag at StartPath, so a change
// between drawing calls must have no effect until the next path.
func encodeProgramToggling(ops []rec.Op, hires bool, toggles map[int]bool) ([]byte, []bool, error) {
	var e encode.Encoder
	if len(ops) > 0 && ops[0].K == rec.KReset {
		// The program starts with Reset, so the Encoder may have a past (one in
		// three: another graphic, selectors moved, possibly abandoned mid-path).
		if h := rec.HashOps(ops); h%3 == 0 {
			dirtyDestination(run.NewRng(h), &e, ivg.DefaultPalette)
			c01EncodersWithPast++
		}
	}
	e.HighResolutionCoordinates = hires
	field, latched := hires, hires
	accSalt := rec.HashOps(ops) ^ 0xacce55
	lowres := make([]bool, len(ops))
	for i := range ops {
		if v, ok := toggles[i]; ok {
			e.HighResolutionCoordinates = v
			field = v
		}
		if ops[i].K == rec.KStartPath {
			latched = field
		}
		lowres[i] = !latched
		// the read-only accessors may be called at any time, also inside a path
		if h := run.Hash64(accSalt, uint64(i)); h%9 == 0 {
			switch (h >> 8) % 3 {
			case 0:
				e.CSel()
			case 1:
				e.NSel()
			default:
				e.LOD()
			}
			c01AccessorReads++
		}
		rec.Apply(&e, &ops[i])
		if ops[i].K == rec.KReset {
			e.HighResolutionCoordinates = hires
			field = hires
		}
	}
	b, err := e.Bytes()
	return append([]byte(nil), b...), lowres, err
}

// c01Forward judges one program.
func c01Forward(c *run.Ctx, ops []rec.Op, hires bool, family string) {
	c01ForwardToggling(c, ops, hires, nil, family)
}

func c01ForwardToggling(c *run.Ctx, ops []rec.Op, hires bool, toggles map[int]bool, family string) {
	var b []byte
	var lowresAt []bool
	var err error
	desc := func() interface{} {
		return map[string]interface{}{"family": family, "highres": hires, "program": rec.Strings(clip(ops, 80))}
	}
	if !c.Guard("encode", desc, func() { b, lowresAt, err = encodeProgramToggling(ops, hires, toggles) }) {
		return
	}
	if len(toggles) > 0 {
		c.Count("resolution_toggled_programs", 1)
	}
	c.Count("programs", 1)
	if hires {
		c.Count("highres", 1)
	} else {
		c.Count("lowres", 1)
	}
	if err != nil {
		c.Violate("well-formed-program-rejected", map[string]interface{}{"family": family, "error": err.Error(), "program": rec.Strings(clip(ops, 80))})
		return
	}
	c.Input(b)
	var out []rec.Op
	var derr error
	if !c.Guard("decode", func() interface{} { return hx(b) }, func() { out, derr = decodeRec(b) }) {
		return
	}
	if derr != nil {
		c.Violate("encoder-output-rejected", map[string]interface{}{"family": family, "error": derr.Error(), "bytes": hx(b), "program": rec.Strings(clip(ops, 80))})
		return
	}
	want := ops
	shift := 0
	if len(ops) == 0 || ops[0].K != rec.KReset {
		pal := ivg.DefaultPalette
		want = append([]rec.Op{{K: rec.KReset, VB: ivg.DefaultViewBox, Pal: &pal}}, ops...)
		shift = 1
	}
	res := ref.Parse(b)
	lowres := func(i int) bool {
		if j := i - shift; j >= 0 && j < len(lowresAt) {
			return lowresAt[j]
		}
		return !hires
	}
	if i, why := compareEncodedPer(want, out, lowres, res.ShortZTO); i >= 0 {
		d := map[string]interface{}{"family": family, "highres": hires, "index": i, "why": why, "bytes": hx(b), "resolution_toggles": fmt.Sprint(toggles)}
		if i < len(want) {
			d["written"] = want[i].String()
		}
		if i < len(out) {
			d["delivered"] = out[i].String()
		}
		lo := i - 3
		if lo < 0 {
			lo = 0
		}
		d["context"] = rec.Strings(clip(want[lo:], 6))
		sig := "roundtrip/" + why
		c.Violate(sig, d)
		return
	}
	var kinds [rec.NKinds]int64
	for i := range out {
		kinds[out[i].K]++
	}
	countKinds(c, &kinds)
}

func clip(ops []rec.Op, n int) []rec.Op {
	if len(ops) > n {
		return ops[:n]
	}
	return ops
}

func nontrivialProgram(ops []rec.Op) bool {
	paths, styling := 0, 0
	for i := range ops {
		switch {
		case ops[i].K == rec.KClosePathEndPath:
			paths++
		case ops[i].K >= rec.KSetCSel && ops[i].K <= rec.KSetLOD:
			styling++
		}
	}
	return paths > 0 || styling >= 3
}

func c01Programs(c *run.Ctx, idx uint64) {
	r := c.Rng(idx)
	o := gen.Opts{Styling: true}
	switch r.Intn(4) {
	case 0:
		o.Coord = gen.Any
	case 1:
		o.Coord = func(r *run.Rng) float32 { return gen.Moderate(r, 150) }
	case 2:
		o.Coord = gen.Grid64
	default:
		o.Coord = func(r *run.Rng) float32 {
			if r.Chance(1, 5) {
				return gen.Any(r)
			}
			return gen.Moderate(r, 40)
		}
	}
	if r.Bool() {
		vb := gen.ViewBox(r)
		if r.Chance(1, 20) {
			// finite, ordered bounds whose difference is beyond float32 (nothing is rendered here)
			big := []float32{3.4028235e38, 2.5e38, 2e38, 1.8e38}
			vb = ivg.ViewBox{MinX: -big[r.Intn(4)], MinY: -big[r.Intn(4)], MaxX: big[r.Intn(4)], MaxY: big[r.Intn(4)]}
			if r.Bool() {
				vb.MinY, vb.MaxY = -32, 32
			}
			c.Count("viewbox_extent_beyond_float32", 1)
		}
		o.ViewBox = &vb
		if vb != ivg.DefaultViewBox {
			c.Count("custom_viewbox", 1)
		}
	}
	if r.Bool() {
		pal := gen.Palette(r)
		o.Palette = &pal
		if pal != ivg.DefaultPalette {
			c.Count("custom_palette", 1)
		}
	}
	if r.Chance(1, 8) && o.ViewBox == nil && o.Palette == nil {
		o.NoReset = true
		c.Count("no_reset", 1)
	}
	if r.Chance(1, 6) {
		o.MaxPaths, o.MaxRuns = 8, 10
	}
	ops := gen.Program(r, o)
	hires := r.Bool()
	c.Eval(rec.HashOps(ops)^uint64(map[bool]int{false: 0, true: 1}[hires]), nontrivialProgram(ops))
	if c.WantSample() && nontrivialProgram(ops) {
		c.Sample(map[string]interface{}{"highres": hires, "program": rec.Strings(clip(ops, 40)), "calls": len(ops)})
	}
	var toggles map[int]bool
	if r.Chance(1, 3) && len(ops) > 2 {
		// the public flag changes between paths and also in the middle of a path
		toggles = map[int]bool{}
		for n := r.Range(1, 6); n > 0; n-- {
			toggles[r.Intn(len(ops))] = r.Bool()
		}
	}
	before, beforeAcc := c01EncodersWithPast, c01AccessorReads
	c01ForwardToggling(c, ops, hires, toggles, "programs")
	c.Count("encoders_with_a_past", c01EncodersWithPast-before)
	c.Count("accessor_reads_between_calls", c01AccessorReads-beforeAcc)
}

type c01BCase struct {
	ops   []rec.Op
	hires bool
	name  string
}

var c01BC []c01BCase

func c01BoundaryCases() []c01BCase {
	if c01BC != nil {
		return c01BC
	}
	pal := ivg.DefaultPalette
	reset := rec.Op{K: rec.KReset, VB: ivg.DefaultViewBox, Pal: &pal}
	r := run.NewRng(20260926) // fixed: this list does not depend on VERIF_SEED
	o := gen.Opts{Coord: func(r *run.Rng) float32 { return gen.Moderate(r, 140) }, Angle: gen.Any, RegNum: gen.Any}
	// runs of every verb and length
	for _, k := range gen.DrawVerbs {
		for _, l := range []int{1, 15, 16, 17, 31, 32, 33, 40, 65} {
			for _, hires := range []bool{false, true} {
				ops := []rec.Op{reset, {K: rec.KStartPath, Adj: uint8(l % 7), F: [6]float32{1, 2}}}
				for i := 0; i < l; i++ {
					ops = append(ops, gen.DrawOp(r, k, &o))
				}
				// a second, different run right after, then the end
				ops = append(ops, gen.DrawOp(r, gen.DrawVerbs[(int(k)+3)%len(gen.DrawVerbs)], &o))
				ops = append(ops, rec.Op{K: rec.KClosePathEndPath})
				c01BC = append(c01BC, c01BCase{ops, hires, fmt.Sprintf("run %s x%d", k, l)})
			}
		}
	}
	// every colour kind under every adj / incr
	cols := []ivg.Color{
		ivg.RGBAColor(color.RGBA{0, 0, 0, 0xff}), ivg.RGBAColor(color.RGBA{0x40, 0x80, 0xc0, 0xff}), ivg.RGBAColor(color.RGBA{0xc0, 0xc0, 0xc0, 0xc0}),
		ivg.RGBAColor(color.RGBA{0x80, 0x80, 0x80, 0x80}), ivg.RGBAColor(color.RGBA{}), ivg.RGBAColor(color.RGBA{0x40, 0x40, 0x40, 0x40}),
		ivg.RGBAColor(color.RGBA{0x11, 0x22, 0x33, 0x44}), ivg.RGBAColor(color.RGBA{1, 2, 3, 0xff}), ivg.RGBAColor(color.RGBA{1, 2, 3, 4}),
		ivg.RGBAColor(color.RGBA{9, 8, 7, 1}), ivg.RGBAColor(gen.MakeGradientValue(10, 10, 1, 2, 3)), ivg.RGBAColor(color.RGBA{0xff, 0xff, 0xff, 0}),
		ivg.PaletteIndexColor(0), ivg.PaletteIndexColor(63), ivg.CRegColor(0), ivg.CRegColor(63), ivg.BlendColor(0, 0, 0), ivg.BlendColor(255, 0xff, 0x80), ivg.BlendColor(0x40, 0x7f, 0x80),
	}
	for _, col := range cols {
		ops := []rec.Op{reset}
		for adj := uint8(0); adj < 7; adj++ {
			ops = append(ops, rec.Op{K: rec.KSetCReg, Adj: adj, Col: col})
			ops = append(ops, rec.Op{K: rec.KSetNReg, Adj: adj, F: [6]float32{float32(adj) / 7}})
		}
		ops = append(ops, rec.Op{K: rec.KSetCReg, Incr: true, Col: col}, rec.Op{K: rec.KSetNReg, Incr: true, F: [6]float32{0.5}})
		ops = append(ops, rec.Op{K: rec.KSetCSel, Sel: 63}, rec.Op{K: rec.KSetNSel, Sel: 63}, rec.Op{K: rec.KSetCReg, Incr: true, Col: col}, rec.Op{K: rec.KSetNReg, Incr: true, F: [6]float32{0.25}})
		c01BC = append(c01BC, c01BCase{ops, false, "colour " + rec.Spec(col).String()})
	}
	// palette entries from the 0x40 grid (defect D1) and mixed-form palettes
	for i := 0; i < 625; i++ {
		p := ivg.DefaultPalette
		p[i%3] = gen.Grid40(i)
		if i%5 == 0 {
			p[40] = color.RGBA{0x11, 0x22, 0x33, 0x44}
		}
		pp := p
		c01BC = append(c01BC, c01BCase{[]rec.Op{{K: rec.KReset, VB: ivg.DefaultViewBox, Pal: &pp}, {K: rec.KSetCReg, Col: ivg.PaletteIndexColor(uint8(i % 3))}}, false, "palette grid"})
	}
	// boundary numbers in every operand position
	for bi := 0; bi < len(gen.Boundaries); bi += 4 {
		n := func(j int) float32 { return gen.Boundaries[(bi+j)%len(gen.Boundaries)] }
		for _, hires := range []bool{false, true} {
			ops := []rec.Op{reset,
				{K: rec.KSetLOD, F: [6]float32{n(0), n(1)}},
				{K: rec.KSetNReg, Adj: 1, F: [6]float32{n(0)}}, {K: rec.KSetNReg, Incr: true, F: [6]float32{n(1)}}, {K: rec.KSetNReg, F: [6]float32{n(2)}}, {K: rec.KSetNReg, F: [6]float32{n(3)}},
				{K: rec.KStartPath, F: [6]float32{n(0), n(1)}},
				{K: rec.KAbsLineTo, F: [6]float32{n(2), n(3)}},
				{K: rec.KRelCubeTo, F: [6]float32{n(0), n(1), n(2), n(3), n(0), n(2)}},
				{K: rec.KAbsArcTo, LargeArc: true, F: [6]float32{n(0), n(1), n(2), n(3), n(1)}},
				{K: rec.KRelArcTo, Sweep: true, F: [6]float32{n(3), n(2), n(1), n(0), n(2)}},
				{K: rec.KAbsHLineTo, F: [6]float32{n(1)}}, {K: rec.KRelVLineTo, F: [6]float32{n(3)}},
				{K: rec.KClosePathRelMoveTo, F: [6]float32{n(2), n(0)}},
				{K: rec.KRelSmoothQuadTo, F: [6]float32{n(3), n(1)}},
				{K: rec.KClosePathEndPath}}
			c01BC = append(c01BC, c01BCase{ops, hires, "boundary numbers"})
		}
	}
	return c01BC
}

func c01Boundary(c *run.Ctx, idx uint64) {
	bc := c01BoundaryCases()[idx]
	c.Eval(rec.HashOps(bc.ops)^uint64(map[bool]int{false: 0, true: 1}[bc.hires]), true)
	if c.WantSample() {
		c.Sample(map[string]interface{}{"case": bc.name, "highres": bc.hires, "calls": len(bc.ops)})
	}
	c01Forward(c, bc.ops, bc.hires, "boundary: "+bc.name)
}

// lastEnded returns the number of ops up to and including the last
// ClosePathEndPath (or all styling ops when no path is open at the end).
func splitUnterminated(ops []rec.Op) (complete int, open bool) {
	last := -1
	for i := range ops {
		if ops[i].K == rec.KStartPath {
			open = true
			last = i
		} else if ops[i].K == rec.KClosePathEndPath {
			open = false
		}
	}
	if !open {
		return len(ops), false
	}
	return last, true
}

func c01Transcode(c *run.Ctx, idx uint64) {
	r := c.Rng(idx)
	fs := corpus.Files()
	var s []byte
	family := ""
	switch {
	case idx < uint64(len(fs)):
		s, family = fs[idx].Data, "corpus"
	case idx%3 == 0:
		s, family = gen.Stream(r, r.Range(1, 40), false, r.Pick(0, 0, 0, 1, 2)), "structured"
	default:
		f := fs[r.Intn(len(fs))]
		s, family = gen.Mutate(r, f.Data, fs[r.Intn(len(fs))].Data), "corpus-mutation"
	}
	c.Input(s)
	ops0, err := decodeRec(s)
	if err != nil {
		c.Count("not_accepted", 1)
		return
	}
	c.Count("accepted_streams", 1)
	c.Eval(run.HashBytes(s), len(ops0) > 1)
	if c.WantSample() && len(ops0) > 3 {
		c.Sample(map[string]interface{}{"family": family, "stream": hx(s)})
	}
	_, openEnd := splitUnterminated(ops0)
	if openEnd {
		c.Count("unterminated", 1)
	}
	for _, hires := range []bool{false, true} {
		prevBytes := s
		prevOps := ops0
		var hop1 []rec.Op
		var hop2Bytes []byte
		oneEncoder := run.Hash64(run.HashBytes(s), 17)%2 == 0 // one Encoder for all four hops (Decode starts with Reset) or a fresh one per hop
		if oneEncoder {
			c.Count("one_encoder_for_all_hops", 1)
		}
		var shared encode.Encoder
		for hop := 1; hop <= 4; hop++ {
			var out []byte
			var eerr, derr error
			ok := c.Guard("transcode", func() interface{} { return hx(prevBytes) }, func() {
				var fresh encode.Encoder
				e := &fresh
				if oneEncoder {
					e = &shared
				}
				var dst ivg.Destination = e
				if hires {
					dst = hiResEnc{e}
				}
				if run.Hash64(run.HashBytes(s), uint64(hop))%8 == 3 {
					dst = &ivg.DestinationLogger{Destination: dst, Alt: hop%2 == 0} // through the public logging wrapper
					c.Count("hops_through_destination_logger", 1)
				}
				derr = decode.Decode(dst, prevBytes)
				var bb []byte
				bb, eerr = e.Bytes()
				out = append([]byte(nil), bb...)
			})
			if !ok {
				return
			}
			c.Count("hops", 1)
			det := func(extra map[string]interface{}) interface{} {
				d := map[string]interface{}{"family": family, "highres_encoder": hires, "hop": hop, "original": hx(s), "hop_input": hx(prevBytes)}
				for k, v := range extra {
					d[k] = v
				}
				return d
			}
			if derr != nil {
				c.Violate("transcode/accepted-stream-rejected-into-encoder", det(map[string]interface{}{"error": derr.Error()}))
				return
			}
			if eerr != nil {
				c.Violate("transcode/encoder-error", det(map[string]interface{}{"error": eerr.Error()}))
				return
			}
			ops, rerr := decodeRec(out)
			if rerr != nil {
				c.Violate("transcode/re-encoded-stream-rejected", det(map[string]interface{}{"error": rerr.Error(), "re_encoded": hx(out)}))
				return
			}
			res := ref.Parse(out)
			if sig, d := compareOpenAware(prevOps, ops, !hires, res.ShortZTO); sig != "" {
				d["re_encoded"] = hx(out)
				c.Violate("transcode/"+sig, det(d))
				return
			}
			if hop == 1 {
				hop1 = ops
			} else {
				// no drift: hop n against hop 1 under the same rule (hop 1 may
				// itself end inside a path, of which later hops keep a prefix)
				n := len(ops)
				if n > len(hop1) {
					n = len(hop1)
				}
				if sig, d := compareOpenAware(hop1, ops, !hires, res.ShortZTO); sig != "" {
					c.Violate("transcode/drift/"+sig, det(d))
					return
				}
			}
			if hop == 2 {
				hop2Bytes = out
			}
			if hop == 3 && !openEnd && len(res.ShortZTO) == 0 && len(ref.Parse(hop2Bytes).ShortZTO) == 0 {
				c.Count("fixed_point_checked", 1)
				if !bytes.Equal(out, hop2Bytes) {
					c.Violate("transcode/bytes-not-a-fixed-point", det(map[string]interface{}{"hop2": hx(hop2Bytes), "hop3": hx(out)}))
					return
				}
			}
			prevBytes, prevOps = out, ops
		}
	}
}

// compareOpenAware compares written and delivered call lists. When the
// written list ends inside an unterminated path, only the part up to the last
// ended path must be reproduced; what is delivered beyond it must be a prefix
// of the written remainder (DESIGN.md 6.9).
func compareOpenAware(in, out []rec.Op, lowres bool, shortZTO map[int]bool) (string, map[string]interface{}) {
	complete, open := splitUnterminated(in)
	if !open {
		if i, why := compareEncoded(in, out, lowres, shortZTO); i >= 0 {
			return why, map[string]interface{}{"index": i, "written": opStr(in, i), "delivered": opStr(out, i), "n_written": len(in), "n_delivered": len(out)}
		}
		return "", nil
	}
	if len(out) < complete {
		return "ops-lost", map[string]interface{}{"delivered": len(out), "complete_part": complete}
	}
	if len(out) > len(in) {
		return "extra-ops", map[string]interface{}{"delivered": len(out), "written": len(in)}
	}
	if i, why := compareEncoded(in[:complete], out[:complete], lowres, shortZTO); i >= 0 {
		return why, map[string]interface{}{"index": i, "written": opStr(in, i), "delivered": opStr(out, i)}
	}
	for i := complete; i < len(out); i++ {
		if why := compareOneEncoded(&in[i], &out[i], lowres, shortZTO[i]); why != "" {
			return "tail-not-prefix", map[string]interface{}{"index": i, "written": opStr(in, i), "delivered": opStr(out, i), "why": why}
		}
	}
	return "", nil
}

func opStr(ops []rec.Op, i int) string {
	if i >= 0 && i < len(ops) {
		return ops[i].String()
	}
	return "<none>"
}
