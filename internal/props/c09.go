package props

import (
	"fmt"
	"image"
	"image/color"

	"github.com/reactivego/ivg"
	"github.com/reactivego/ivg/decode"
	"github.com/reactivego/ivg/encode"
	"github.com/reactivego/ivg/render"

	"ivgverif/internal/gen"
	"ivgverif/internal/rec"
	"ivgverif/internal/ref"
	"ivgverif/internal/run"
)

// C09 — colours are stored exactly; colour forms and blending follow the
// tables. Monitors: written colour vs delivered colour through the real
// Encoder and Decoder; decoder output for hand-assembled colour operands vs
// the reference tables; Color.Resolve vs the blend formula.

func init() {
	tier := func(q, t uint64) func(string) uint64 {
		return func(s string) uint64 {
			if s == "thorough" {
				return t
			}
			return q
		}
	}
	run.Register(&run.Prop{
		ID:    "C09",
		Title: "Colours are stored exactly; colour forms and blending follow the tables",
		Rule:  "every evaluation is one colour (or one palette, or one blend triple) pushed through the real code; colours are enumerated (class grid, strides, or the whole space), so distinctness is by construction; non-trivial = not opaque black",
		Assumptions: []string{
			"reference colour tables and blend formula in internal/ref, written from the specification",
		},
		Subs: []*run.Sub{
			{Name: "rgba-roundtrip", N: tier(2+64, 1<<16), Run: c09RGBA,
				Rule: "SetCReg(RGBAColor(c)) through Encoder and Decoder: quick = the 18^4 channel-class grid + 2^22 strided/PRNG values; thorough = all 2^32 RGBA values",
				Min:  map[string]int64{"colors": 1 << 20, "enc_1byte": 100, "enc_2byte": 1000, "enc_3byte": 1000, "enc_4byte": 1000, "gradient_values": 1000, "nonpremultiplied": 1000}},
			{Name: "indirect-roundtrip", N: tier(1+16, 1+256), Run: c09Indirect,
				Rule: "palette index and register references (all 64 each, also unmasked arguments) and blends (quick: 2^20 strided triples; thorough: all 2^24) under every ADJ/increment variant",
				Min:  map[string]int64{"blends": 1 << 20, "references": 128}},
			{Name: "decoder-forms", N: tier(5*16, 5*256), Run: c09DecoderForms,
				Rule: "hand-assembled SetCReg instructions: all 256 one-byte colours, all 65536 two-byte colours, three-byte direct / four-byte / three-byte indirect patterns (strided in quick; all 2^24 three-byte patterns and 2^28 four-byte patterns in thorough), vs the reference tables",
				Min:  map[string]int64{"form_1byte": 256, "form_2byte": 65536, "form_3direct": 1 << 16, "form_4byte": 1 << 16, "form_3indirect": 1 << 16}},
			{Name: "blend-resolve", N: tier(256, 256), Run: c09Blend,
				Rule: "Color.Resolve of BlendColor(t,c0,c1) for all 2^24 triples under 2 (quick) or 8 (thorough) palette/register contents vs the formula on operands resolved by the reference machine",
				Min:  map[string]int64{"triples": 1 << 24, "t0": 1 << 16, "t255": 1 << 16, "premul_operands": 1 << 20}},
			{Name: "palettes", N: tier(625*3+20000, 625*3+300000), Run: c09Palette,
				Rule: "suggested palettes through Encoder.Reset and Decode: every colour of the 5^4 multiple-of-0x40 grid (premultiplied) at index 0, 1 and 63, then PRNG palettes mixing 1/2/3/4-byte encodable colours with 1..64 explicit entries and trailing blacks",
				Min:  map[string]int64{"palettes": 10000, "format_1": 100, "format_2": 100, "format_3": 100, "format_4": 100, "palette_after_viewbox_chunk": 5000, "direct_colours_equal_to_palette_entries": 30000, "hand_made_one_byte_palettes": 3000}},
			{Name: "renderer-registers", N: tier(40000, 600000), Run: c09Renderer,
				Rule: "chains of 2..10 stores into a real Renderer's colour registers (any RGBA value, also nonsensical ones; palette and register references; blends whose operands name registers stored earlier in the chain), each followed by a path filled from that register: the flat colour handed to Draw vs the blend formula on what the reference machine holds",
				Min:  map[string]int64{"stores": 100000, "blends_on_a_stored_register": 20000, "blends_on_a_nonpremultiplied_register": 3000, "flat_paints_judged": 10000}},
		},
	})
}

// c09Renderer: the registers of a real Renderer hold exactly what was stored -
// also values that cannot be painted themselves -, seen through later blends
// that take them as operands and the flat colour that reaches Draw.
func c09Renderer(c *run.Ctx, idx uint64) {
	r := c.Rng(idx)
	var pal [64]color.RGBA
	for i := range pal {
		if r.Chance(1, 4) {
			pal[i] = gen.AnyRGBA(r)
		} else {
			pal[i] = gen.Premul(r)
		}
	}
	rz := &rec.Raster{}
	var z render.Renderer
	z.SetRasterizer(rz, image.Rect(0, 0, 16, 16))
	if r.Bool() {
		// not a fresh Renderer: an earlier graphic has written its registers
		dirtyDestination(r, &z, ivg.DefaultPalette)
	}
	z.Reset(ivg.DefaultViewBox, pal)
	vm := ref.NewVM(ivg.DefaultViewBox, pal)
	var written []int
	var hist []string
	// store performs one store and the path filled from it, and judges what is painted
	store := func(reg int, spec rec.ColorSpec) bool {
		op := rec.Op{K: rec.KSetCReg, Col: spec.Color()}
		hist = append(hist, fmt.Sprintf("CREG[%d] = %s", reg, spec.String()))
		detail := func() interface{} {
			return map[string]interface{}{"palette": fmt.Sprint(pal), "stores": hist}
		}
		rz.ResetLog()
		ok := c.Guard("Renderer", detail, func() {
			z.SetCSel(uint8(reg))
			z.SetCReg(0, false, op.Col)
			z.StartPath(0, -8, -8)
			z.AbsLineTo(8, -8)
			z.AbsLineTo(8, 8)
			z.ClosePathEndPath()
		})
		if !ok {
			return false
		}
		vm.CSel = reg
		vm.Step(&op)
		written = append(written, reg)
		c.Count("stores", 1)
		want := vm.CReg[reg]
		c.Eval(run.Hash64(idx, uint64(len(hist))), want != color.RGBA{0, 0, 0, 0xff})
		switch {
		case want.R <= want.A && want.G <= want.A && want.B <= want.A && want.A != 0:
			c.Count("flat_paints_judged", 1)
			if rz.NDraw != 1 || len(rz.Calls) == 0 {
				c.Violate("register-value-not-painted", map[string]interface{}{"register": reg, "holds": fmt.Sprint(want), "draws": rz.NDraw, "stores": hist, "palette": fmt.Sprint(pal)})
				return false
			}
			last := rz.Calls[len(rz.Calls)-1]
			if last.K != rec.RDraw || last.Paint == nil || last.Paint.Kind != 0 || !last.Paint.UniOK || last.Paint.UniRGBA != want {
				c.Violate("painted-colour-differs-from-stored-value", map[string]interface{}{"register": reg, "holds": fmt.Sprint(want), "painted": fmt.Sprintf("%+v", last.Paint), "stores": hist, "palette": fmt.Sprint(pal)})
				return false
			}
		case ref.IsGradientValue(want):
			c.Count("gradient_values_not_judged_here", 1)
		default:
			// fully transparent or not premultiplied: nothing may be painted
			c.Count("unpaintable_values_stored", 1)
			if rz.NMut != 0 {
				c.Violate("activity-for-an-unpaintable-register-value", map[string]interface{}{"register": reg, "holds": fmt.Sprint(want), "stores": hist, "palette": fmt.Sprint(pal)})
				return false
			}
		}
		return true
	}
	direct := func() rec.ColorSpec {
		if r.Chance(1, 3) {
			return rec.ColorSpec{Typ: ivg.ColorTypeRGBA, RGBA: gen.Premul(r)}
		}
		return rec.ColorSpec{Typ: ivg.ColorTypeRGBA, RGBA: gen.AnyRGBA(r)}
	}
	graphics := r.Pick(1, 2)
	for g := 0; g < graphics; g++ {
		if g > 0 {
			// The next graphic on the same Renderer has the same custom palette: the
			// registers start out as that palette again, whatever the graphic before
			// stored in them. Its blends name the registers the first one wrote.
			c.Count("second_graphic_with_the_same_palette", 1)
			hist = append(hist, "Reset(same palette)")
			z.Reset(ivg.DefaultViewBox, pal)
			vm.Reset(ivg.DefaultViewBox, pal)
		}
		var lastBlend *rec.ColorSpec
		lastBlendReg := 0
		n := r.Range(2, 10)
		for k := 0; k < n; k++ {
			reg := r.Intn(64)
			var spec rec.ColorSpec
			switch {
			case lastBlend != nil && r.Chance(1, 5):
				// an operand register of the previous blend is rewritten, then the
				// very same blend is stored again: it is resolved again
				w := int(lastBlend.C0 & 63)
				if lastBlend.C0 < 0xc0 {
					w = int(lastBlend.C1 & 63)
				}
				c.Count("same_blend_again_after_its_operand_register_changed", 1)
				if !store(w, direct()) {
					return
				}
				reg, spec = lastBlendReg, *lastBlend
			case len(written) > 0 && r.Chance(3, 5):
				// a blend with at least one operand naming a register stored earlier
				w := written[r.Intn(len(written))]
				other := byte(r.Intn(256))
				spec = rec.ColorSpec{Typ: ivg.ColorTypeBlend, T: uint8(r.Pick(r.Intn(256), r.Intn(256), 0, 255, 1, 254, 128)), C0: 0xc0 | byte(w), C1: other}
				if r.Bool() {
					spec.C0, spec.C1 = spec.C1, spec.C0
				}
				c.Count("blends_on_a_stored_register", 1)
				if v := vm.CReg[w]; v.R > v.A || v.G > v.A || v.B > v.A {
					c.Count("blends_on_a_nonpremultiplied_register", 1)
				}
				sp := spec
				lastBlend, lastBlendReg = &sp, reg
			case len(written) > 0 && r.Chance(1, 4):
				spec = rec.ColorSpec{Typ: ivg.ColorTypeCReg, Idx: uint8(written[r.Intn(len(written))])}
			case r.Chance(1, 6):
				spec = rec.ColorSpec{Typ: ivg.ColorTypePaletteIndex, Idx: uint8(r.Intn(64))}
			default:
				spec = direct()
			}
			if !store(reg, spec) {
				return
			}
		}
	}
	if c.WantSample() {
		c.Sample(map[string]interface{}{"stores": hist})
	}
}

type colSink struct {
	rec.Nop
	cols []ivg.Color
	adj  []uint8
	incr []bool
}

func (s *colSink) SetCReg(adj uint8, incr bool, c ivg.Color) {
	s.cols = append(s.cols, c)
	s.adj = append(s.adj, adj)
	s.incr = append(s.incr, incr)
}

func rgbaOf(u uint32) color.RGBA {
	return color.RGBA{uint8(u >> 24), uint8(u >> 16), uint8(u >> 8), uint8(u)}
}

// c09Batch writes the colours with SetCReg, decodes and compares.
func c09Batch(c *run.Ctx, cols []ivg.Color, what string) {
	var e encode.Encoder
	if len(cols)%2 == 1 {
		dirtyDestination(run.NewRng(uint64(len(cols))), &e, ivg.DefaultPalette)
	}
	e.Reset(ivg.DefaultViewBox, ivg.DefaultPalette)
	adjs := make([]uint8, len(cols))
	incrs := make([]bool, len(cols))
	for i, col := range cols {
		adj, incr := uint8(i%7), false
		if i%8 == 7 {
			adj, incr = 0, true
		}
		adjs[i], incrs[i] = adj, incr
		e.SetCReg(adj, incr, col)
	}
	bb, err := e.Bytes()
	b := append([]byte(nil), bb...)
	if err != nil {
		c.Violate("encoder-error", map[string]interface{}{"what": what, "error": err.Error()})
		return
	}
	// count the forms the encoder chose
	p := 5
	for p < len(b) {
		op := b[p]
		if op < 0x80 || op >= 0xa8 {
			c.Violate("unexpected-encoding", map[string]interface{}{"what": what, "offset": p, "opcode": op})
			return
		}
		k := (op - 0x80) >> 3
		c.Count([]string{"enc_1byte", "enc_2byte", "enc_3byte", "enc_4byte", "enc_blend"}[k], 1)
		p += 1 + ref.ColorLen[k]
	}
	s := &colSink{}
	var derr error
	if !c.Guard("decode", nil, func() { derr = decode.Decode(s, b) }) {
		return
	}
	if derr != nil || len(s.cols) != len(cols) {
		c.Violate("decode-of-encoder-output", map[string]interface{}{"what": what, "error": errStr(derr), "delivered": len(s.cols), "written": len(cols)})
		return
	}
	for i, col := range cols {
		if s.cols[i] != col {
			c.Violate("color-changed/"+what, map[string]interface{}{"written": rec.Spec(col).String(), "delivered": rec.Spec(s.cols[i]).String()})
		}
		if s.adj[i] != adjs[i] || s.incr[i] != incrs[i] {
			c.Violate("adj-incr-changed/"+what, map[string]interface{}{"written": fmt.Sprint(adjs[i], incrs[i]), "delivered": fmt.Sprint(s.adj[i], s.incr[i]), "color": rec.Spec(col).String()})
		}
	}
}

func c09RGBA(c *run.Ctx, idx uint64) {
	var us []uint32
	cls := gen.ChanClasses()
	switch {
	case c.Thorough():
		us = make([]uint32, 1<<16)
		for j := range us {
			us[j] = uint32(idx)<<16 | uint32(j)
		}
		c.Exhaustive()
	case idx < 2:
		// half of the 18^4 class grid each
		n := len(cls)
		for i := int(idx); i < n*n*n*n; i += 2 {
			us = append(us, uint32(cls[i%n])<<24|uint32(cls[(i/n)%n])<<16|uint32(cls[(i/n/n)%n])<<8|uint32(cls[i/n/n/n]))
		}
	default:
		r := c.Rng(idx)
		k := uint32(idx - 2) // 64 blocks of 2^16
		us = make([]uint32, 1<<16)
		for j := range us {
			// stride through the space with a PRNG low part
			us[j] = uint32(j)<<16 ^ k<<10 ^ uint32(r.Intn(1<<16))
		}
	}
	var nt int64
	cols := make([]ivg.Color, len(us))
	for i, u := range us {
		k := rgbaOf(u)
		cols[i] = ivg.RGBAColor(k)
		if k != (color.RGBA{0, 0, 0, 0xff}) {
			nt++
		}
		if k.A == 0 && k.B >= 0x80 {
			c.Count("gradient_values", 1)
		} else if k.R > k.A || k.G > k.A || k.B > k.A {
			c.Count("nonpremultiplied", 1)
		}
	}
	for i := 0; i < len(cols); i += 1 << 14 {
		j := i + 1<<14
		if j > len(cols) {
			j = len(cols)
		}
		c09Batch(c, cols[i:j], "rgba")
	}
	c.Count("colors", int64(len(us)))
	c.EvalBulk(int64(len(us)), nt)
	if c.WantSample() {
		c.Sample(map[string]interface{}{"first": fmt.Sprintf("%08x", us[0]), "last": fmt.Sprintf("%08x", us[len(us)-1]), "count": len(us)})
	}
}

func c09Indirect(c *run.Ctx, idx uint64) {
	var cols []ivg.Color
	if idx == 0 {
		for i := 0; i < 256; i++ {
			cols = append(cols, ivg.PaletteIndexColor(uint8(i)), ivg.CRegColor(uint8(i)))
		}
		c.Count("references", int64(len(cols)))
		// unmasked arguments address modulo 64
		for i := 64; i < 256; i++ {
			if ivg.PaletteIndexColor(uint8(i)) != ivg.PaletteIndexColor(uint8(i&63)) || ivg.CRegColor(uint8(i)) != ivg.CRegColor(uint8(i&63)) {
				c.Violate("reference-not-modulo-64", map[string]interface{}{"index": i})
			}
		}
	} else {
		k := uint32(idx - 1)
		if c.Thorough() {
			for j := uint32(0); j < 1<<16; j++ {
				u := k<<16 | j
				cols = append(cols, ivg.BlendColor(uint8(u>>16), uint8(u>>8), uint8(u)))
			}
			c.Exhaustive()
		} else {
			r := c.Rng(idx)
			for j := uint32(0); j < 1<<16; j++ {
				u := j<<8 ^ k<<4 ^ uint32(r.Intn(256))
				cols = append(cols, ivg.BlendColor(uint8(u>>16), uint8(u>>8), uint8(u)))
			}
		}
		c.Count("blends", int64(len(cols)))
	}
	c09Batch(c, cols, "indirect")
	c.EvalBulk(int64(len(cols)), int64(len(cols)))
	if c.WantSample() {
		c.Sample(map[string]interface{}{"color": rec.Spec(cols[len(cols)/2]).String(), "count": len(cols)})
	}
}

func c09DecoderForms(c *run.Ctx, idx uint64) {
	form := int(idx % 5)
	blk := uint32(idx / 5)
	nblk := uint32(16)
	if c.Thorough() {
		nblk = 256
	}
	var pats [][]byte
	switch form {
	case 0:
		if blk != 0 {
			return
		}
		for i := 0; i < 256; i++ {
			pats = append(pats, []byte{byte(i)})
		}
	case 1:
		per := uint32(65536) / nblk
		for j := blk * per; j < (blk+1)*per; j++ {
			pats = append(pats, []byte{byte(j >> 8), byte(j)})
		}
	case 2, 4:
		if c.Thorough() {
			for j := uint32(0); j < 1<<16; j++ {
				u := blk<<16 | j
				pats = append(pats, []byte{byte(u >> 16), byte(u >> 8), byte(u)})
			}
		} else {
			r := c.Rng(idx)
			for j := uint32(0); j < 1<<14; j++ {
				u := j<<10 ^ blk<<6 ^ uint32(r.Intn(1024))
				pats = append(pats, []byte{byte(u >> 16), byte(u >> 8), byte(u)})
			}
		}
	case 3:
		r := c.Rng(idx)
		n := uint32(1 << 14)
		if c.Thorough() {
			n = 1 << 20
		}
		for j := uint32(0); j < n; j++ {
			var u uint32
			if c.Thorough() {
				u = j<<12 ^ blk<<4 ^ uint32(r.Intn(1<<12))
			} else {
				u = j<<18 ^ blk<<14 ^ uint32(r.Intn(1<<18))
			}
			pats = append(pats, []byte{byte(u >> 24), byte(u >> 16), byte(u >> 8), byte(u)})
		}
	}
	key := []string{"form_1byte", "form_2byte", "form_3direct", "form_4byte", "form_3indirect"}[form]
	for start := 0; start < len(pats); start += 1 << 14 {
		end := start + 1<<14
		if end > len(pats) {
			end = len(pats)
		}
		var a gen.Asm
		a.Magic()
		a.Nat(0, 1)
		for i, p := range pats[start:end] {
			a.Byte(0x80 + byte(form)*8 + byte(i%8))
			a.Byte(p...)
		}
		s := &colSink{}
		var err error
		if !c.Guard("decode", nil, func() { err = decode.Decode(s, a.B) }) {
			return
		}
		if err != nil || len(s.cols) != end-start {
			c.Violate("decoder-forms/decode-failed", map[string]interface{}{"form": key, "error": errStr(err)})
			return
		}
		for i, p := range pats[start:end] {
			want := ref.DecodeColor(form, p)
			got := rec.Spec(s.cols[i])
			if got != want || s.cols[i] != want.Color() {
				c.Violate("decoder-forms/"+key, map[string]interface{}{"bytes": hx(p), "delivered": got.String(), "specification": want.String()})
			}
			wantAdj, wantIncr := uint8(i%8), false
			if i%8 == 7 {
				wantAdj, wantIncr = 0, true
			}
			if s.adj[i] != wantAdj || s.incr[i] != wantIncr {
				c.Violate("decoder-forms/adj", map[string]interface{}{"opcode": 0x80 + form*8 + i%8, "adj": s.adj[i], "incr": s.incr[i]})
			}
		}
	}
	c.Count(key, int64(len(pats)))
	c.EvalBulk(int64(len(pats)), int64(len(pats)))
	if form < 2 || c.Thorough() && form != 3 {
		c.Exhaustive()
	}
	if c.WantSample() && len(pats) > 0 {
		c.Sample(map[string]interface{}{"form": key, "bytes": hx(pats[len(pats)/2]), "count": len(pats)})
	}
}

func c09Contents(k int) (pal, creg [64]color.RGBA) {
	r := run.NewRng(uint64(1000 + k))
	for i := 0; i < 64; i++ {
		switch k % 4 {
		case 0:
			pal[i], creg[i] = gen.Premul(r), gen.Premul(r)
		case 1:
			pal[i], creg[i] = gen.AnyRGBA(r), gen.AnyRGBA(r)
		case 2:
			pal[i], creg[i] = color.RGBA{uint8(i * 4), uint8(i * 3), uint8(i * 2), 0xff}, color.RGBA{uint8(i), uint8(i), uint8(i), uint8(255 - i)}
		default:
			pal[i], creg[i] = gen.Premul(r), gen.AnyRGBA(r)
		}
	}
	return
}

func c09Blend(c *run.Ctx, idx uint64) {
	t := uint8(idx)
	n := 2
	if c.Thorough() {
		n = 8
	}
	for k := 0; k < n; k++ {
		pal, creg := c09Contents(k)
		vm := &ref.VM{Pal: pal, CReg: creg}
		// resolve the 256 one-byte operands once, through the reference and the real code
		var refOne, realOne [256]color.RGBA
		for x := 0; x < 256; x++ {
			refOne[x] = vm.Resolve(ref.Color1(byte(x)))
			realOne[x] = ivg.DecodeColor1(byte(x)).Resolve(&pal, &creg)
			if refOne[x] != realOne[x] {
				c.Violate("one-byte-color-resolve", map[string]interface{}{"byte": x, "got": fmt.Sprint(realOne[x]), "want": fmt.Sprint(refOne[x]), "contents": k})
			}
		}
		for c0 := 0; c0 < 256; c0++ {
			a := refOne[c0]
			for c1 := 0; c1 < 256; c1++ {
				b := refOne[c1]
				got := ivg.BlendColor(t, uint8(c0), uint8(c1)).Resolve(&pal, &creg)
				want := ref.Blend(t, a, b)
				if got != want {
					c.Violate("blend-formula", map[string]interface{}{"t": t, "c0": c0, "c1": c1, "operands": fmt.Sprint(a, b), "got": fmt.Sprint(got), "want": fmt.Sprint(want), "contents": k})
				}
				if t == 0 && got != a {
					c.Violate("blend-t0-not-c0", map[string]interface{}{"c0": c0, "c1": c1, "got": fmt.Sprint(got), "c0_resolved": fmt.Sprint(a)})
				}
				if t == 255 && got != b {
					c.Violate("blend-t255-not-c1", map[string]interface{}{"c0": c0, "c1": c1, "got": fmt.Sprint(got), "c1_resolved": fmt.Sprint(b)})
				}
				if a.R <= a.A && a.G <= a.A && a.B <= a.A && b.R <= b.A && b.G <= b.A && b.B <= b.A {
					if k == 0 {
						c.Count("premul_operands", 1)
					}
					if got.R > got.A || got.G > got.A || got.B > got.A {
						c.Violate("blend-result-not-premultiplied", map[string]interface{}{"t": t, "operands": fmt.Sprint(a, b), "got": fmt.Sprint(got)})
					}
				}
			}
		}
		if pal != vm.Pal || creg != vm.CReg {
			c.Violate("resolve-modified-context", nil)
		}
	}
	c.Count("triples", 1<<16*int64(n))
	if t == 0 {
		c.Count("t0", 1<<16)
	}
	if t == 255 {
		c.Count("t255", 1<<16)
	}
	c.EvalBulk(1<<16*int64(n), 1<<16*int64(n))
	c.Exhaustive()
	if c.WantSample() {
		c.Sample(map[string]interface{}{"t": t, "c0": "0..255", "c1": "0..255", "contents": n})
	}
}

func c09Palette(c *run.Ctx, idx uint64) {
	pal := ivg.DefaultPalette
	if idx < 625*3 {
		pal[[]int{0, 1, 63}[idx/625]] = gen.Grid40(int(idx % 625))
	} else {
		r := c.Rng(idx)
		pal = gen.Palette(r)
		if r.Chance(1, 4) {
			// explicit opaque blacks in the middle and trailing region
			pal[r.Intn(64)] = color.RGBA{0, 0, 0, 0xff}
		}
	}
	var e encode.Encoder
	var b []byte
	var err error
	vb := ivg.DefaultViewBox
	if idx%2 == 1 {
		// the palette chunk follows a viewBox chunk
		vb = ivg.ViewBox{MinX: 0, MinY: 0, MaxX: 48, MaxY: float32(24 + idx%100)}
		c.Count("palette_after_viewbox_chunk", 1)
	}
	if idx%3 == 0 {
		// the Encoder has encoded another graphic (another viewBox, another palette) before
		past := gen.Palette(c.Rng(idx ^ 0x9a57))
		dirtyDestination(c.Rng(idx^0x9a58), &e, past)
		c.Count("encoder_with_a_past", 1)
	}
	// three register colours that are direct colours equal to palette entries
	var regs [3]ivg.Color
	for i := range regs {
		regs[i] = ivg.RGBAColor(pal[run.Hash64(idx, uint64(i))%64])
	}
	if !c.Guard("encode", func() interface{} { return fmt.Sprint(pal) }, func() {
		e.Reset(vb, pal)
		for i := range regs {
			e.SetCReg(uint8(i), false, regs[i])
		}
		var bb []byte
		bb, err = e.Bytes()
		b = append([]byte(nil), bb...)
	}) {
		return
	}
	h := uint64(0)
	for _, k := range pal {
		h = run.Hash64(h, uint64(k.R)<<24|uint64(k.G)<<16|uint64(k.B)<<8|uint64(k.A))
	}
	c.Eval(h, pal != ivg.DefaultPalette)
	c.Count("palettes", 1)
	if err != nil {
		c.Violate("encoder-error", map[string]interface{}{"palette": fmt.Sprint(pal), "error": err.Error()})
		return
	}
	if len(b) > 7 && b[4] == 0x02 {
		c.Count(fmt.Sprintf("format_%d", int(b[7]>>6)+1), 1)
	} else if m, me := ref.ParseMeta(b); me == nil && len(m.MIDs) == 2 && m.End > 0 {
		c.Count("format_with_viewbox", 1)
	}
	ops, derr := decodeRec(b)
	if derr != nil || len(ops) != 1+len(regs) || ops[0].K != rec.KReset {
		c.Violate("palette-stream-rejected", map[string]interface{}{"palette": fmt.Sprint(pal), "bytes": hx(b), "error": errStr(derr)})
		return
	}
	for i := range regs {
		if o := ops[1+i]; o.K != rec.KSetCReg || o.Col != regs[i] {
			c.Violate("direct-colour-equal-to-a-palette-entry-changed", map[string]interface{}{"written": rec.Spec(regs[i]).String(), "delivered": o.String(), "bytes": hx(b)})
			return
		}
	}
	c.Count("direct_colours_equal_to_palette_entries", int64(len(regs)))
	// decoding with an option that restates one entry changes nothing
	{
		k := int(run.Hash64(idx, 77) % 64)
		d2 := &rec.Dest{}
		if err2 := decode.Decode(d2, b, decode.WithColorAt(k, pal[k])); err2 != nil || len(d2.Ops) == 0 || d2.Ops[0].Pal == nil || *d2.Ops[0].Pal != pal {
			c.Violate("palette-changed-by-an-option-that-restates-an-entry", map[string]interface{}{"index": k, "bytes": hx(b), "error": errStr(err2)})
			return
		}
	}
	// a hand-made palette chunk in the 1-byte format, entries of every byte value:
	// direct 1-byte colours as the table says, indirect ones (0x80..0xff) opaque black
	if idx%4 == 2 {
		r := c.Rng(idx ^ 0xbead)
		n := r.Range(1, 64)
		body := []byte{0x02, byte(n - 1)} // MID 1, N-1 with format 0
		for i := 0; i < n; i++ {
			if r.Chance(1, 3) {
				body = append(body, byte(0x80+r.Intn(128)))
			} else {
				body = append(body, r.Byte())
			}
		}
		hb := append([]byte("\x89IVG\x02"), byte(len(body)<<1)) // at most 66 bytes: a 1-byte natural
		hb = append(hb, body...)
		want, werr := ref.ParseMeta(hb)
		got, gerr := decodeRec(hb)
		c.Count("hand_made_one_byte_palettes", 1)
		if werr != nil || gerr != nil || len(got) != 1 || got[0].Pal == nil || *got[0].Pal != want.Palette {
			c.Violate("hand-made-one-byte-palette", map[string]interface{}{"bytes": hx(hb), "decode_error": errStr(gerr), "reference_error": fmt.Sprint(werr)})
			return
		}
	}
	if *ops[0].Pal != pal {
		i := 0
		for ; ops[0].Pal[i] == pal[i]; i++ {
		}
		c.Violate("palette-entry-changed", map[string]interface{}{"index": i, "written": fmt.Sprint(pal[i]), "delivered": fmt.Sprint(ops[0].Pal[i]), "bytes": hx(b)})
	}
	if c.WantSample() {
		c.Sample(map[string]interface{}{"bytes": hx(b)})
	}
}
