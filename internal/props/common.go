// Package props holds one file per property: the workload that drives the
// real code and the monitors that judge what was recorded.
package props

import (
	"encoding/hex"
	"fmt"
	"image/color"

	"github.com/reactivego/ivg"
	"github.com/reactivego/ivg/decode"
	"github.com/reactivego/ivg/render"

	"ivgverif/internal/rec"
	"ivgverif/internal/ref"
	"ivgverif/internal/run"
)

func hx(b []byte) string {
	if len(b) > 600 {
		return hex.EncodeToString(b[:600]) + fmt.Sprintf("...(%d bytes)", len(b))
	}
	return hex.EncodeToString(b)
}

// decodeRec decodes b with the real decoder into a fresh recorder.
func decodeRec(b []byte, opts ...decode.DecodeOption) ([]rec.Op, error) {
	d := &rec.Dest{}
	err := decode.Decode(d, b, opts...)
	return d.Ops, err
}

// opsEqualRef compares a delivered op with the reference op: exact, except
// that 1- and 2-byte zero-to-one numbers may differ by one unit in the last
// place (the specification says "scaled by 1/120"; dividing and multiplying by
// the reciprocal are both conforming).
func opsEqualRef(got, want *rec.Op, shortZTO bool) bool {
	if rec.Equal(*got, *want) {
		return true
	}
	if !shortZTO {
		return false
	}
	g := *got
	switch g.K {
	case rec.KSetNReg:
		if ref.Ulps(g.F[0], want.F[0]) <= 1 {
			g.F[0] = want.F[0]
		}
	case rec.KAbsArcTo, rec.KRelArcTo:
		if ref.Ulps(g.F[2], want.F[2]) <= 1 {
			g.F[2] = want.F[2]
		}
	}
	return rec.Equal(g, *want)
}

// compareWithRef judges one byte string: accept/reject and delivered calls of
// the real decoder vs the reference parser. It returns false when a violation
// was recorded.
func compareWithRef(c *run.Ctx, b []byte, family string) bool {
	c.Input(b)
	var ops []rec.Op
	var err error
	if !c.Guard("decode", func() interface{} { return hx(b) }, func() { ops, err = decodeRec(b) }) {
		return false
	}
	// validation-only use: a nil Destination must not change what is accepted
	var nilErr error
	if !c.Guard("decode(nil destination)", func() interface{} { return hx(b) }, func() { nilErr = decode.Decode(nil, b) }) {
		return false
	}
	if (nilErr == nil) != (err == nil) {
		c.Violate("accept-depends-on-nil-destination", map[string]interface{}{"family": family, "input": hx(b), "with_recorder": errStr(err), "with_nil": errStr(nilErr)})
		return false
	}
	res := ref.Parse(b)
	if !res.Meta.MIDsIncreasing() {
		// Order and repetition of metadata chunks is a declared don't-care: what
		// such a section amounts to is not judged. A chunk that is invalid in
		// itself makes the stream invalid whatever its neighbours are, so when the
		// reference stops inside the metadata the decoder has to refuse as well.
		c.Count("dontcare_mid_order", 1)
		if res.Err != nil && res.Err.Stage < ref.StageInstr && err == nil {
			c.Violate("accepts-malformed", map[string]interface{}{"family": family, "input": hx(b), "what": "a metadata chunk is invalid in itself (identifiers repeat or are out of order, which is not judged)", "reference_error": res.Err.Msg})
			return false
		}
		return true
	}
	detail := func(what string, i int) interface{} {
		d := map[string]interface{}{"family": family, "input": hx(b), "what": what}
		if err != nil {
			d["decode_error"] = err.Error()
		}
		if res.Err != nil {
			d["reference_error"] = res.Err.Msg
		}
		if i >= 0 {
			d["op_index"] = i
			if i < len(ops) {
				d["got"] = ops[i].String()
			}
			if i < len(res.Ops) {
				d["want"] = res.Ops[i].String()
			}
		}
		d["n_got"], d["n_want"] = len(ops), len(res.Ops)
		return d
	}
	// metadata-only decoding is an entry point of the same decoder: it accepts
	// exactly the streams whose magic and metadata section are valid, and
	// returns the viewBox the full decode hands to Reset
	{
		var vb ivg.ViewBox
		var verr error
		if !c.Guard("DecodeViewBox", func() interface{} { return hx(b) }, func() { vb, verr = decode.DecodeViewBox(b) }) {
			return false
		}
		metaValid := res.Err == nil || res.Err.Stage >= ref.StageInstr
		if (verr == nil) != metaValid {
			d := detail("DecodeViewBox and the reference disagree on the metadata section", -1).(map[string]interface{})
			d["DecodeViewBox_error"] = errStr(verr)
			c.Violate("metadata-only-decoding-accept-differs", d)
			return false
		}
		if verr == nil && len(ops) > 0 && ops[0].K == rec.KReset && !(rec.SameBits(vb.MinX, ops[0].VB.MinX) && rec.SameBits(vb.MinY, ops[0].VB.MinY) && rec.SameBits(vb.MaxX, ops[0].VB.MaxX) && rec.SameBits(vb.MaxY, ops[0].VB.MaxY)) {
			d := detail("DecodeViewBox returns another viewBox than Reset receives", 0).(map[string]interface{})
			d["DecodeViewBox"] = fmt.Sprint(vb)
			c.Violate("metadata-only-decoding-viewbox-differs", d)
			return false
		}
	}
	if (err == nil) != (res.Err == nil) {
		if err == nil {
			c.Violate("accepts-malformed", detail("decoder accepts, reference rejects", -1))
		} else {
			c.Violate("rejects-well-formed", detail("decoder rejects, reference accepts", -1))
		}
		return false
	}
	if err == nil {
		c.Count("accepted", 1)
		if len(ops) != len(res.Ops) {
			c.Violate("op-count", detail("number of delivered operations", -1))
			return false
		}
	} else {
		c.Count("rejected", 1)
		if res.Err.Stage < ref.StageInstr && len(ops) > 0 {
			c.Violate("calls-before-valid-metadata", detail("calls delivered although magic/metadata invalid", 0))
			return false
		}
		if len(ops) > len(res.Ops) {
			c.Violate("extra-ops-before-error", detail("more operations delivered before the error than the grammar assigns", len(res.Ops)))
			return false
		}
	}
	var kinds [rec.NKinds]int64
	for i := range ops {
		if !opsEqualRef(&ops[i], &res.Ops[i], res.ShortZTO[i]) {
			c.Violate("op-mismatch/"+res.Ops[i].K.String(), detail("delivered operation differs from the specification's", i))
			return false
		}
		kinds[ops[i].K]++
	}
	countKinds(c, &kinds)
	return true
}

var opCountKeys = func() (k [rec.NKinds]string) {
	for i := range k {
		k[i] = "op_" + rec.Kind(i).String()
	}
	return
}()

func countKinds(c *run.Ctx, kinds *[rec.NKinds]int64) {
	for i, n := range kinds {
		if n > 0 {
			c.Count(opCountKeys[i], n)
		}
	}
}

// refMetaEnd returns the offset of the first instruction byte and whether the
// magic and metadata are valid according to the reference parser.
func refMetaEnd(b []byte) (int, bool) {
	m, e := ref.ParseMeta(b)
	return m.End, e == nil
}

// dirtyDestination gives a Destination (an Encoder or a Renderer with a
// rasterizer set) a past: another graphic was started on it with Reset, moved
// the selectors by plain and incrementing writes, filled registers, narrowed
// the LOD range and, half of the time, stopped in the middle of a path. A
// check that then calls Reset itself must see a destination indistinguishable
// from a fresh one (C17 states this; the other checks use such destinations
// because a caller may).
func dirtyDestination(r *run.Rng, dst ivg.Destination, pal [64]color.RGBA) {
	vb := ivg.ViewBox{MinX: -float32(r.Range(1, 40)), MinY: -float32(r.Range(1, 40)), MaxX: float32(r.Range(1, 40)), MaxY: float32(r.Range(1, 40))}
	dst.Reset(vb, pal)
	dst.SetCSel(uint8(r.Range(1, 63)))
	dst.SetNSel(uint8(r.Range(1, 63)))
	for n := r.Range(1, 70); n > 0; n-- {
		dst.SetCReg(0, true, ivg.RGBAColor(color.RGBA{0x20, uint8(n), 0x60, 0xf0}))
		dst.SetNReg(0, true, float32(n)/3)
	}
	dst.SetLOD(float32(r.Range(1, 9)), float32(r.Range(10, 19)))
	dst.SetLOD(0, float32(r.Range(1000, 2000)))
	switch r.Intn(3) {
	case 0:
		dst.StartPath(uint8(r.Intn(7)), 1, 2)
		dst.AbsQuadTo(3, 4, 5, 6)
		dst.RelSmoothQuadTo(1, 1)
	case 1:
		// the earlier graphic ended in a violation of the calling protocol (a drawing
		// call outside a path, a register adjustment that does not exist): an Encoder
		// has latched an error, which the next Reset forgets
		dst.AbsLineTo(1, 1)
		dst.SetCReg(9, false, ivg.RGBAColor(color.RGBA{1, 2, 3, 0xff}))
	}
}

// earlierGraphic makes a Renderer (rasterizer already set) the veteran of
// another graphic whose viewBox has the same size as vb but another origin,
// abandoned in the middle of a path: "nothing changed" shortcuts in Reset or in
// the transform computation then have something to get wrong.
func earlierGraphic(z *render.Renderer, vb ivg.ViewBox) {
	moved := ivg.ViewBox{MinX: vb.MinX + 3, MinY: vb.MinY - 5, MaxX: vb.MaxX + 3, MaxY: vb.MaxY - 5}
	z.Reset(moved, ivg.DefaultPalette)
	z.SetCSel(5)
	z.SetNSel(7)
	z.SetCReg(0, true, ivg.RGBAColor(color.RGBA{0x40, 0x20, 0x10, 0x80}))
	z.SetNReg(0, true, 0.25)
	z.StartPath(1, moved.MinX, moved.MinY)
	z.AbsQuadTo(moved.MaxX, moved.MinY, moved.MaxX, moved.MaxY)
	z.RelSmoothQuadTo(1, 1)
}

// viaLogger returns dst itself or, one time in n, dst behind an
// ivg.DestinationLogger in either of its two log formats (its output goes to the
// worker's /dev/null): the logger is a public Destination wrapper and must
// forward every call unchanged.
func viaLogger(r *run.Rng, n int, dst ivg.Destination) (ivg.Destination, bool) {
	if !r.Chance(1, n) {
		return dst, false
	}
	return &ivg.DestinationLogger{Destination: dst, Alt: r.Bool()}, true
}
