package run

import (
	"bufio"
	"encoding/binary"
	"encoding/json"
	"fmt"
	"os"
	"os/exec"
	"path/filepath"
	"regexp"
	"runtime"
	"sort"
	"strconv"
	"strings"
	"syscall"
	"time"
)

// VerifDir is the directory that holds evidence/, replays/ and
// KNOWN_FINDINGS.txt.
func VerifDir() string { return envOr("VERIF_DIR", "/verif") }

func evidenceDir() string { return envOr("VERIF_EVIDENCE_DIR", filepath.Join(VerifDir(), "evidence")) }
func replayDir() string   { return envOr("VERIF_REPLAY_DIR", filepath.Join(VerifDir(), "replays")) }

type workerProc struct {
	shard    int
	race     bool
	subs     []string
	cmd      *exec.Cmd
	done     chan error
	lastProg progState
	lastCPU  float64 // cpu seconds when lastProg was first seen
	restarts int
	timeouts int
	fromSub  int
	fromIdx  uint64
	finished bool
}

func rssBytes(pid int) int64 {
	b, err := os.ReadFile(fmt.Sprintf("/proc/%d/statm", pid))
	if err != nil {
		return -1
	}
	f := strings.Fields(string(b))
	if len(f) < 2 {
		return -1
	}
	n, _ := strconv.ParseInt(f[1], 10, 64)
	return n * int64(os.Getpagesize())
}

const maxWorkerRSS = 3 << 30

func (d *driver) caseLimit(sub int) float64 {
	if sub >= 0 && sub < len(d.p.Subs) && d.p.Subs[sub].CaseCPU > 0 {
		return d.p.Subs[sub].CaseCPU
	}
	return d.caseCPU
}

func cpuSeconds(pid int) float64 {
	b, err := os.ReadFile(fmt.Sprintf("/proc/%d/stat", pid))
	if err != nil {
		return -1
	}
	s := string(b)
	i := strings.LastIndexByte(s, ')')
	if i < 0 {
		return -1
	}
	f := strings.Fields(s[i+1:])
	if len(f) < 13 {
		return -1
	}
	ut, _ := strconv.ParseFloat(f[11], 64)
	st, _ := strconv.ParseFloat(f[12], 64)
	return (ut + st) / 100
}

type driver struct {
	p        *Prop
	tier     string
	seed     uint64
	dir      string
	exe      string
	raceExe  string
	nshard   int
	incon    []string
	extra    []Violation // crashes, nontermination, races
	raceRan  bool
	raceLogs int
	raceReps int
	caseCPU  float64
	wallStop time.Time
}

func (d *driver) subIndex(name string) int {
	for i, s := range d.p.Subs {
		if s.Name == name {
			return i
		}
	}
	return -1
}

func (d *driver) start(w *workerProc) error {
	exe := d.exe
	if w.race {
		exe = d.raceExe
	}
	args := []string{"worker", "-prop", d.p.ID, "-tier", d.tier, "-seed", fmt.Sprint(d.seed),
		"-shard", fmt.Sprint(w.shard), "-nshard", fmt.Sprint(d.nshard), "-out", d.dir,
		"-subs", strings.Join(w.subs, ","), "-from-sub", fmt.Sprint(w.fromSub), "-from-idx", fmt.Sprint(w.fromIdx)}
	cmd := exec.Command(exe, args...)
	cmd.Env = os.Environ()
	if w.race {
		cmd.Env = append(cmd.Env, fmt.Sprintf("GORACE=halt_on_error=0 log_path=%s/race.w%d", d.dir, w.shard))
	}
	se, err := os.OpenFile(fmt.Sprintf("%s/w%d.stderr", d.dir, w.shard), os.O_CREATE|os.O_WRONLY|os.O_APPEND, 0644)
	if err != nil {
		return err
	}
	cmd.Stderr = se
	cmd.Stdout = nil
	os.Remove(fmt.Sprintf("%s/w%d.progress", d.dir, w.shard))
	if err := cmd.Start(); err != nil {
		se.Close()
		return err
	}
	w.cmd = cmd
	w.done = make(chan error, 1)
	w.lastProg = progState{}
	w.lastCPU = 0
	go func() { w.done <- cmd.Wait(); se.Close() }()
	return nil
}

func tailFile(path string, n int) []string {
	b, err := os.ReadFile(path)
	if err != nil {
		return nil
	}
	lines := strings.Split(strings.TrimRight(string(b), "\n"), "\n")
	if len(lines) > n {
		lines = lines[len(lines)-n:]
	}
	return lines
}

func headFile(path string, n int) []string {
	b, err := os.ReadFile(path)
	if err != nil {
		return nil
	}
	lines := strings.Split(strings.TrimRight(string(b), "\n"), "\n")
	if len(lines) > n {
		lines = lines[:n]
	}
	return lines
}

// pinpoint re-executes one case in a fresh child under a CPU limit.
// outcome: "violation" (result holds it), "crash", "timeout", "pass".
func (d *driver) pinpoint(race bool, sub string, idx uint64) (string, *SubResult, []string) {
	exe := d.exe
	if race {
		exe = d.raceExe
	}
	out := fmt.Sprintf("%s/one.%s.%d.json", d.dir, sub, idx)
	errf := fmt.Sprintf("%s/one.%s.%d.stderr", d.dir, sub, idx)
	cmd := exec.Command(exe, "one", "-prop", d.p.ID, "-tier", d.tier, "-seed", fmt.Sprint(d.seed), "-sub", sub, "-idx", fmt.Sprint(idx), "-out", out)
	se, _ := os.Create(errf)
	cmd.Stderr = se
	if err := cmd.Start(); err != nil {
		return "pass", nil, []string{err.Error()}
	}
	done := make(chan error, 1)
	go func() { done <- cmd.Wait() }()
	limit := d.caseLimit(d.subIndex(sub))
	wall := time.Now().Add(time.Duration(limit*20) * time.Second)
	for {
		select {
		case err := <-done:
			se.Close()
			if b, rerr := os.ReadFile(out); rerr == nil {
				var r SubResult
				if json.Unmarshal(b, &r) == nil {
					if r.NViol > 0 {
						return "violation", &r, nil
					}
					if err == nil {
						return "pass", &r, nil
					}
				}
			}
			if err != nil {
				return "crash", nil, headFile(errf, 60)
			}
			return "pass", nil, nil
		case <-time.After(200 * time.Millisecond):
			if cpu := cpuSeconds(cmd.Process.Pid); cpu > limit || rssBytes(cmd.Process.Pid) > maxWorkerRSS {
				cmd.Process.Signal(syscall.SIGQUIT)
				time.Sleep(300 * time.Millisecond)
				cmd.Process.Kill()
				<-done
				se.Close()
				return "timeout", nil, headFile(errf, 60)
			}
			if time.Now().After(wall) {
				cmd.Process.Kill()
				<-done
				se.Close()
				return "pass", nil, []string{"wall-clock watchdog fired during pinpoint"}
			}
		}
	}
}

// Drive runs a whole check and returns the process exit status.
func Drive(propID, tier string) int {
	t0 := time.Now()
	p := Lookup(propID)
	if p == nil {
		fmt.Fprintf(os.Stderr, "unknown property %q (have %v)\n", propID, IDs())
		return 3
	}
	if tier != "quick" && tier != "thorough" {
		fmt.Fprintln(os.Stderr, "tier must be quick or thorough")
		return 3
	}
	seed := uint64(1)
	if v := os.Getenv("VERIF_SEED"); v != "" {
		if x, err := strconv.ParseInt(v, 0, 64); err == nil {
			seed = uint64(x)
		}
	}
	exe, _ := os.Executable()
	d := &driver{p: p, tier: tier, seed: seed, exe: exe, raceExe: os.Getenv("VERIF_RACE_BIN"), caseCPU: 60}
	d.nshard = runtime.NumCPU()
	if v := os.Getenv("VERIF_WORKERS"); v != "" {
		if x, err := strconv.Atoi(v); err == nil && x > 0 {
			d.nshard = x
		}
	}
	if d.nshard > 64 {
		d.nshard = 64
	}
	work := filepath.Join(VerifDir(), ".work")
	os.MkdirAll(work, 0755)
	dir, err := os.MkdirTemp(work, propID+"-"+tier+"-")
	if err != nil {
		fmt.Fprintln(os.Stderr, err)
		return 3
	}
	d.dir = dir
	defer os.RemoveAll(dir)
	wallLimit := 45 * time.Minute
	if tier == "thorough" {
		wallLimit = 16 * time.Hour
	}
	d.wallStop = t0.Add(wallLimit)

	var normal, race []string
	for _, s := range p.Subs {
		if s.N(tier) == 0 {
			continue
		}
		if s.Race {
			race = append(race, s.Name)
		} else {
			normal = append(normal, s.Name)
		}
	}
	if len(race) > 0 && d.raceExe == "" {
		d.incon = append(d.incon, "race binary not available (VERIF_RACE_BIN unset)")
		race = nil
	}
	// Two phases: normal workers, then race workers (each phase uses all cores).
	for phase, subs := range [][]string{normal, race} {
		if len(subs) == 0 {
			continue
		}
		d.runPhase(phase == 1, subs)
	}
	return d.finish(t0)
}

func (d *driver) runPhase(race bool, subs []string) {
	var ws []*workerProc
	for sh := 0; sh < d.nshard; sh++ {
		w := &workerProc{shard: sh, race: race, subs: subs}
		if err := d.start(w); err != nil {
			d.incon = append(d.incon, fmt.Sprintf("worker %d could not be started: %v", sh, err))
			w.finished = true
		}
		ws = append(ws, w)
	}
	progPath := func(w *workerProc) string { return fmt.Sprintf("%s/w%d.progress", d.dir, w.shard) }
	handleDeath := func(w *workerProc, why string) {
		ps := readProgress(progPath(w))
		if !ps.Active || ps.Sub >= len(d.p.Subs) {
			d.incon = append(d.incon, fmt.Sprintf("worker %d %s outside a case: %s", w.shard, why,
				strings.Join(tailFile(fmt.Sprintf("%s/w%d.stderr", d.dir, w.shard), 8), " | ")))
			w.finished = true
			return
		}
		sub := d.p.Subs[ps.Sub]
		outcome, res, errTail := d.pinpoint(race, sub.Name, ps.Idx)
		det := map[string]interface{}{"worker": why, "stderr": errTail}
		if len(ps.Data) > 0 {
			det["input_hex"] = fmt.Sprintf("%x", ps.Data)
			det["input_len"] = ps.FullLen
		}
		switch outcome {
		case "violation":
			d.extra = append(d.extra, res.Violations...)
		case "crash":
			d.extra = append(d.extra, Violation{Sub: sub.Name, Idx: ps.Idx, Sig: "crash", Detail: det})
		case "timeout":
			det["cpu_limit_s"] = d.caseLimit(ps.Sub)
			det["note"] = "the isolated case exceeded its CPU-time (or 3 GiB memory) limit in a fresh process"
			d.extra = append(d.extra, Violation{Sub: sub.Name, Idx: ps.Idx, Sig: "nontermination", Detail: det})
			w.timeouts++
		default:
			d.incon = append(d.incon, fmt.Sprintf("worker %d %s in %s case %d, but the case passes when run alone", w.shard, why, sub.Name, ps.Idx))
		}
		w.restarts++
		if w.restarts > 8 || w.timeouts > 1 {
			d.incon = append(d.incon, fmt.Sprintf("worker %d restarted too often; remainder of its shard not run", w.shard))
			w.finished = true
			return
		}
		// Resume after the failed case.
		w.fromSub, w.fromIdx = ps.Sub, ps.Idx+1
		if err := d.start(w); err != nil {
			d.incon = append(d.incon, fmt.Sprintf("worker %d could not be restarted: %v", w.shard, err))
			w.finished = true
		}
	}
	for {
		running := 0
		for _, w := range ws {
			if w.finished {
				continue
			}
			running++
			select {
			case err := <-w.done:
				if err == nil {
					w.finished = true
				} else {
					handleDeath(w, "died ("+err.Error()+")")
				}
				continue
			default:
			}
			// per-case CPU watchdog
			ps := readProgress(progPath(w))
			cpu := cpuSeconds(w.cmd.Process.Pid)
			if rssBytes(w.cmd.Process.Pid) > maxWorkerRSS {
				w.cmd.Process.Kill()
				<-w.done
				handleDeath(w, "exceeded 3 GiB of memory")
				continue
			}
			if ps.Active && w.lastProg.Active && ps.Sub == w.lastProg.Sub && ps.Idx == w.lastProg.Idx {
				limit := d.caseLimit(ps.Sub)
				if cpu-w.lastCPU > limit {
					w.cmd.Process.Signal(syscall.SIGQUIT)
					time.Sleep(200 * time.Millisecond)
					w.cmd.Process.Kill()
					<-w.done
					handleDeath(w, fmt.Sprintf("spent more than %.0f CPU-seconds on one case", limit))
					continue
				}
			} else {
				w.lastProg = ps
				w.lastCPU = cpu
			}
		}
		if running == 0 {
			break
		}
		if time.Now().After(d.wallStop) {
			for _, w := range ws {
				if !w.finished {
					w.cmd.Process.Kill()
					<-w.done
					w.finished = true
				}
			}
			d.incon = append(d.incon, "wall-clock watchdog fired; run abandoned")
			break
		}
		time.Sleep(100 * time.Millisecond)
	}
	if race {
		d.collectRaces()
	}
}

var raceFrameRe = regexp.MustCompile(`^\s+(github\.com/reactivego/ivg[^\s(]*)`)

func (d *driver) collectRaces() {
	files, _ := filepath.Glob(d.dir + "/race.w*")
	d.raceRan = true
	d.raceLogs += len(files)
	seen := map[string]bool{}
	for _, f := range files {
		fh, err := os.Open(f)
		if err != nil {
			continue
		}
		sc := bufio.NewScanner(fh)
		sc.Buffer(make([]byte, 1<<20), 1<<20)
		var block []string
		flush := func() {
			if len(block) == 0 {
				return
			}
			// signature: outermost /repo frames of the first two stacks
			var sig []string
			var last string
			stacks := 0
			for _, l := range block {
				if strings.TrimSpace(l) == "" {
					if last != "" && stacks < 2 {
						sig = append(sig, last)
						stacks++
					}
					last = ""
					continue
				}
				if m := raceFrameRe.FindStringSubmatch(l); m != nil {
					last = m[1]
				}
			}
			key := strings.Join(sig, "~")
			d.raceReps++
			if !seen[key] {
				seen[key] = true
				if len(block) > 60 {
					block = block[:60]
				}
				d.extra = append(d.extra, Violation{Sub: "race-detector", Sig: "race/" + key, Detail: map[string]interface{}{"report": append([]string(nil), block...)}})
			}
			block = nil
		}
		in := false
		for sc.Scan() {
			l := sc.Text()
			if strings.HasPrefix(l, "WARNING: DATA RACE") {
				flush()
				in = true
			}
			if strings.HasPrefix(l, "==================") {
				if in && len(block) > 0 {
					flush()
					in = false
				}
				continue
			}
			if in {
				block = append(block, l)
			}
		}
		flush()
		fh.Close()
	}
}

type subSummary struct {
	Evals      int64              `json:"evaluations"`
	Distinct   int64              `json:"distinct_nontrivial"`
	Exhaustive bool               `json:"exhaustive,omitempty"`
	Rule       string             `json:"rule,omitempty"`
	Counts     map[string]int64   `json:"observed_counts,omitempty"`
	Max        map[string]float64 `json:"observed_max,omitempty"`
	Violations int64              `json:"violations"`
	Complete   bool               `json:"complete"`
	Capped     bool               `json:"distinct_counting_capped,omitempty"`
}

func (d *driver) finish(t0 time.Time) int {
	p := d.p
	summ := map[string]*subSummary{}
	var samples []interface{}
	var viols []Violation
	totalEvals, totalDistinct := int64(0), int64(0)
	allExh := true
	for si, s := range p.Subs {
		if s.N(d.tier) == 0 {
			continue
		}
		ss := &subSummary{Counts: map[string]int64{}, Max: map[string]float64{}, Rule: s.Rule, Complete: true}
		summ[s.Name] = ss
		hashes := map[uint64]struct{}{}
		nres := 0
		exh := false
		digests := map[string]string{}
		digestFrom := map[string]int{}
		for sh := 0; sh < d.nshard; sh++ {
			b, err := os.ReadFile(fmt.Sprintf("%s/w%d.s%d.json", d.dir, sh, si))
			if err != nil {
				if !(s.Serial && sh != 0) {
					ss.Complete = false
				}
				continue
			}
			var r SubResult
			if err := json.Unmarshal(b, &r); err != nil {
				ss.Complete = false
				continue
			}
			nres++
			for k, v := range r.Digests {
				if old, ok := digests[k]; ok && old != v {
					viols = append(viols, Violation{Sub: s.Name, Sig: "result-depends-on-process-history", Detail: map[string]interface{}{"key": k,
						"worker_" + fmt.Sprint(digestFrom[k]): old, "worker_" + fmt.Sprint(sh): v,
						"meaning": "the same operations on the same inputs gave different results in two worker processes that had executed different operations before"}})
					ss.Violations++
				} else if !ok {
					digests[k], digestFrom[k] = v, sh
				}
			}
			ss.Evals += r.Evals
			ss.Distinct += r.BulkNT
			ss.Violations += r.NViol
			exh = exh || r.Exhaustive
			for k, v := range r.Counts {
				ss.Counts[k] += v
			}
			for k, v := range r.Max {
				if old, ok := ss.Max[k]; !ok || v > old {
					ss.Max[k] = v
				}
			}
			if len(samples) < 12 {
				for _, smp := range r.Samples {
					if len(samples) < 12 && sh < 2 {
						samples = append(samples, map[string]interface{}{"sub": s.Name, "case": smp})
					}
				}
			}
			viols = append(viols, r.Violations...)
			if hb, err := os.ReadFile(fmt.Sprintf("%s/w%d.s%d.hashes", d.dir, sh, si)); err == nil {
				if len(hb) >= 8*maxHashesPerSub {
					ss.Capped = true // this worker stopped recording: the rest is counted as not distinct
				}
				for i := 0; i+8 <= len(hb); i += 8 {
					hashes[binary.LittleEndian.Uint64(hb[i:])] = struct{}{}
				}
			}
		}
		ss.Distinct += int64(len(hashes))
		if len(digests) > 0 {
			ss.Counts["cross_process_digests_compared"] = int64(len(digests))
		}
		ss.Exhaustive = exh && ss.Complete
		if !ss.Exhaustive {
			allExh = false
		}
		if !ss.Complete {
			d.incon = append(d.incon, fmt.Sprintf("sub-monitor %s did not complete on every shard", s.Name))
		}
		for k, min := range s.Min {
			if ss.Counts[k] < min {
				d.incon = append(d.incon, fmt.Sprintf("sub-monitor %s observed %s=%d, needs >= %d", s.Name, k, ss.Counts[k], min))
			}
		}
		totalEvals += ss.Evals
		totalDistinct += ss.Distinct
	}
	viols = append(viols, d.extra...)

	// Classify against the known-findings file.
	known := loadKnown(filepath.Join(VerifDir(), "KNOWN_FINDINGS.txt"))
	os.RemoveAll(filepath.Join(replayDir(), p.ID))
	os.MkdirAll(filepath.Join(replayDir(), p.ID), 0755)
	sigSeen := map[string]int{}
	var lines []string
	knownHit := map[string]bool{}
	nNew := 0
	for _, v := range viols {
		full := p.ID + "/" + v.Sub + "/" + v.Sig
		if k := known.match(p.ID, v.Sub+"/"+v.Sig); k != "" {
			if !knownHit[k] {
				knownHit[k] = true
				fmt.Printf("KNOWN-FINDING: property=%s %s\n", p.ID, k)
			}
			continue
		}
		nNew++
		sigSeen[full]++
		if sigSeen[full] > 1 || len(lines) >= 20 {
			continue
		}
		name := sanitize(v.Sub+"-"+v.Sig) + fmt.Sprintf("-%d.json", v.Idx)
		path := filepath.Join(replayDir(), p.ID, name)
		rep := map[string]interface{}{"property": p.ID, "sub": v.Sub, "idx": v.Idx, "seed": d.seed, "tier": d.tier, "signature": v.Sig, "detail": v.Detail}
		b, err := json.MarshalIndent(rep, "", " ")
		if err != nil {
			rep["detail"] = fmt.Sprint(v.Detail)
			b, _ = json.MarshalIndent(rep, "", " ")
		}
		os.WriteFile(path, b, 0644)
		lines = append(lines, fmt.Sprintf("VIOLATION property=%s replay=%s", p.ID, path))
	}
	verdict := "held"
	status := 0
	if nNew > 0 {
		verdict, status = "violated", 1
	} else if len(d.incon) > 0 {
		verdict, status = "inconclusive", 2
	}
	for _, l := range lines {
		fmt.Println(l)
	}
	if nNew > 0 {
		sigs := make([]string, 0, len(sigSeen))
		for s, n := range sigSeen {
			sigs = append(sigs, fmt.Sprintf("%s x%d", s, n))
		}
		sort.Strings(sigs)
		for _, s := range sigs {
			fmt.Println("  signature:", s)
		}
	}
	for _, r := range d.incon {
		if status != 1 {
			fmt.Printf("INCONCLUSIVE property=%s reason=%s\n", p.ID, r)
		} else {
			fmt.Printf("note: %s\n", r)
		}
	}
	wall := time.Since(t0).Seconds()
	if len(samples) == 0 {
		samples = append(samples, "no sample recorded")
	}
	cov := map[string]interface{}{
		"evaluations":         totalEvals,
		"distinct_nontrivial": totalDistinct,
		"rule":                p.Rule,
		"samples":             samples,
		"sub_monitors":        summ,
		"exhaustive":          allExh && len(summ) > 0,
		"workers":             d.nshard,
	}
	if d.raceRan {
		cov["race_detector"] = map[string]interface{}{"build": "go build -race (implies checkptr)", "GORACE": "halt_on_error=0 log_path=<per worker>",
			"log_files": d.raceLogs, "data_race_reports": d.raceReps}
	}
	ev := map[string]interface{}{
		"property_id":  p.ID,
		"tier":         d.tier,
		"seed":         int64(d.seed),
		"level":        "exploration",
		"coverage":     cov,
		"assumptions":  p.Assumptions,
		"wall_s":       wall,
		"violations":   nNew,
		"verdict":      verdict,
		"inconclusive": d.incon,
		"known_hit":    len(knownHit),
		"repo":         RepoDir(),
	}
	os.MkdirAll(evidenceDir(), 0755)
	b, err := json.MarshalIndent(ev, "", " ")
	if err != nil {
		cov["samples"] = []interface{}{fmt.Sprint(samples)}
		b, _ = json.MarshalIndent(ev, "", " ")
	}
	os.WriteFile(filepath.Join(evidenceDir(), p.ID+".json"), append(b, '\n'), 0644)
	fmt.Printf("%s %s seed=%d: %s; %d evaluations, %d distinct non-trivial, %d violations, %.1fs\n", p.ID, d.tier, d.seed, verdict, totalEvals, totalDistinct, nNew, wall)
	return status
}

func sanitize(s string) string {
	var b strings.Builder
	for _, r := range s {
		switch {
		case r >= 'a' && r <= 'z', r >= 'A' && r <= 'Z', r >= '0' && r <= '9', r == '-', r == '_', r == '.':
			b.WriteRune(r)
		default:
			b.WriteByte('_')
		}
	}
	out := b.String()
	if len(out) > 100 {
		out = out[:100]
	}
	return out
}

// known findings ------------------------------------------------------------

type knownSet struct{ entries []knownEntry }
type knownEntry struct{ prop, sig, text string }

func loadKnown(path string) knownSet {
	var ks knownSet
	b, err := os.ReadFile(path)
	if err != nil {
		return ks
	}
	for _, l := range strings.Split(string(b), "\n") {
		l = strings.TrimSpace(l)
		if !strings.HasPrefix(l, "known:") {
			continue // "fixed:" entries and comments suppress nothing
		}
		f := strings.Fields(l[len("known:"):])
		e := knownEntry{}
		var rest []string
		for _, w := range f {
			switch {
			case strings.HasPrefix(w, "property="):
				e.prop = w[len("property="):]
			case strings.HasPrefix(w, "sig="):
				e.sig = w[len("sig="):]
				rest = append(rest, w)
			default:
				rest = append(rest, w)
			}
		}
		e.text = strings.Join(rest, " ")
		if e.prop != "" && e.sig != "" {
			ks.entries = append(ks.entries, e)
		}
	}
	return ks
}

func (k knownSet) match(prop, sig string) string {
	for _, e := range k.entries {
		if e.prop == prop && e.sig == sig {
			return e.text
		}
	}
	return ""
}

// ReplayMain re-executes the case named by a replay file.
func ReplayMain(path string) int {
	b, err := os.ReadFile(path)
	if err != nil {
		fmt.Fprintln(os.Stderr, err)
		return 3
	}
	var rep struct {
		Property string `json:"property"`
		Sub      string `json:"sub"`
		Idx      uint64 `json:"idx"`
		Seed     uint64 `json:"seed"`
		Tier     string `json:"tier"`
		Sig      string `json:"signature"`
	}
	if err := json.Unmarshal(b, &rep); err != nil {
		fmt.Fprintln(os.Stderr, err)
		return 3
	}
	p := Lookup(rep.Property)
	if p == nil {
		fmt.Fprintln(os.Stderr, "unknown property", rep.Property)
		return 3
	}
	for _, s := range p.Subs {
		if s.Name == rep.Sub {
			fmt.Printf("replaying %s/%s case %d (seed %d, tier %s); recorded signature %s\n", rep.Property, rep.Sub, rep.Idx, rep.Seed, rep.Tier, rep.Sig)
			res := RunOne(p, s, rep.Seed, rep.Tier, rep.Idx, true)
			if res.NViol > 0 {
				fmt.Printf("VIOLATION property=%s replay=%s\n", rep.Property, path)
				return 1
			}
			fmt.Println("case passes on the current tree")
			return 0
		}
	}
	fmt.Fprintf(os.Stderr, "sub-monitor %q is driver-level (crash/race/nontermination); re-run the check to reproduce\n", rep.Sub)
	return 3
}

// OneMain runs a single case in a fresh process and writes its result.
func OneMain(prop, tier string, seed uint64, sub string, idx uint64, out string) int {
	p := Lookup(prop)
	if p == nil {
		return 3
	}
	if devnull, err := os.OpenFile("/dev/null", os.O_WRONLY, 0); err == nil {
		os.Stdout = devnull
	}
	for _, s := range p.Subs {
		if s.Name == sub {
			res := RunOne(p, s, seed, tier, idx, false)
			b, err := json.Marshal(res)
			if err != nil {
				for i := range res.Violations {
					res.Violations[i].Detail = fmt.Sprint(res.Violations[i].Detail)
				}
				res.Samples = nil
				b, _ = json.Marshal(res)
			}
			os.WriteFile(out, b, 0644)
			return 0
		}
	}
	return 3
}
