// Package run is the execution framework shared by all property checks:
// deterministic case enumeration, sharding over worker processes, a progress
// page that survives a crash of the worker, three-valued verdicts, evidence
// and replay files.
package run

import (
	"fmt"
	"os"
	"runtime/debug"
	"sort"
	"strings"
	"syscall"
)

// Sub is one sub-monitor of a property: a deterministic, indexable list of
// cases, each of which drives the real code and applies an oracle.
type Sub struct {
	Name string
	// N returns the number of case indices for the tier ("quick"/"thorough").
	N func(tier string) uint64
	// Run executes case idx. It reports through c.
	Run func(c *Ctx, idx uint64)
	// Rule documents how cases are generated and what counts as non-trivial.
	Rule string
	// Min lists counters (Ctx.Count keys) with the minimum total the merged
	// run must have observed; falling short makes the verdict inconclusive.
	Min map[string]int64
	// Race marks sub-monitors that must run in the -race build.
	Race bool
	// Serial marks sub-monitors that must run in a single worker (they start
	// goroutines or processes of their own).
	Serial bool
	// CaseCPU is the CPU-seconds limit of a single case (0 = default 60). A
	// case that exceeds it when run alone is reported as non-terminating.
	CaseCPU float64
}

// Prop is a property check.
type Prop struct {
	ID          string
	Title       string
	Subs        []*Sub
	Assumptions []string
	Rule        string
}

var registry = map[string]*Prop{}

func Register(p *Prop) { registry[p.ID] = p }

func Lookup(id string) *Prop { return registry[id] }

func IDs() []string {
	var ids []string
	for id := range registry {
		ids = append(ids, id)
	}
	sort.Strings(ids)
	return ids
}

// Violation is one failed oracle application.
type Violation struct {
	Sub    string      `json:"sub"`
	Idx    uint64      `json:"idx"`
	Sig    string      `json:"sig"`
	Detail interface{} `json:"detail"`
}

const (
	maxViolationsPerSub = 24
	maxSamplesPerSub    = 3
	maxHashesPerSub     = 1 << 18
)

// SubResult is what one worker observed for one sub-monitor.
type SubResult struct {
	Sub        string             `json:"sub"`
	Evals      int64              `json:"evals"`
	BulkNT     int64              `json:"bulk_nontrivial"` // distinct by construction
	Counts     map[string]int64   `json:"counts"`
	Max        map[string]float64 `json:"max"`
	Samples    []interface{}      `json:"samples"`
	Violations []Violation        `json:"violations"`
	NViol      int64              `json:"nviol"`
	Exhaustive bool               `json:"exhaustive"`
	Done       bool               `json:"done"`
	// Digests are results that must be identical wherever (in whichever
	// worker process, after whatever history) they are computed.
	Digests map[string]string `json:"digests,omitempty"`
	hashes  map[uint64]struct{}
}

// Ctx is handed to Sub.Run.
type Ctx struct {
	Prop   string
	Sub    *Sub
	Seed   uint64
	Tier   string
	Shard  int
	NShard int
	Replay bool // single-case replay: be verbose
	res    *SubResult
	prog   *progress
	subIdx int
	curIdx uint64
}

// Thorough reports whether the thorough tier is running.
func (c *Ctx) Thorough() bool { return c.Tier == "thorough" }

// Rng returns the PRNG for case idx of this sub-monitor.
func (c *Ctx) Rng(idx uint64) *Rng {
	return NewRng(Hash64(c.Seed, HashString(c.Prop), HashString(c.Sub.Name), idx))
}

// Count adds n to a named counter of what the monitor observed.
func (c *Ctx) Count(key string, n int64) { c.res.Counts[key] += n }

// MaxF records the maximum of a named observed quantity.
func (c *Ctx) MaxF(key string, v float64) {
	if old, ok := c.res.Max[key]; !ok || v > old {
		c.res.Max[key] = v
	}
}

// Eval records one oracle application. hash identifies the case content;
// nontrivial says whether the case satisfies the sub-monitor's rule.
func (c *Ctx) Eval(hash uint64, nontrivial bool) {
	c.res.Evals++
	if nontrivial && len(c.res.hashes) < maxHashesPerSub {
		c.res.hashes[hash] = struct{}{}
	}
}

// EvalBulk records n oracle applications over values that are distinct by
// construction (enumeration), nt of which are non-trivial by the rule.
func (c *Ctx) EvalBulk(n, nt int64) {
	c.res.Evals += n
	c.res.BulkNT += nt
}

// Digest records a result under a key. The driver compares the values
// recorded for the same key by different worker processes: they must agree
// (a disagreement means the result depended on the process's earlier
// history, i.e. on state that survived from one operation to the next).
func (c *Ctx) Digest(key, value string) {
	if c.res.Digests == nil {
		c.res.Digests = map[string]string{}
	}
	if old, ok := c.res.Digests[key]; ok && old != value {
		c.Violate("result-depends-on-history", map[string]interface{}{"key": key, "first": old, "now": value})
		return
	}
	c.res.Digests[key] = value
}

// Exhaustive marks the sub-monitor as having enumerated a finite space.
func (c *Ctx) Exhaustive() { c.res.Exhaustive = true }

// Sample keeps a few actual cases for the evidence file.
func (c *Ctx) Sample(v interface{}) {
	if len(c.res.Samples) < maxSamplesPerSub {
		c.res.Samples = append(c.res.Samples, v)
	}
}

// WantSample reports whether another sample would be kept.
func (c *Ctx) WantSample() bool { return len(c.res.Samples) < maxSamplesPerSub }

// Violate records a violation with a signature (a short, stable name of the
// failed predicate) and a detail object describing the concrete case.
func (c *Ctx) Violate(sig string, detail interface{}) {
	c.res.NViol++
	if len(c.res.Violations) < maxViolationsPerSub {
		c.res.Violations = append(c.res.Violations, Violation{Sub: c.Sub.Name, Idx: c.curIdx, Sig: sig, Detail: detail})
	}
	if c.Replay {
		fmt.Fprintf(Out, "  violated: %s: %v\n", sig, detail)
	}
}

// Violated reports whether the current sub-monitor already has violations.
func (c *Ctx) Violated() int64 { return c.res.NViol }

// Input stores the bytes of the input about to be handed to the code under
// test in the shared progress page, so that it survives a fatal error.
func (c *Ctx) Input(b []byte) {
	if c.prog != nil {
		c.prog.setData(b)
	}
}

// Guard runs f, converting a panic into a violation. It returns false if f
// panicked.
func (c *Ctx) Guard(what string, detail func() interface{}, f func()) (ok bool) {
	defer func() {
		if r := recover(); r != nil {
			ok = false
			st := string(debug.Stack())
			if len(st) > 3000 {
				st = st[:3000]
			}
			var d interface{}
			if detail != nil {
				d = detail()
			}
			c.Violate("panic/"+what, map[string]interface{}{"panic": fmt.Sprint(r), "stack": strings.Split(st, "\n"), "case": d})
		}
	}()
	f()
	return true
}

// GuardDep is Guard for calls that run third-party code behind the code under
// test (golang.org/x/image/vector behind raster/vec): a panic raised inside the
// named dependency (innermost non-runtime frame) is counted and sampled as
// "dependency_panic" but is not a violation of the code under test; dep
// reports that case. Any other panic is a violation as with Guard.
func (c *Ctx) GuardDep(what, depPrefix string, detail func() interface{}, f func()) (ok, dep bool) {
	defer func() {
		if r := recover(); r != nil {
			ok = false
			st := string(debug.Stack())
			if len(st) > 3000 {
				st = st[:3000]
			}
			lines := strings.Split(st, "\n")
			origin := ""
			seenPanic := false
			for _, l := range lines {
				if strings.HasPrefix(l, "\t") {
					continue
				}
				if strings.HasPrefix(l, "panic(") {
					seenPanic = true
					continue
				}
				if !seenPanic || strings.HasPrefix(l, "runtime.") {
					continue
				}
				origin = l
				break
			}
			var d interface{}
			if detail != nil {
				d = detail()
			}
			if strings.HasPrefix(origin, depPrefix) {
				dep = true
				c.Count("dependency_panic", 1)
				if n := c.res.Counts["dependency_panic"]; n <= 2 {
					c.res.Samples = append(c.res.Samples, map[string]interface{}{"dependency_panic": fmt.Sprint(r), "origin": origin, "case": d})
				}
				return
			}
			c.Violate("panic/"+what, map[string]interface{}{"panic": fmt.Sprint(r), "stack": lines, "case": d})
		}
	}()
	f()
	return true, false
}

func newSubResult(name string) *SubResult {
	return &SubResult{Sub: name, Counts: map[string]int64{}, Max: map[string]float64{}, hashes: map[uint64]struct{}{}}
}

// Out is where the framework itself prints (the library under test prints to
// os.Stdout through its loggers, which is redirected while cases run).
var Out = os.Stdout

// RunOne executes a single case in-process (used by replay and pinpointing).
func RunOne(p *Prop, s *Sub, seed uint64, tier string, idx uint64, verbose bool) *SubResult {
	res := newSubResult(s.Name)
	c := &Ctx{Prop: p.ID, Sub: s, Seed: seed, Tier: tier, NShard: 1, Replay: verbose, res: res, curIdx: idx}
	saved := os.Stdout
	if devnull, err := os.OpenFile("/dev/null", os.O_WRONLY, 0); err == nil {
		os.Stdout = devnull
		defer func() { os.Stdout = saved; devnull.Close() }()
	}
	c.Guard("case", nil, func() { s.Run(c, idx) })
	return res
}

func envOr(k, d string) string {
	if v := os.Getenv(k); v != "" {
		return v
	}
	return d
}

// RepoDir is the directory of the library under test.
func RepoDir() string { return envOr("VERIF_REPO", "/repo") }

// ThreadCPU returns the CPU time (user + system, seconds) the calling OS thread
// has used so far. Monitors use differences of it, taken on a goroutine locked
// to its thread, as a load-independent measure of the work a case caused (never
// the wall clock; not the process's CPU time either, which includes the
// garbage collector's background workers on all cores).
func ThreadCPU() float64 {
	var ru syscall.Rusage
	const rusageThread = 1 // RUSAGE_THREAD (Linux)
	if syscall.Getrusage(rusageThread, &ru) != nil {
		return 0
	}
	return float64(ru.Utime.Sec+ru.Stime.Sec) + float64(ru.Utime.Usec+ru.Stime.Usec)/1e6
}
