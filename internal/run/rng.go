package run

import "math"

// Rng is a small deterministic PRNG (splitmix64 seeding a xoshiro256**). It is
// implemented here so that case lists do not depend on the Go release.
type Rng struct{ s [4]uint64 }

func splitmix(x *uint64) uint64 {
	*x += 0x9e3779b97f4a7c15
	z := *x
	z = (z ^ (z >> 30)) * 0xbf58476d1ce4e5b9
	z = (z ^ (z >> 27)) * 0x94d049bb133111eb
	return z ^ (z >> 31)
}

// Hash64 mixes a list of words into one.
func Hash64(ws ...uint64) uint64 {
	h := uint64(0x243f6a8885a308d3)
	for _, w := range ws {
		h ^= w
		h = splitmix(&h)
	}
	return h
}

// HashString hashes a string (FNV-1a 64, then mixed).
func HashString(s string) uint64 {
	h := uint64(0xcbf29ce484222325)
	for i := 0; i < len(s); i++ {
		h ^= uint64(s[i])
		h *= 0x100000001b3
	}
	return h
}

// HashBytes hashes a byte slice.
func HashBytes(b []byte) uint64 {
	h := uint64(0xcbf29ce484222325)
	for _, c := range b {
		h ^= uint64(c)
		h *= 0x100000001b3
	}
	return h
}

func NewRng(seed uint64) *Rng {
	r := &Rng{}
	x := seed
	for i := range r.s {
		r.s[i] = splitmix(&x)
	}
	return r
}

func rotl(x uint64, k uint) uint64 { return (x << k) | (x >> (64 - k)) }

func (r *Rng) U64() uint64 {
	s := &r.s
	res := rotl(s[1]*5, 7) * 9
	t := s[1] << 17
	s[2] ^= s[0]
	s[3] ^= s[1]
	s[1] ^= s[2]
	s[0] ^= s[3]
	s[2] ^= t
	s[3] = rotl(s[3], 45)
	return res
}

func (r *Rng) U32() uint32 { return uint32(r.U64() >> 32) }

// Intn returns a value in [0, n). n must be > 0.
func (r *Rng) Intn(n int) int {
	if n <= 0 {
		return 0
	}
	return int(r.U64() % uint64(n))
}

// Range returns a value in [lo, hi].
func (r *Rng) Range(lo, hi int) int { return lo + r.Intn(hi-lo+1) }

func (r *Rng) Bool() bool { return r.U64()&1 == 1 }

// Chance returns true with probability num/den.
func (r *Rng) Chance(num, den int) bool { return r.Intn(den) < num }

// F64 returns a uniform value in [0,1).
func (r *Rng) F64() float64 { return float64(r.U64()>>11) / (1 << 53) }

// Uniform returns a uniform value in [lo,hi).
func (r *Rng) Uniform(lo, hi float64) float64 { return lo + (hi-lo)*r.F64() }

// LogUniform returns a value log-uniformly distributed in [lo,hi], lo>0.
func (r *Rng) LogUniform(lo, hi float64) float64 {
	return math.Exp(r.Uniform(math.Log(lo), math.Log(hi)))
}

func (r *Rng) Byte() byte { return byte(r.U64() >> 56) }

func (r *Rng) Bytes(n int) []byte {
	b := make([]byte, n)
	for i := range b {
		b[i] = r.Byte()
	}
	return b
}

// Pick returns one of the given ints.
func (r *Rng) Pick(v ...int) int { return v[r.Intn(len(v))] }

// PickF returns one of the given floats.
func (r *Rng) PickF(v ...float64) float64 { return v[r.Intn(len(v))] }

// PickS returns one of the strings.
func (r *Rng) PickS(v ...string) string { return v[r.Intn(len(v))] }

// Clone returns an independent copy of the generator in its current state.
func (r *Rng) Clone() *Rng { c := *r; return &c }
