package run

import (
	"encoding/binary"
	"encoding/json"
	"fmt"
	"os"
	"syscall"
)

// progress is a small file-backed shared page. The worker stores the
// sub-monitor and case index it is about to execute (and optionally the input
// bytes) with plain memory writes; the page outlives a crash of the worker.
type progress struct {
	m []byte
}

const progSize = 16384

func openProgress(path string) (*progress, error) {
	f, err := os.OpenFile(path, os.O_RDWR|os.O_CREATE, 0644)
	if err != nil {
		return nil, err
	}
	defer f.Close()
	if err := f.Truncate(progSize); err != nil {
		return nil, err
	}
	m, err := syscall.Mmap(int(f.Fd()), 0, progSize, syscall.PROT_READ|syscall.PROT_WRITE, syscall.MAP_SHARED)
	if err != nil {
		return nil, err
	}
	return &progress{m: m}, nil
}

func (p *progress) set(sub int, idx uint64) {
	binary.LittleEndian.PutUint64(p.m[8:], idx)
	binary.LittleEndian.PutUint32(p.m[16:], 0)
	binary.LittleEndian.PutUint64(p.m[0:], uint64(sub)+1)
}

func (p *progress) setData(b []byte) {
	n := len(b)
	if n > progSize-24 {
		n = progSize - 24
	}
	copy(p.m[24:], b[:n])
	binary.LittleEndian.PutUint32(p.m[16:], uint32(n))
	binary.LittleEndian.PutUint32(p.m[20:], uint32(len(b)))
}

func (p *progress) clear() { binary.LittleEndian.PutUint64(p.m[0:], 0) }

type progState struct {
	Active  bool
	Sub     int
	Idx     uint64
	Data    []byte
	FullLen int
}

func readProgress(path string) progState {
	b, err := os.ReadFile(path)
	if err != nil || len(b) < 24 {
		return progState{}
	}
	s := binary.LittleEndian.Uint64(b[0:])
	if s == 0 {
		return progState{}
	}
	n := int(binary.LittleEndian.Uint32(b[16:]))
	if n > len(b)-24 {
		n = len(b) - 24
	}
	return progState{Active: true, Sub: int(s) - 1, Idx: binary.LittleEndian.Uint64(b[8:]),
		Data: append([]byte(nil), b[24:24+n]...), FullLen: int(binary.LittleEndian.Uint32(b[20:]))}
}

// WorkerArgs selects the part of a check one worker process executes.
type WorkerArgs struct {
	Prop    string
	Tier    string
	Seed    uint64
	Shard   int
	NShard  int
	Subs    []string // names; empty = all non-race (or all race when Race)
	FromSub int      // resume: first sub index (within the selected list)
	FromIdx uint64   // resume: first case index in that sub
	OutDir  string
	Race    bool
}

var scratchDir string

// ScratchDir returns a directory for files a case has to hand to the code
// under observation by name. In a worker it lies inside the run's work
// directory (removed by the driver); in a replay it is a fresh temporary
// directory.
func ScratchDir() string {
	if scratchDir == "" {
		d, err := os.MkdirTemp("", "ivgverif-scratch-")
		if err != nil {
			d = os.TempDir()
		}
		scratchDir = d
	}
	os.MkdirAll(scratchDir, 0755)
	return scratchDir
}

// WorkerMain runs in a worker process.
func WorkerMain(a WorkerArgs) int {
	p := Lookup(a.Prop)
	if p == nil {
		fmt.Fprintln(os.Stderr, "unknown property", a.Prop)
		return 3
	}
	// DestinationLogger and RasterizerLogger print to stdout; keep the
	// channel to the driver clean.
	if devnull, err := os.OpenFile("/dev/null", os.O_WRONLY, 0); err == nil {
		os.Stdout = devnull
	}
	scratchDir = fmt.Sprintf("%s/w%d.scratch", a.OutDir, a.Shard)
	prog, err := openProgress(fmt.Sprintf("%s/w%d.progress", a.OutDir, a.Shard))
	if err != nil {
		fmt.Fprintln(os.Stderr, "progress:", err)
		return 3
	}
	want := map[string]bool{}
	for _, s := range a.Subs {
		want[s] = true
	}
	for si, s := range p.Subs {
		if !want[s.Name] {
			continue
		}
		if si < a.FromSub {
			continue
		}
		res := newSubResult(s.Name)
		c := &Ctx{Prop: p.ID, Sub: s, Seed: a.Seed, Tier: a.Tier, Shard: a.Shard, NShard: a.NShard, res: res, prog: prog, subIdx: si}
		n := s.N(a.Tier)
		start := uint64(0)
		if si == a.FromSub {
			start = a.FromIdx
		}
		if s.Serial {
			if a.Shard == 0 {
				for idx := start; idx < n; idx++ {
					c.curIdx = idx
					prog.set(si, idx)
					c.Guard("case", nil, func() { s.Run(c, idx) })
				}
			}
		} else {
			for idx := start; idx < n; idx++ {
				if int(idx%uint64(a.NShard)) != a.Shard {
					continue
				}
				c.curIdx = idx
				prog.set(si, idx)
				c.Guard("case", nil, func() { s.Run(c, idx) })
			}
		}
		prog.clear()
		res.Done = true
		if err := writeSubResult(a.OutDir, a.Shard, si, res); err != nil {
			fmt.Fprintln(os.Stderr, "result:", err)
			return 3
		}
	}
	return 0
}

func writeSubResult(dir string, shard, si int, res *SubResult) error {
	b, err := json.Marshal(res)
	if err != nil {
		// A detail object that cannot be marshalled must not lose the verdict.
		for i := range res.Violations {
			res.Violations[i].Detail = fmt.Sprint(res.Violations[i].Detail)
		}
		for i := range res.Samples {
			res.Samples[i] = fmt.Sprint(res.Samples[i])
		}
		b, err = json.Marshal(res)
		if err != nil {
			return err
		}
	}
	hb := make([]byte, 0, 8*len(res.hashes))
	var tmp [8]byte
	for h := range res.hashes {
		binary.LittleEndian.PutUint64(tmp[:], h)
		hb = append(hb, tmp[:]...)
	}
	if err := os.WriteFile(fmt.Sprintf("%s/w%d.s%d.hashes", dir, shard, si), hb, 0644); err != nil {
		return err
	}
	tmpf := fmt.Sprintf("%s/w%d.s%d.json.tmp", dir, shard, si)
	if err := os.WriteFile(tmpf, b, 0644); err != nil {
		return err
	}
	return os.Rename(tmpf, fmt.Sprintf("%s/w%d.s%d.json", dir, shard, si))
}
