package run

import (
	"image"
	"testing"

	"golang.org/x/image/vector"
)

// The pinned golang.org/x/image v0.7.0 panics (integer divide by zero in
// raster_fixed.go) for an almost horizontal, very long segment on a small
// raster. GuardDep must classify that as a dependency panic, and a panic raised
// by the caller's own code as a violation. (DESIGN 6.5.)
func TestGuardDepClassification(t *testing.T) {
	res := newSubResult("t")
	c := &Ctx{Prop: "T", Sub: &Sub{Name: "t"}, res: res}
	ok, dep := c.GuardDep("vec", "golang.org/x/image/", nil, func() {
		z := vector.NewRasterizer(40, 3)
		z.MoveTo(9483.125, 1.5)
		z.LineTo(41.876907, 1.4999987)
		z.ClosePath()
	})
	if ok || !dep || res.NViol != 0 || res.Counts["dependency_panic"] != 1 {
		t.Fatalf("dependency panic: ok=%v dep=%v viol=%d counts=%v", ok, dep, res.NViol, res.Counts)
	}
	ok, dep = c.GuardDep("own", "golang.org/x/image/", nil, func() {
		var p []int
		_ = p[image.Pt(3, 0).X]
	})
	if ok || dep || res.NViol != 1 {
		t.Fatalf("own panic: ok=%v dep=%v viol=%d", ok, dep, res.NViol)
	}
	ok, dep = c.GuardDep("fine", "golang.org/x/image/", nil, func() {})
	if !ok || dep {
		t.Fatalf("no panic: ok=%v dep=%v", ok, dep)
	}
}
