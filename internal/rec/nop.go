package rec

import (
	"image/color"

	"github.com/reactivego/ivg"
)

// Nop is an ivg.Destination whose methods do nothing; monitors embed it and
// override the calls they observe.
type Nop struct{}

func (Nop) Reset(ivg.ViewBox, [64]color.RGBA)                                {}
func (Nop) CSel() uint8                                                      { return 0 }
func (Nop) SetCSel(uint8)                                                    {}
func (Nop) NSel() uint8                                                      { return 0 }
func (Nop) SetNSel(uint8)                                                    {}
func (Nop) SetCReg(uint8, bool, ivg.Color)                                   {}
func (Nop) SetNReg(uint8, bool, float32)                                     {}
func (Nop) SetLOD(float32, float32)                                          {}
func (Nop) StartPath(uint8, float32, float32)                                {}
func (Nop) ClosePathEndPath()                                                {}
func (Nop) ClosePathAbsMoveTo(float32, float32)                              {}
func (Nop) ClosePathRelMoveTo(float32, float32)                              {}
func (Nop) AbsHLineTo(float32)                                               {}
func (Nop) RelHLineTo(float32)                                               {}
func (Nop) AbsVLineTo(float32)                                               {}
func (Nop) RelVLineTo(float32)                                               {}
func (Nop) AbsLineTo(float32, float32)                                       {}
func (Nop) RelLineTo(float32, float32)                                       {}
func (Nop) AbsSmoothQuadTo(float32, float32)                                 {}
func (Nop) RelSmoothQuadTo(float32, float32)                                 {}
func (Nop) AbsQuadTo(float32, float32, float32, float32)                     {}
func (Nop) RelQuadTo(float32, float32, float32, float32)                     {}
func (Nop) AbsSmoothCubeTo(float32, float32, float32, float32)               {}
func (Nop) RelSmoothCubeTo(float32, float32, float32, float32)               {}
func (Nop) AbsCubeTo(float32, float32, float32, float32, float32, float32)   {}
func (Nop) RelCubeTo(float32, float32, float32, float32, float32, float32)   {}
func (Nop) AbsArcTo(float32, float32, float32, bool, bool, float32, float32) {}
func (Nop) RelArcTo(float32, float32, float32, bool, bool, float32, float32) {}
