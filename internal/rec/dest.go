// Package rec holds the event recorders placed at the public boundaries of
// reactivego/ivg: a recording ivg.Destination and a recording
// raster.Rasterizer.
package rec

import (
	"fmt"
	"image/color"
	"math"
	"strings"

	"github.com/reactivego/ivg"
)

// Kind identifies a Destination method.
type Kind uint8

const (
	KReset Kind = iota
	KSetCSel
	KSetNSel
	KSetCReg
	KSetNReg
	KSetLOD
	KStartPath
	KClosePathEndPath
	KClosePathAbsMoveTo
	KClosePathRelMoveTo
	KAbsHLineTo
	KRelHLineTo
	KAbsVLineTo
	KRelVLineTo
	KAbsLineTo
	KRelLineTo
	KAbsSmoothQuadTo
	KRelSmoothQuadTo
	KAbsQuadTo
	KRelQuadTo
	KAbsSmoothCubeTo
	KRelSmoothCubeTo
	KAbsCubeTo
	KRelCubeTo
	KAbsArcTo
	KRelArcTo
	NKinds
)

var kindNames = [...]string{"Reset", "SetCSel", "SetNSel", "SetCReg", "SetNReg", "SetLOD", "StartPath",
	"ClosePathEndPath", "ClosePathAbsMoveTo", "ClosePathRelMoveTo", "AbsHLineTo", "RelHLineTo", "AbsVLineTo",
	"RelVLineTo", "AbsLineTo", "RelLineTo", "AbsSmoothQuadTo", "RelSmoothQuadTo", "AbsQuadTo", "RelQuadTo",
	"AbsSmoothCubeTo", "RelSmoothCubeTo", "AbsCubeTo", "RelCubeTo", "AbsArcTo", "RelArcTo"}

func (k Kind) String() string {
	if int(k) < len(kindNames) {
		return kindNames[k]
	}
	return fmt.Sprintf("Kind(%d)", k)
}

// NArgs is the number of float arguments a call of this kind carries.
func (k Kind) NArgs() int {
	switch k {
	case KSetNReg, KAbsHLineTo, KRelHLineTo, KAbsVLineTo, KRelVLineTo:
		return 1
	case KSetLOD, KStartPath, KClosePathAbsMoveTo, KClosePathRelMoveTo, KAbsLineTo, KRelLineTo, KAbsSmoothQuadTo, KRelSmoothQuadTo:
		return 2
	case KAbsQuadTo, KRelQuadTo, KAbsSmoothCubeTo, KRelSmoothCubeTo:
		return 4
	case KAbsCubeTo, KRelCubeTo:
		return 6
	case KAbsArcTo, KRelArcTo:
		return 5 // rx, ry, rotation, x, y
	}
	return 0
}

// IsDrawing reports whether the call is only legal inside a path.
func (k Kind) IsDrawing() bool { return k >= KClosePathEndPath && k < NKinds }

// IsRel reports whether the drawing call is a relative form.
func (k Kind) IsRel() bool {
	switch k {
	case KClosePathRelMoveTo, KRelHLineTo, KRelVLineTo, KRelLineTo, KRelSmoothQuadTo, KRelQuadTo, KRelSmoothCubeTo, KRelCubeTo, KRelArcTo:
		return true
	}
	return false
}

// Op is one recorded Destination call.
type Op struct {
	K        Kind
	Adj      uint8 // SetCReg, SetNReg, StartPath
	Incr     bool  // SetCReg, SetNReg
	Sel      uint8 // SetCSel, SetNSel
	LargeArc bool
	Sweep    bool
	Col      ivg.Color // SetCReg
	F        [6]float32
	VB       ivg.ViewBox     // Reset
	Pal      *[64]color.RGBA // Reset
}

// ColorSpec is the decomposition of an ivg.Color through its public API.
type ColorSpec struct {
	Typ  ivg.ColorType
	RGBA color.RGBA // direct
	Idx  uint8      // palette index / creg
	T    uint8      // blend
	C0   uint8
	C1   uint8
}

// Spec decomposes an ivg.Color using only exported methods.
func Spec(c ivg.Color) ColorSpec {
	if x, ok := c.Encode3Indirect(); ok {
		return ColorSpec{Typ: ivg.ColorTypeBlend, T: x[0], C0: x[1], C1: x[2]}
	}
	if x, ok := c.Encode4(); ok {
		return ColorSpec{Typ: ivg.ColorTypeRGBA, RGBA: color.RGBA{x[0], x[1], x[2], x[3]}}
	}
	if x, ok := c.Encode1(); ok {
		if x >= 0xc0 {
			return ColorSpec{Typ: ivg.ColorTypeCReg, Idx: x & 0x3f}
		}
		return ColorSpec{Typ: ivg.ColorTypePaletteIndex, Idx: x & 0x3f}
	}
	return ColorSpec{Typ: 255}
}

func (s ColorSpec) String() string {
	switch s.Typ {
	case ivg.ColorTypeRGBA:
		return fmt.Sprintf("rgba:%02x%02x%02x%02x", s.RGBA.R, s.RGBA.G, s.RGBA.B, s.RGBA.A)
	case ivg.ColorTypePaletteIndex:
		return fmt.Sprintf("pal:%d", s.Idx)
	case ivg.ColorTypeCReg:
		return fmt.Sprintf("creg:%d", s.Idx)
	case ivg.ColorTypeBlend:
		return fmt.Sprintf("blend:%d:%02x:%02x", s.T, s.C0, s.C1)
	}
	return "color?"
}

// Color rebuilds the ivg.Color.
func (s ColorSpec) Color() ivg.Color {
	switch s.Typ {
	case ivg.ColorTypeRGBA:
		return ivg.RGBAColor(s.RGBA)
	case ivg.ColorTypePaletteIndex:
		return ivg.PaletteIndexColor(s.Idx)
	case ivg.ColorTypeCReg:
		return ivg.CRegColor(s.Idx)
	}
	return ivg.BlendColor(s.T, s.C0, s.C1)
}

// FB formats a float32 as value and bit pattern.
func FB(f float32) string { return fmt.Sprintf("%g(%08x)", f, math.Float32bits(f)) }

func (o Op) String() string {
	var b strings.Builder
	b.WriteString(o.K.String())
	switch o.K {
	case KReset:
		fmt.Fprintf(&b, " vb=[%s %s %s %s]", FB(o.VB.MinX), FB(o.VB.MinY), FB(o.VB.MaxX), FB(o.VB.MaxY))
		if o.Pal != nil {
			n := 63
			for ; n >= 0 && o.Pal[n] == (color.RGBA{0, 0, 0, 0xff}); n-- {
			}
			b.WriteString(" pal=[")
			for i := 0; i <= n; i++ {
				c := o.Pal[i]
				fmt.Fprintf(&b, "%02x%02x%02x%02x ", c.R, c.G, c.B, c.A)
			}
			b.WriteString("..]")
		}
	case KSetCSel, KSetNSel:
		fmt.Fprintf(&b, " %d", o.Sel)
	case KSetCReg:
		fmt.Fprintf(&b, " adj=%d incr=%v %s", o.Adj, o.Incr, Spec(o.Col))
	case KSetNReg:
		fmt.Fprintf(&b, " adj=%d incr=%v %s", o.Adj, o.Incr, FB(o.F[0]))
	case KStartPath:
		fmt.Fprintf(&b, " adj=%d %s %s", o.Adj, FB(o.F[0]), FB(o.F[1]))
	case KAbsArcTo, KRelArcTo:
		fmt.Fprintf(&b, " r=(%s %s) rot=%s large=%v sweep=%v to=(%s %s)", FB(o.F[0]), FB(o.F[1]), FB(o.F[2]), o.LargeArc, o.Sweep, FB(o.F[3]), FB(o.F[4]))
	default:
		for i := 0; i < o.K.NArgs(); i++ {
			b.WriteString(" " + FB(o.F[i]))
		}
	}
	return b.String()
}

// Strings renders a call list for replay files and evidence samples.
func Strings(ops []Op) []string {
	out := make([]string, len(ops))
	for i, o := range ops {
		out[i] = o.String()
	}
	return out
}

// SameBits compares two float32 bit-exactly, treating all NaNs as equal.
func SameBits(a, b float32) bool {
	if a != a && b != b {
		return true
	}
	return math.Float32bits(a) == math.Float32bits(b)
}

// Equal compares two ops exactly (floats bit-exact, NaN == NaN).
func Equal(a, b Op) bool {
	if a.K != b.K || a.Adj != b.Adj || a.Incr != b.Incr || a.Sel != b.Sel || a.LargeArc != b.LargeArc || a.Sweep != b.Sweep || a.Col != b.Col {
		return false
	}
	for i := 0; i < a.K.NArgs(); i++ {
		if !SameBits(a.F[i], b.F[i]) {
			return false
		}
	}
	if a.K == KReset {
		if !SameBits(a.VB.MinX, b.VB.MinX) || !SameBits(a.VB.MinY, b.VB.MinY) || !SameBits(a.VB.MaxX, b.VB.MaxX) || !SameBits(a.VB.MaxY, b.VB.MaxY) {
			return false
		}
		if (a.Pal == nil) != (b.Pal == nil) || (a.Pal != nil && *a.Pal != *b.Pal) {
			return false
		}
	}
	return true
}

// Dest is a recording ivg.Destination. It keeps CSEL/NSEL like the decoding
// machine does (modulo 64) so that read-backs are answered, and optionally
// forwards every call to a second Destination.
type Dest struct {
	Ops  []Op
	Tee  ivg.Destination
	cSel uint8
	nSel uint8
	// AfterCall, when set, is invoked after every mutating call (after it was
	// forwarded to Tee).
	AfterCall func(op *Op)
	// MaxOps, when > 0, bounds the number of recorded calls; exceeding it
	// panics (a runaway producer must not exhaust memory).
	MaxOps int
}

func (d *Dest) add(o Op) {
	if d.MaxOps > 0 && len(d.Ops) >= d.MaxOps {
		panic(fmt.Sprintf("rec.Dest: more than %d calls delivered", d.MaxOps))
	}
	d.Ops = append(d.Ops, o)
	if d.AfterCall != nil {
		d.AfterCall(&d.Ops[len(d.Ops)-1])
	}
}

func (d *Dest) Reset(vb ivg.ViewBox, pal [64]color.RGBA) {
	d.cSel, d.nSel = 0, 0
	if d.Tee != nil {
		d.Tee.Reset(vb, pal)
	}
	p := pal
	d.add(Op{K: KReset, VB: vb, Pal: &p})
}
func (d *Dest) CSel() uint8 {
	if d.Tee != nil {
		return d.Tee.CSel()
	}
	return d.cSel
}
func (d *Dest) NSel() uint8 {
	if d.Tee != nil {
		return d.Tee.NSel()
	}
	return d.nSel
}
func (d *Dest) SetCSel(s uint8) {
	d.cSel = s & 0x3f
	if d.Tee != nil {
		d.Tee.SetCSel(s)
	}
	d.add(Op{K: KSetCSel, Sel: s})
}
func (d *Dest) SetNSel(s uint8) {
	d.nSel = s & 0x3f
	if d.Tee != nil {
		d.Tee.SetNSel(s)
	}
	d.add(Op{K: KSetNSel, Sel: s})
}
func (d *Dest) SetCReg(adj uint8, incr bool, c ivg.Color) {
	if incr {
		d.cSel = (d.cSel + 1) & 0x3f
	}
	if d.Tee != nil {
		d.Tee.SetCReg(adj, incr, c)
	}
	d.add(Op{K: KSetCReg, Adj: adj, Incr: incr, Col: c})
}
func (d *Dest) SetNReg(adj uint8, incr bool, f float32) {
	if incr {
		d.nSel = (d.nSel + 1) & 0x3f
	}
	if d.Tee != nil {
		d.Tee.SetNReg(adj, incr, f)
	}
	d.add(Op{K: KSetNReg, Adj: adj, Incr: incr, F: [6]float32{f}})
}
func (d *Dest) SetLOD(a, b float32) {
	if d.Tee != nil {
		d.Tee.SetLOD(a, b)
	}
	d.add(Op{K: KSetLOD, F: [6]float32{a, b}})
}
func (d *Dest) StartPath(adj uint8, x, y float32) {
	if d.Tee != nil {
		d.Tee.StartPath(adj, x, y)
	}
	d.add(Op{K: KStartPath, Adj: adj, F: [6]float32{x, y}})
}
func (d *Dest) ClosePathEndPath() {
	if d.Tee != nil {
		d.Tee.ClosePathEndPath()
	}
	d.add(Op{K: KClosePathEndPath})
}
func (d *Dest) f2(k Kind, x, y float32) { d.add(Op{K: k, F: [6]float32{x, y}}) }
func (d *Dest) ClosePathAbsMoveTo(x, y float32) {
	if d.Tee != nil {
		d.Tee.ClosePathAbsMoveTo(x, y)
	}
	d.f2(KClosePathAbsMoveTo, x, y)
}
func (d *Dest) ClosePathRelMoveTo(x, y float32) {
	if d.Tee != nil {
		d.Tee.ClosePathRelMoveTo(x, y)
	}
	d.f2(KClosePathRelMoveTo, x, y)
}
func (d *Dest) AbsHLineTo(x float32) {
	if d.Tee != nil {
		d.Tee.AbsHLineTo(x)
	}
	d.add(Op{K: KAbsHLineTo, F: [6]float32{x}})
}
func (d *Dest) RelHLineTo(x float32) {
	if d.Tee != nil {
		d.Tee.RelHLineTo(x)
	}
	d.add(Op{K: KRelHLineTo, F: [6]float32{x}})
}
func (d *Dest) AbsVLineTo(y float32) {
	if d.Tee != nil {
		d.Tee.AbsVLineTo(y)
	}
	d.add(Op{K: KAbsVLineTo, F: [6]float32{y}})
}
func (d *Dest) RelVLineTo(y float32) {
	if d.Tee != nil {
		d.Tee.RelVLineTo(y)
	}
	d.add(Op{K: KRelVLineTo, F: [6]float32{y}})
}
func (d *Dest) AbsLineTo(x, y float32) {
	if d.Tee != nil {
		d.Tee.AbsLineTo(x, y)
	}
	d.f2(KAbsLineTo, x, y)
}
func (d *Dest) RelLineTo(x, y float32) {
	if d.Tee != nil {
		d.Tee.RelLineTo(x, y)
	}
	d.f2(KRelLineTo, x, y)
}
func (d *Dest) AbsSmoothQuadTo(x, y float32) {
	if d.Tee != nil {
		d.Tee.AbsSmoothQuadTo(x, y)
	}
	d.f2(KAbsSmoothQuadTo, x, y)
}
func (d *Dest) RelSmoothQuadTo(x, y float32) {
	if d.Tee != nil {
		d.Tee.RelSmoothQuadTo(x, y)
	}
	d.f2(KRelSmoothQuadTo, x, y)
}
func (d *Dest) AbsQuadTo(x1, y1, x, y float32) {
	if d.Tee != nil {
		d.Tee.AbsQuadTo(x1, y1, x, y)
	}
	d.add(Op{K: KAbsQuadTo, F: [6]float32{x1, y1, x, y}})
}
func (d *Dest) RelQuadTo(x1, y1, x, y float32) {
	if d.Tee != nil {
		d.Tee.RelQuadTo(x1, y1, x, y)
	}
	d.add(Op{K: KRelQuadTo, F: [6]float32{x1, y1, x, y}})
}
func (d *Dest) AbsSmoothCubeTo(x2, y2, x, y float32) {
	if d.Tee != nil {
		d.Tee.AbsSmoothCubeTo(x2, y2, x, y)
	}
	d.add(Op{K: KAbsSmoothCubeTo, F: [6]float32{x2, y2, x, y}})
}
func (d *Dest) RelSmoothCubeTo(x2, y2, x, y float32) {
	if d.Tee != nil {
		d.Tee.RelSmoothCubeTo(x2, y2, x, y)
	}
	d.add(Op{K: KRelSmoothCubeTo, F: [6]float32{x2, y2, x, y}})
}
func (d *Dest) AbsCubeTo(x1, y1, x2, y2, x, y float32) {
	if d.Tee != nil {
		d.Tee.AbsCubeTo(x1, y1, x2, y2, x, y)
	}
	d.add(Op{K: KAbsCubeTo, F: [6]float32{x1, y1, x2, y2, x, y}})
}
func (d *Dest) RelCubeTo(x1, y1, x2, y2, x, y float32) {
	if d.Tee != nil {
		d.Tee.RelCubeTo(x1, y1, x2, y2, x, y)
	}
	d.add(Op{K: KRelCubeTo, F: [6]float32{x1, y1, x2, y2, x, y}})
}
func (d *Dest) AbsArcTo(rx, ry, rot float32, large, sweep bool, x, y float32) {
	if d.Tee != nil {
		d.Tee.AbsArcTo(rx, ry, rot, large, sweep, x, y)
	}
	d.add(Op{K: KAbsArcTo, LargeArc: large, Sweep: sweep, F: [6]float32{rx, ry, rot, x, y}})
}
func (d *Dest) RelArcTo(rx, ry, rot float32, large, sweep bool, x, y float32) {
	if d.Tee != nil {
		d.Tee.RelArcTo(rx, ry, rot, large, sweep, x, y)
	}
	d.add(Op{K: KRelArcTo, LargeArc: large, Sweep: sweep, F: [6]float32{rx, ry, rot, x, y}})
}

// Apply replays one recorded op onto a Destination.
func Apply(dst ivg.Destination, o *Op) {
	f := &o.F
	switch o.K {
	case KReset:
		pal := ivg.DefaultPalette
		if o.Pal != nil {
			pal = *o.Pal
		}
		dst.Reset(o.VB, pal)
	case KSetCSel:
		dst.SetCSel(o.Sel)
	case KSetNSel:
		dst.SetNSel(o.Sel)
	case KSetCReg:
		dst.SetCReg(o.Adj, o.Incr, o.Col)
	case KSetNReg:
		dst.SetNReg(o.Adj, o.Incr, f[0])
	case KSetLOD:
		dst.SetLOD(f[0], f[1])
	case KStartPath:
		dst.StartPath(o.Adj, f[0], f[1])
	case KClosePathEndPath:
		dst.ClosePathEndPath()
	case KClosePathAbsMoveTo:
		dst.ClosePathAbsMoveTo(f[0], f[1])
	case KClosePathRelMoveTo:
		dst.ClosePathRelMoveTo(f[0], f[1])
	case KAbsHLineTo:
		dst.AbsHLineTo(f[0])
	case KRelHLineTo:
		dst.RelHLineTo(f[0])
	case KAbsVLineTo:
		dst.AbsVLineTo(f[0])
	case KRelVLineTo:
		dst.RelVLineTo(f[0])
	case KAbsLineTo:
		dst.AbsLineTo(f[0], f[1])
	case KRelLineTo:
		dst.RelLineTo(f[0], f[1])
	case KAbsSmoothQuadTo:
		dst.AbsSmoothQuadTo(f[0], f[1])
	case KRelSmoothQuadTo:
		dst.RelSmoothQuadTo(f[0], f[1])
	case KAbsQuadTo:
		dst.AbsQuadTo(f[0], f[1], f[2], f[3])
	case KRelQuadTo:
		dst.RelQuadTo(f[0], f[1], f[2], f[3])
	case KAbsSmoothCubeTo:
		dst.AbsSmoothCubeTo(f[0], f[1], f[2], f[3])
	case KRelSmoothCubeTo:
		dst.RelSmoothCubeTo(f[0], f[1], f[2], f[3])
	case KAbsCubeTo:
		dst.AbsCubeTo(f[0], f[1], f[2], f[3], f[4], f[5])
	case KRelCubeTo:
		dst.RelCubeTo(f[0], f[1], f[2], f[3], f[4], f[5])
	case KAbsArcTo:
		dst.AbsArcTo(f[0], f[1], f[2], o.LargeArc, o.Sweep, f[3], f[4])
	case KRelArcTo:
		dst.RelArcTo(f[0], f[1], f[2], o.LargeArc, o.Sweep, f[3], f[4])
	}
}

// ApplyAll replays a call list.
func ApplyAll(dst ivg.Destination, ops []Op) {
	for i := range ops {
		Apply(dst, &ops[i])
	}
}

// HashOps hashes a call list (for distinctness counting).
func HashOps(ops []Op) uint64 {
	h := uint64(0xcbf29ce484222325)
	mix := func(x uint64) {
		h ^= x
		h *= 0x100000001b3
		h ^= h >> 29
	}
	for i := range ops {
		o := &ops[i]
		mix(uint64(o.K)<<32 | uint64(o.Adj)<<16 | uint64(o.Sel)<<8)
		if o.Incr {
			mix(1)
		}
		if o.LargeArc {
			mix(2)
		}
		if o.Sweep {
			mix(4)
		}
		for j := 0; j < o.K.NArgs(); j++ {
			mix(uint64(math.Float32bits(o.F[j])))
		}
		if o.K == KSetCReg {
			s := Spec(o.Col)
			mix(uint64(s.Typ)<<40 | uint64(s.RGBA.R)<<32 | uint64(s.RGBA.G)<<24 | uint64(s.RGBA.B)<<16 | uint64(s.RGBA.A)<<8 | uint64(s.Idx))
			mix(uint64(s.T)<<16 | uint64(s.C0)<<8 | uint64(s.C1))
		}
		if o.K == KReset {
			mix(uint64(math.Float32bits(o.VB.MinX))<<32 | uint64(math.Float32bits(o.VB.MaxX)))
			mix(uint64(math.Float32bits(o.VB.MinY))<<32 | uint64(math.Float32bits(o.VB.MaxY)))
			if o.Pal != nil {
				for _, c := range o.Pal {
					mix(uint64(c.R)<<24 | uint64(c.G)<<16 | uint64(c.B)<<8 | uint64(c.A))
				}
			}
		}
	}
	return h
}
