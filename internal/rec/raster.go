package rec

import (
	"fmt"
	"image"
	"image/color"

	"github.com/reactivego/ivg/raster"
)

// RKind identifies a mutating rasterizer call.
type RKind uint8

const (
	RReset RKind = iota
	RMoveTo
	RLineTo
	RQuadTo
	RCubeTo
	RClosePath
	RDraw
)

var rkindNames = [...]string{"Reset", "MoveTo", "LineTo", "QuadTo", "CubeTo", "ClosePath", "Draw"}

func (k RKind) String() string { return rkindNames[k] }

// Paint is a snapshot of the image handed to Draw, taken at the time of the
// call (the Renderer reuses the objects it hands out).
type Paint struct {
	Kind    int // 0 uniform, 1 gradient, 2 other
	Uniform color.RGBA64
	UniRGBA color.RGBA // when the uniform colour was a color.RGBA / *color.RGBA
	UniOK   bool
	Shape   int
	Spread  int
	Colors  []color.RGBA
	Offsets []float64
	M       [6]float64
	Probes  []color.RGBA64 // At() on the probe points configured on the Raster
	Type    string
}

// RCall is one recorded rasterizer call.
type RCall struct {
	K          RKind
	A          [6]float32 // arguments (Reset: w,h as floats)
	PenX, PenY float32    // pen before the call
	R          image.Rectangle
	SP         image.Point
	Paint      *Paint
}

func (c RCall) String() string {
	switch c.K {
	case RReset:
		return fmt.Sprintf("Reset(%v,%v)", c.A[0], c.A[1])
	case RMoveTo, RLineTo:
		return fmt.Sprintf("%s(%s,%s)", c.K, FB(c.A[0]), FB(c.A[1]))
	case RQuadTo:
		return fmt.Sprintf("QuadTo(%s,%s,%s,%s)", FB(c.A[0]), FB(c.A[1]), FB(c.A[2]), FB(c.A[3]))
	case RCubeTo:
		return fmt.Sprintf("CubeTo(%s,%s,%s,%s,%s,%s)", FB(c.A[0]), FB(c.A[1]), FB(c.A[2]), FB(c.A[3]), FB(c.A[4]), FB(c.A[5]))
	case RClosePath:
		return "ClosePath()"
	}
	s := fmt.Sprintf("Draw(r=%v sp=%v", c.R, c.SP)
	if p := c.Paint; p != nil {
		switch p.Kind {
		case 0:
			s += fmt.Sprintf(" uniform %04x,%04x,%04x,%04x", p.Uniform.R, p.Uniform.G, p.Uniform.B, p.Uniform.A)
		case 1:
			s += fmt.Sprintf(" gradient shape=%d spread=%d stops=%d colors=%v offsets=%v m=%v", p.Shape, p.Spread, len(p.Colors), p.Colors, p.Offsets, p.M)
		default:
			s += " " + p.Type
		}
	}
	return s + ")"
}

// Raster is a recording raster.Rasterizer with the pen semantics of
// golang.org/x/image/vector. It optionally forwards to a real rasterizer.
type Raster struct {
	Calls  []RCall
	Fwd    raster.Rasterizer
	Probes []image.Point // pixels at which a gradient paint is sampled at Draw
	w, h   int
	penX   float32
	penY   float32
	firstX float32
	firstY float32
	// NMut counts mutating calls, also when Keep is false.
	NMut int
	// Discard, when set, keeps only counters (for hostile-input runs).
	Discard bool
	NCube   int
	NDraw   int
	// OnDraw, when set, is called with the paint of every Draw.
	OnDraw func(src image.Image)
	// OnReset, when set, is called with the size of every Reset before it is logged.
	OnReset func(w, h int)
	// OnDrawRect, when set, is called with the rectangle and source point of every Draw.
	OnDrawRect func(r image.Rectangle, sp image.Point)
	// MaxAbs is the largest coordinate magnitude seen (NaN counts as +Inf).
	MaxAbs float64
	// Cap, when > 0, is an online bound on NMut: the call that exceeds it panics
	// with ActivityCapExceeded, so that a producer whose rasterizer activity is
	// not bounded by its input is stopped where the bound is crossed instead
	// of being waited for.
	Cap int
}

// DefaultCap bounds the calls a Raster accepts between two ResetLogs even when
// no Cap is set: no workload of the checks comes within two orders of
// magnitude of it, and a producer gone wild is stopped instead of waited for.
const DefaultCap = 5_000_000

// ActivityCapExceeded is the panic value of a Raster whose Cap was crossed.
type ActivityCapExceeded struct{ Calls int }

func (z *Raster) see(v ...float32) {
	for _, x := range v {
		a := float64(x)
		if a < 0 {
			a = -a
		}
		if a != a {
			a = 1e300
		}
		if a > z.MaxAbs {
			z.MaxAbs = a
		}
	}
}

// ResetLog forgets everything recorded so far (the object is reused).
func (z *Raster) ResetLog() {
	z.Calls = z.Calls[:0]
	z.NMut, z.NCube, z.NDraw, z.MaxAbs = 0, 0, 0, 0
}

func (z *Raster) add(c RCall) {
	z.NMut++
	if (z.Cap > 0 && z.NMut > z.Cap) || z.NMut > DefaultCap {
		panic(ActivityCapExceeded{z.NMut})
	}
	if !z.Discard {
		z.Calls = append(z.Calls, c)
	}
}

func (z *Raster) Reset(w, h int) {
	if z.OnReset != nil {
		z.OnReset(w, h)
	}
	z.add(RCall{K: RReset, A: [6]float32{float32(w), float32(h)}, PenX: z.penX, PenY: z.penY})
	z.w, z.h = w, h
	z.penX, z.penY, z.firstX, z.firstY = 0, 0, 0, 0
	if z.Fwd != nil {
		z.Fwd.Reset(w, h)
	}
}
func (z *Raster) Size() image.Point       { return image.Point{z.w, z.h} }
func (z *Raster) Bounds() image.Rectangle { return image.Rect(0, 0, z.w, z.h) }
func (z *Raster) Pen() (x, y float32)     { return z.penX, z.penY }
func (z *Raster) MoveTo(ax, ay float32) {
	z.see(ax, ay)
	z.add(RCall{K: RMoveTo, A: [6]float32{ax, ay}, PenX: z.penX, PenY: z.penY})
	z.penX, z.penY, z.firstX, z.firstY = ax, ay, ax, ay
	if z.Fwd != nil {
		z.Fwd.MoveTo(ax, ay)
	}
}
func (z *Raster) LineTo(bx, by float32) {
	z.see(bx, by)
	z.add(RCall{K: RLineTo, A: [6]float32{bx, by}, PenX: z.penX, PenY: z.penY})
	z.penX, z.penY = bx, by
	if z.Fwd != nil {
		z.Fwd.LineTo(bx, by)
	}
}
func (z *Raster) QuadTo(bx, by, cx, cy float32) {
	z.see(bx, by, cx, cy)
	z.add(RCall{K: RQuadTo, A: [6]float32{bx, by, cx, cy}, PenX: z.penX, PenY: z.penY})
	z.penX, z.penY = cx, cy
	if z.Fwd != nil {
		z.Fwd.QuadTo(bx, by, cx, cy)
	}
}
func (z *Raster) CubeTo(bx, by, cx, cy, dx, dy float32) {
	z.NCube++
	z.see(bx, by, cx, cy, dx, dy)
	z.add(RCall{K: RCubeTo, A: [6]float32{bx, by, cx, cy, dx, dy}, PenX: z.penX, PenY: z.penY})
	z.penX, z.penY = dx, dy
	if z.Fwd != nil {
		z.Fwd.CubeTo(bx, by, cx, cy, dx, dy)
	}
}
func (z *Raster) ClosePath() {
	z.add(RCall{K: RClosePath, PenX: z.penX, PenY: z.penY})
	z.penX, z.penY = z.firstX, z.firstY
	if z.Fwd != nil {
		z.Fwd.ClosePath()
	}
}

// SnapshotPaint copies everything observable about a paint image.
func SnapshotPaint(src image.Image, probes []image.Point) *Paint {
	p := &Paint{Type: fmt.Sprintf("%T", src)}
	switch s := src.(type) {
	case *image.Uniform:
		p.Kind = 0
		r, g, b, a := s.C.RGBA()
		p.Uniform = color.RGBA64{uint16(r), uint16(g), uint16(b), uint16(a)}
		switch c := s.C.(type) {
		case color.RGBA:
			p.UniRGBA, p.UniOK = c, true
		case *color.RGBA:
			p.UniRGBA, p.UniOK = *c, true
		}
	default:
		if g, ok := src.(raster.GradientConfig); ok {
			p.Kind = 1
			p.Shape = g.GradientShape()
			p.Spread = g.SpreadMethod()
			p.Colors = append([]color.RGBA(nil), g.StopColors()...)
			p.Offsets = append([]float64(nil), g.StopOffsets()...)
			p.M[0], p.M[1], p.M[2], p.M[3], p.M[4], p.M[5] = g.Transform()
			for _, pt := range probes {
				r, gg, b, a := src.At(pt.X, pt.Y).RGBA()
				p.Probes = append(p.Probes, color.RGBA64{uint16(r), uint16(gg), uint16(b), uint16(a)})
			}
		} else {
			p.Kind = 2
		}
	}
	return p
}

func (z *Raster) Draw(r image.Rectangle, src image.Image, sp image.Point) {
	z.NDraw++
	c := RCall{K: RDraw, PenX: z.penX, PenY: z.penY, R: r, SP: sp}
	if !z.Discard {
		c.Paint = SnapshotPaint(src, z.Probes)
	}
	z.add(c)
	if z.OnDraw != nil {
		z.OnDraw(src)
	}
	if z.OnDrawRect != nil {
		z.OnDrawRect(r, sp)
	}
	if z.Fwd != nil {
		z.Fwd.Draw(r, src, sp)
	}
}

// RStrings renders a rasterizer log.
func RStrings(cs []RCall) []string {
	out := make([]string, len(cs))
	for i, c := range cs {
		out[i] = c.String()
	}
	return out
}
