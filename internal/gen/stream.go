package gen

import (
	"math"

	"ivgverif/internal/run"
)

// Asm is a hand-written FFV0 assembler, independent of the library's encoder.
type Asm struct{ B []byte }

// Magic appends the magic identifier.
func (a *Asm) Magic() { a.B = append(a.B, 0x89, 'I', 'V', 'G') }

// Nat appends natural u in the w-byte form (w = 1, 2 or 4). The caller must
// make sure u fits (7, 14, 30 bits).
func (a *Asm) Nat(u uint32, w int) {
	switch w {
	case 1:
		a.B = append(a.B, byte(u<<1))
	case 2:
		v := u<<2 | 1
		a.B = append(a.B, byte(v), byte(v>>8))
	default:
		v := u<<2 | 3
		a.B = append(a.B, byte(v), byte(v>>8), byte(v>>16), byte(v>>24))
	}
}

// NatMin appends u in its shortest form.
func (a *Asm) NatMin(u uint32) {
	switch {
	case u < 1<<7:
		a.Nat(u, 1)
	case u < 1<<14:
		a.Nat(u, 2)
	default:
		a.Nat(u, 4)
	}
}

// Byte appends raw bytes.
func (a *Asm) Byte(b ...byte) { a.B = append(a.B, b...) }

var natEdges1 = []uint32{0, 1, 2, 3, 63, 64, 65, 119, 120, 121, 126, 127}
var natEdges2 = []uint32{0, 1, 127, 128, 8191, 8192, 8193, 15119, 15120, 15121, 16383, 64 * 64, 192 * 64}
var natEdges4 = []uint32{0, 1, 0x3f800000 >> 2, 0xbf800000 >> 2, 0x7f800000 >> 2, 0xff800000 >> 2, 0x7fc00000 >> 2, 0x3fffffff, 0x42800000 >> 2, 0x43000000 >> 2, 0x3f000000 >> 2, 16384, 0x00800000 >> 2, 0x7f7fffff >> 2}

// RandNat returns a raw natural for the w-byte form, biased to edges.
func RandNat(r *run.Rng, w int) uint32 {
	switch w {
	case 1:
		if r.Chance(1, 3) {
			return natEdges1[r.Intn(len(natEdges1))]
		}
		return uint32(r.Intn(128))
	case 2:
		if r.Chance(1, 3) {
			return natEdges2[r.Intn(len(natEdges2))]
		}
		return uint32(r.Intn(1 << 14))
	}
	switch r.Intn(4) {
	case 0:
		return natEdges4[r.Intn(len(natEdges4))]
	case 1:
		// a moderate float: exponent around 0
		return (uint32(r.Range(0x3c, 0x45))<<23 | uint32(r.Intn(1<<23)) | uint32(r.Intn(2))<<31) >> 2
	}
	return r.U32() >> 2
}

// RandWidth picks a number form width.
func RandWidth(r *run.Rng) int { return r.Pick(1, 1, 2, 2, 4) }

// Num appends a number operand of random width and value; returns the width.
func (a *Asm) Num(r *run.Rng) int {
	w := RandWidth(r)
	a.Nat(RandNat(r, w), w)
	return w
}

// NumW appends a number operand of width w with a random value.
func (a *Asm) NumW(r *run.Rng, w int) { a.Nat(RandNat(r, w), w) }

// OperandShape describes the operands that follow an opcode byte in a mode.
type OperandShape struct {
	OK       bool // opcode is assigned in this mode
	Nums     int  // numeric operands per repetition
	Reps     int
	ColorLen int // bytes of colour operand (styling SetCReg)
	ToDraw   bool
	ToStyle  bool
}

// Shape returns the operand shape of opcode op in styling (drawing=false) or
// drawing mode, per the specification's opcode tables.
func Shape(drawing bool, op byte) OperandShape {
	if !drawing {
		switch {
		case op < 0x80:
			return OperandShape{OK: true}
		case op < 0xa8:
			return OperandShape{OK: true, ColorLen: [5]int{1, 2, 3, 4, 3}[(op-0x80)>>3], Reps: 1}
		case op < 0xc0:
			return OperandShape{OK: true, Nums: 1, Reps: 1}
		case op < 0xc7:
			return OperandShape{OK: true, Nums: 2, Reps: 1, ToDraw: true}
		case op == 0xc7:
			return OperandShape{OK: true, Nums: 2, Reps: 1}
		}
		return OperandShape{}
	}
	switch {
	case op < 0x40:
		return OperandShape{OK: true, Nums: 2, Reps: int(op&0x1f) + 1}
	case op < 0x60:
		return OperandShape{OK: true, Nums: 2, Reps: int(op&0x0f) + 1}
	case op < 0xa0:
		return OperandShape{OK: true, Nums: 4, Reps: int(op&0x0f) + 1}
	case op < 0xe0:
		return OperandShape{OK: true, Nums: 6, Reps: int(op&0x0f) + 1}
	case op == 0xe1:
		return OperandShape{OK: true, ToStyle: true}
	case op == 0xe2, op == 0xe3:
		return OperandShape{OK: true, Nums: 2, Reps: 1}
	case op >= 0xe6 && op <= 0xe9:
		return OperandShape{OK: true, Nums: 1, Reps: 1}
	}
	return OperandShape{}
}

// Instr appends opcode op with random operands; returns the new mode.
func (a *Asm) Instr(r *run.Rng, drawing bool, op byte) bool {
	sh := Shape(drawing, op)
	a.Byte(op)
	if !sh.OK {
		return drawing
	}
	if sh.ColorLen > 0 {
		for i := 0; i < sh.ColorLen; i++ {
			if r.Chance(1, 3) {
				a.Byte(byte(r.Pick(0, 0x7c, 0x7d, 0x7e, 0x7f, 0x80, 0xbf, 0xc0, 0xff, 0x40)))
			} else {
				a.Byte(r.Byte())
			}
		}
	}
	for i := 0; i < sh.Reps*sh.Nums; i++ {
		a.Num(r)
	}
	if sh.ToDraw {
		return true
	}
	if sh.ToStyle {
		return false
	}
	return drawing
}

// StylingOpcode returns a random assigned styling opcode.
func StylingOpcode(r *run.Rng) byte {
	switch r.Intn(10) {
	case 0:
		return byte(r.Intn(0x40))
	case 1:
		return byte(0x40 + r.Intn(0x40))
	case 2, 3, 4:
		return byte(0x80 + r.Intn(0x28))
	case 5, 6, 7:
		return byte(0xa8 + r.Intn(0x18))
	case 8:
		return 0xc7
	}
	return byte(0x80 + r.Intn(0x40))
}

// DrawingOpcode returns a random assigned drawing opcode other than end-path.
func DrawingOpcode(r *run.Rng) byte {
	switch r.Intn(8) {
	case 0:
		return byte(0xe6 + r.Intn(4))
	case 1:
		return byte(0xe2 + r.Intn(2))
	case 2:
		// long repeats
		return byte(r.Pick(0x0f, 0x10, 0x1f, 0x2f, 0x30, 0x3f, 0x4f, 0xcf, 0xdf))
	}
	op := byte(r.Intn(0xe0))
	if r.Chance(2, 3) {
		op &^= 0x0c // keep most repeats short
	}
	return op
}

// Metadata appends a metadata section (0, 1 or 2 chunks, MIDs increasing)
// with random content; it is valid except for one viewBox variant in ten that
// carries a non-finite bound.
func (a *Asm) Metadata(r *run.Rng) {
	if r.Chance(1, 24) {
		// one chunk with an identifier that does not exist (invalid), its body and
		// length those of a well-formed viewBox or palette chunk; the values include
		// ones that equal 0 or 1 in their low 8 or 16 bits
		mid := uint32(r.Pick(2, 3, 127, 128, 255, 256, 257, 512, 513, 16383, 16384, 65536, 65537, 1<<24, 1<<24+1, 0x3fffffff))
		var c Asm
		w := 4
		if mid < 16384 && r.Bool() {
			w = 2
		}
		if mid < 128 && r.Bool() {
			w = 1
		}
		c.Nat(mid, w)
		if r.Bool() {
			c.Nat(32, 1)
			c.Nat(32, 1)
			c.Nat(96, 1)
			c.Nat(96, 1)
		} else {
			c.Byte(0x01, 0x28, 0x50) // two 1-byte colours
		}
		a.Nat(1, 1)
		a.Nat(uint32(len(c.B)), 1)
		a.Byte(c.B...)
		return
	}
	hasVB, hasPal := r.Chance(1, 3), r.Chance(1, 3)
	n := 0
	if hasVB {
		n++
	}
	if hasPal {
		n++
	}
	a.Nat(uint32(n), RandWidth(r))
	if hasVB {
		var c Asm
		c.Nat(0, RandWidth(r))
		f4 := func(f float32) uint32 { return math.Float32bits(f) >> 2 }
		switch r.Intn(10) {
		case 0:
			// huge finite bounds of opposite sign: valid, although max-min overflows float32
			big := []float32{3.4028235e38, 2.5e38, 1e38, 3e37}
			c.Nat(f4(-big[r.Intn(4)]), 4)
			c.Nat(f4(-big[r.Intn(4)]), 4)
			c.Nat(f4(big[r.Intn(4)]), 4)
			c.Nat(f4(big[r.Intn(4)]), 4)
		case 1:
			// one non-finite bound (invalid), in any position and of either sign
			k := r.Intn(4)
			for i := 0; i < 4; i++ {
				if i == k {
					c.Nat(f4(float32(r.PickF(math.Inf(1), math.Inf(-1), math.NaN(), -math.NaN()))), 4)
				} else {
					c.Nat(uint32(64+(i/2)*8), 1)
				}
			}
		case 3:
			// special boxes: all zero (1-byte 64 = 0, or 4-byte +-0), the default box stored explicitly
			if r.Bool() {
				for i := 0; i < 4; i++ {
					switch r.Intn(3) {
					case 0:
						c.Nat(64, 1)
					case 1:
						c.Nat(0, 4)
					default:
						c.Nat(f4(float32(math.Copysign(0, -1))), 4)
					}
				}
			} else {
				c.Nat(32, 1)
				c.Nat(32, 1)
				c.Nat(96, 1)
				c.Nat(96, 1)
			}
		case 2:
			// degenerate: min == max
			x, y := r.Intn(100), r.Intn(100)
			c.Nat(uint32(x), 1)
			c.Nat(uint32(y), 1)
			c.Nat(uint32(x), 1)
			c.Nat(uint32(y), 1)
		default:
			// min <= max with small finite numbers in the 1-byte form
			x0, x1 := r.Intn(100), r.Intn(100)
			if x0 > x1 {
				x0, x1 = x1, x0
			}
			y0, y1 := r.Intn(100), r.Intn(100)
			if y0 > y1 {
				y0, y1 = y1, y0
			}
			c.Nat(uint32(x0), 1)
			c.Nat(uint32(y0), 1)
			c.Nat(uint32(x1), 1)
			c.Nat(uint32(y1), 1)
		}
		a.Nat(uint32(len(c.B)), RandWidth(r))
		a.Byte(c.B...)
	}
	if hasPal {
		var c Asm
		c.Nat(1, RandWidth(r))
		cnt := r.Pick(1, 2, 3, 64, r.Range(1, 64))
		format := r.Intn(4)
		n := cnt * (format + 1)
		if r.Chance(1, 8) {
			// a palette cut short, the chunk length agreeing with what is there
			// (invalid); most often the largest one, 64 entries of 4 bytes
			if r.Bool() {
				cnt, format = 64, 3
				n = 256
			}
			n -= r.Pick(1, 2, 4, format+1, r.Range(1, n))
			if n < 0 {
				n = 0
			}
		}
		c.Byte(byte(cnt-1) | byte(format)<<6)
		for i := 0; i < n; i++ {
			c.Byte(r.Byte())
		}
		w := RandWidth(r)
		if len(c.B) >= 128 && w == 1 {
			w = 2
		}
		a.Nat(uint32(len(c.B)), w)
		a.Byte(c.B...)
	}
}

// MetadataRepeated writes a metadata section of two or three well-formed chunks
// whose identifiers repeat or come out of order (the decoder accepts that; what
// it means is a don't-care of the grammar checks, but Decode and Disassemble
// must still tell the same story about it).
func (a *Asm) MetadataRepeated(r *run.Rng) {
	n := r.Range(2, 3)
	a.Nat(uint32(n), 1)
	for i := 0; i < n; i++ {
		var c Asm
		if r.Chance(1, 3) {
			c.Nat(0, 1)
			x0, y0 := r.Intn(60), r.Intn(60)
			x1, y1 := x0+r.Intn(60), y0+r.Intn(60)
			if r.Chance(1, 4) {
				x0, x1 = x1+1, x0 // an inverted box: this chunk is invalid whatever follows
			}
			c.Nat(uint32(x0), 1)
			c.Nat(uint32(y0), 1)
			c.Nat(uint32(x1), 1)
			c.Nat(uint32(y1), 1)
		} else {
			c.Nat(1, 1)
			cnt, format := r.Range(1, 8), r.Intn(4)
			c.Byte(byte(cnt-1) | byte(format)<<6)
			for k := 0; k < cnt*(format+1); k++ {
				c.Byte(r.Byte())
			}
		}
		a.Nat(uint32(len(c.B)), 1)
		a.Byte(c.B...)
	}
}

// Stream returns a structured random FFV0 stream: valid magic and metadata,
// then nInstr instructions using every opcode and non-canonical number forms.
// With reserved=true a reserved opcode may be inserted; with cut>0 that many
// bytes are removed from the end.
func Stream(r *run.Rng, nInstr int, reserved bool, cut int) []byte {
	var a Asm
	a.Magic()
	a.Metadata(r)
	drawing := false
	for i := 0; i < nInstr; i++ {
		var op byte
		if reserved && r.Chance(1, 40) {
			op = byte(r.Pick(0xc8, 0xd0, 0xff, 0xe0, 0xe4, 0xe5, 0xea, 0xf0))
			a.Byte(op)
			continue
		}
		if !drawing {
			if r.Chance(1, 3) {
				op = byte(0xc0 + r.Intn(7))
			} else {
				op = StylingOpcode(r)
			}
		} else {
			if r.Chance(1, 4) {
				op = 0xe1
			} else {
				op = DrawingOpcode(r)
			}
		}
		drawing = a.Instr(r, drawing, op)
	}
	if drawing && r.Chance(3, 4) {
		a.Byte(0xe1)
	}
	b := a.B
	if cut > 0 && cut < len(b) {
		b = b[:len(b)-cut]
	}
	return b
}

// Mutate returns a mutated copy of a corpus file: truncation, byte
// substitution, insertion, deletion or a splice with another file.
func Mutate(r *run.Rng, b []byte, other []byte) []byte {
	out := append([]byte(nil), b...)
	switch r.Intn(6) {
	case 0:
		return out[:r.Intn(len(out)+1)]
	case 1, 2:
		if len(out) > 0 {
			i := r.Intn(len(out))
			switch r.Intn(5) {
			case 0:
				out[i] ^= 1
			case 1:
				out[i] ^= 0x80
			case 2:
				out[i] = 0
			case 3:
				out[i] = 0xff
			default:
				out[i] = r.Byte()
			}
		}
		return out
	case 3:
		i := r.Intn(len(out) + 1)
		ins := r.Bytes(r.Range(1, 4))
		return append(out[:i:i], append(ins, b[i:]...)...)
	case 4:
		if len(out) > 1 {
			i := r.Intn(len(out) - 1)
			n := r.Range(1, 4)
			if i+n > len(out) {
				n = len(out) - i
			}
			return append(out[:i:i], b[i+n:]...)
		}
		return out
	}
	if len(other) > 8 && len(out) > 8 {
		i := r.Range(5, len(out)-1)
		j := r.Range(5, len(other)-1)
		return append(out[:i:i], other[j:]...)
	}
	return out
}
