package gen

import (
	"fmt"
	"math"
	"strconv"
	"strings"

	"ivgverif/internal/run"
)

// PathOp is one operation of an abstract SVG path: the verb that applies (an
// implicit repeat after M/m is already demoted to L/l) and its numbers as
// spelled.
type PathOp struct {
	Verb byte
	N    []float64
}

// PathNArgs is the operand count of each path verb.
var PathNArgs = map[byte]int{'M': 2, 'm': 2, 'L': 2, 'l': 2, 'H': 1, 'h': 1, 'V': 1, 'v': 1, 'C': 6, 'c': 6, 'S': 4, 's': 4, 'Q': 4, 'q': 4, 'T': 2, 't': 2, 'A': 7, 'a': 7}

// spell returns a number and one of its decimal spellings.
func spell(r *run.Rng, flag bool, plus bool) (float64, string) {
	if flag {
		v := r.Intn(2)
		return float64(v), strconv.Itoa(v)
	}
	var s string
	switch r.Intn(7) {
	case 0:
		s = strconv.Itoa(r.Intn(100))
	case 1:
		s = fmt.Sprintf("%d.%d", r.Intn(50), r.Intn(1000))
	case 2:
		s = fmt.Sprintf(".%d", r.Intn(1000))
	case 3:
		s = fmt.Sprintf("%d.%02d0", r.Intn(50), r.Intn(100))
	case 4:
		s = fmt.Sprintf("%d.", r.Intn(50)) + strconv.Itoa(r.Intn(10))
	case 5:
		s = strconv.Itoa(r.Intn(10))
	default:
		s = fmt.Sprintf("%d.%03d", r.Intn(24), r.Intn(1000))
	}
	switch r.Intn(4) {
	case 0:
		s = "-" + s
	case 1:
		if plus && r.Chance(1, 3) {
			s = "+" + s
		}
	}
	if plus && r.Chance(1, 400) {
		// a number beyond the float32 range, written out digit by digit (there are no
		// exponents in the dialect): it means an infinite coordinate
		s = strconv.Itoa(r.Range(35, 99)) + strings.Repeat("0", r.Range(37, 44))
		if r.Bool() {
			s = "-" + s
		}
		return math.Inf(map[bool]int{true: -1, false: 1}[s[0] == '-']), s
	}
	v, _ := strconv.ParseFloat(s, 64)
	return v, s
}

// joinGen joins numbers in the generator dialect: spaces, commas, or nothing
// where the next number starts with a sign, or with a dot after a number that
// already has one.
func joinGen(r *run.Rng, sp []string) string {
	var b strings.Builder
	for i, s := range sp {
		if i > 0 {
			prev := sp[i-1]
			canOmit := s[0] == '-' || s[0] == '+' || (s[0] == '.' && strings.Contains(prev, "."))
			if !(canOmit && r.Bool()) {
				b.WriteString([]string{",", ", ", "  ", " ", " ", " , "}[r.Intn(6)])
			}
		}
		b.WriteString(s)
	}
	return b.String()
}

// joinConv joins numbers in the converter dialect: spaces, optional before a
// minus sign.
func joinConv(r *run.Rng, sp []string) string {
	var b strings.Builder
	for i, s := range sp {
		if i > 0 {
			if !(s[0] == '-' && r.Bool()) {
				b.WriteString([]string{" ", " ", "  "}[r.Intn(3)])
			}
		}
		b.WriteString(s)
	}
	return b.String()
}

// PathString generates a path string in the generator dialect (generator =
// true) or in the Material Design converter dialect, together with the
// operations it spells. The strings stay inside the dialects as delimited by
// property C20.
func PathString(r *run.Rng, generator bool) (string, []PathOp) {
	verbs := "LlHhVvCcSsQqTt"
	if generator {
		verbs += "AaAa"
	}
	var ops []PathOp
	var b strings.Builder
	first := byte('M')
	if generator && r.Chance(1, 3) {
		first = 'm'
	}
	nSub := r.Range(1, 3)
	for s := 0; s < nSub; s++ {
		mv := first
		if s > 0 {
			mv = "Mm"[r.Intn(2)]
		}
		type seg struct {
			verb   byte
			groups int
		}
		segs := []seg{{mv, 1}}
		if generator && r.Chance(1, 3) {
			segs[0].groups = r.Range(1, 4) // implicit lines after a move
		}
		for k := r.Intn(7); k > 0; k-- {
			g := 1
			if r.Chance(1, 3) {
				g = r.Range(1, 4)
			}
			segs = append(segs, seg{verbs[r.Intn(len(verbs))], g})
		}
		for _, sg := range segs {
			if !generator && b.Len() > 0 && r.Chance(1, 3) {
				b.WriteString(" ")
			}
			b.WriteByte(sg.verb)
			var all []string
			for g := 0; g < sg.groups; g++ {
				p := PathOp{Verb: sg.verb}
				if g > 0 && (sg.verb == 'M' || sg.verb == 'm') {
					p.Verb = map[byte]byte{'M': 'L', 'm': 'l'}[sg.verb]
				}
				n := PathNArgs[sg.verb]
				for i := 0; i < n; i++ {
					v, sp := spell(r, n == 7 && (i == 3 || i == 4), generator)
					if n == 7 && i == 2 && r.Chance(1, 3) {
						// an arc's rotation in degrees is any number: quarter and full turns, more than a full turn
						d := r.Pick(90, 180, 270, 359, 360, 361, 450, 540, 720, r.Range(100, 800))
						sp = strconv.Itoa(d)
						if r.Chance(1, 3) {
							sp = "-" + sp
						}
						v, _ = strconv.ParseFloat(sp, 64)
					}
					p.N = append(p.N, v)
					all = append(all, sp)
				}
				ops = append(ops, p)
			}
			if generator {
				b.WriteString(joinGen(r, all))
			} else {
				b.WriteString(joinConv(r, all))
			}
		}
		if s+1 < nSub {
			if generator {
				b.WriteString("z")
			} else {
				b.WriteString([]string{"z", "Z", "z ", " z"}[r.Intn(4)])
			}
		}
	}
	if generator || r.Bool() {
		b.WriteString("z")
	}
	return b.String(), ops
}
