// Package gen holds the workload generators: numbers of every float class,
// colours of every kind, well-formed Destination programs, and a hand-written
// FFV0 stream assembler that can emit forms the library's encoder never does.
package gen

import (
	"math"

	"ivgverif/internal/run"
)

func fb(u uint32) float32 { return math.Float32frombits(u) }

// Nudge returns f moved by d units in the last place (bit pattern arithmetic).
func Nudge(f float32, d int) float32 {
	u := math.Float32bits(f)
	if f == 0 && d < 0 {
		return -fb(uint32(-d))
	}
	return fb(uint32(int64(u) + int64(d)))
}

// Boundaries are the values the number codecs compare against, plus values
// next to them.
var Boundaries = func() []float32 {
	base := []float32{0, 1, -1, 63, 64, 65, -63, -64, -65, 127, 128, 129, -127, -128, -129, 127.984375, -127.984375, 127.9921875,
		1.0 / 64, -1.0 / 64, 1.0 / 128, 63.984375, -64.015625, 0.5, 0.25, 0.0078124995,
		16383, 16384, 16385, 8191, 8192, 126, 15119, 15120, 15121,
		1.0 / 120, 119.0 / 120, 1.0 / 15120, 15119.0 / 15120, 7560.0 / 15120, 126.0 / 15120, 125.0 / 15120,
		3.4028235e38, -3.4028235e38, 1e19, -1e19, 1e-30, 1.1754944e-38, 1e-45, -1e-45,
		2147483648, 4294967296, -2147483648, 16777216, 16777217}
	var out []float32
	for _, b := range base {
		for d := -3; d <= 3; d++ {
			out = append(out, Nudge(b, d))
		}
	}
	out = append(out, fb(0x80000000), fb(0x7f800000), fb(0xff800000), fb(0x7fc00000), fb(0xffc00000), fb(0x7f800001), fb(0x7fffffff))
	// mantissas near carry at several exponents
	for _, e := range []uint32{0x3f000000, 0x3f800000, 0x42800000, 0x43000000, 0x46800000, 0x7f000000, 0x00800000, 0x00000000, 0xbf800000, 0xc3000000} {
		for _, m := range []uint32{0x7ffffc, 0x7ffffd, 0x7ffffe, 0x7fffff, 0x000000, 0x000001, 0x000002, 0x000003} {
			out = append(out, fb(e|m))
		}
	}
	return out
}()

// Any returns a float32 from the class table: boundaries, short-form exact
// values, moderate values, and uniformly random bit patterns.
func Any(r *run.Rng) float32 {
	switch r.Intn(12) {
	case 0:
		return Boundaries[r.Intn(len(Boundaries))]
	case 1:
		return float32(r.Range(-70, 70))
	case 2:
		return float32(r.Range(-130*64, 130*64)) / 64
	case 3:
		return float32(r.Range(0, 121)) / 120
	case 4:
		return float32(r.Range(0, 15121)) / 15120
	case 5:
		return float32(r.Range(0, 17000))
	case 6:
		return fb(r.U32())
	case 7:
		return float32(r.Uniform(-150, 150))
	case 8:
		return float32(r.Uniform(-1.5, 1.5))
	case 9:
		// boundary-sized value with random low mantissa bits
		return fb(math.Float32bits(Boundaries[r.Intn(len(Boundaries))]) ^ uint32(r.Intn(8)))
	case 10:
		return float32(r.Uniform(-1, 1) * r.LogUniform(1e-6, 1e9))
	}
	return float32(r.Uniform(-40, 40))
}

// Finite returns a finite value from the class table.
func Finite(r *run.Rng) float32 {
	for {
		f := Any(r)
		if !math.IsNaN(float64(f)) && !math.IsInf(float64(f), 0) {
			return f
		}
	}
}

// Grid64 returns a multiple of 1/64 in [-128,128): survives low-resolution
// coordinate encoding exactly.
func Grid64(r *run.Rng) float32 {
	if r.Chance(1, 3) {
		return float32(r.Range(-64, 63))
	}
	return float32(r.Range(-128*64, 128*64-1)) / 64
}

// Moderate returns a coordinate of moderate magnitude with arbitrary
// mantissa.
func Moderate(r *run.Rng, lim float64) float32 { return float32(r.Uniform(-lim, lim)) }

// Low2Zero returns a float32 whose two low mantissa bits are zero (survives
// the 30-bit float form exactly).
func Low2Zero(r *run.Rng) float32 {
	f := Finite(r)
	return fb(math.Float32bits(f) &^ 3)
}

// ZTOExact reports whether f survives the zero-to-one encoding exactly under
// the reference codec: it is k/120, k/15120 with a stable quotient, or has two
// zero low bits.
func StableZTO(k int) bool {
	f := float32(k) / 15120 // float32 division: correctly rounded quotient
	p := f * 15120
	u := uint32(p)
	return float32(u) == p && int(u) == k
}
