package gen

import (
	"image/color"

	"ivgverif/internal/run"
)

// RawColor is a color.Color implementation returning arbitrary RGBA() values
// (also ones no standard model would produce).
type RawColor struct{ R, G, B, A uint32 }

func (c RawColor) RGBA() (r, g, b, a uint32) { return c.R, c.G, c.B, c.A }

// AnyColorModel returns a color.Color of a PRNG-chosen model.
func AnyColorModel(r *run.Rng) color.Color {
	switch r.Intn(9) {
	case 0:
		return Premul(r)
	case 1:
		return color.NRGBA{r.Byte(), r.Byte(), r.Byte(), r.Byte()}
	case 2:
		a := uint16(r.U32())
		return color.RGBA64{uint16(r.Intn(int(a) + 1)), uint16(r.Intn(int(a) + 1)), uint16(r.Intn(int(a) + 1)), a}
	case 3:
		return color.NRGBA64{uint16(r.U32()), uint16(r.U32()), uint16(r.U32()), uint16(r.U32())}
	case 4:
		return color.Gray{r.Byte()}
	case 5:
		return color.Alpha16{uint16(r.U32())}
	case 6:
		return color.Gray16{uint16(r.U32())}
	case 7:
		// custom implementation, premultiplied 16-bit
		a := uint32(r.Intn(0x10000))
		return RawColor{uint32(r.Intn(int(a) + 1)), uint32(r.Intn(int(a) + 1)), uint32(r.Intn(int(a) + 1)), a}
	}
	return color.RGBA{r.Byte(), r.Byte(), r.Byte(), 0xff}
}

// To8 is what a conversion through RGBA()>>8 yields.
func To8(c color.Color) color.RGBA {
	r, g, b, a := c.RGBA()
	return color.RGBA{uint8(r >> 8), uint8(g >> 8), uint8(b >> 8), uint8(a >> 8)}
}
