package gen

import (
	"image/color"
	"math"

	"github.com/reactivego/ivg"

	"ivgverif/internal/rec"
	"ivgverif/internal/run"
)

// DrawVerbs are the 20 drawing verbs that may appear inside a path (besides
// ClosePathEndPath).
var DrawVerbs = []rec.Kind{
	rec.KClosePathAbsMoveTo, rec.KClosePathRelMoveTo,
	rec.KAbsHLineTo, rec.KRelHLineTo, rec.KAbsVLineTo, rec.KRelVLineTo, rec.KAbsLineTo, rec.KRelLineTo,
	rec.KAbsSmoothQuadTo, rec.KRelSmoothQuadTo, rec.KAbsQuadTo, rec.KRelQuadTo,
	rec.KAbsSmoothCubeTo, rec.KRelSmoothCubeTo, rec.KAbsCubeTo, rec.KRelCubeTo,
	rec.KAbsArcTo, rec.KRelArcTo,
}

// NonArcVerbs are DrawVerbs without the two arc verbs.
var NonArcVerbs = DrawVerbs[:16]

// RunLengths straddle the 16/32 repeat-count limits of the drawing opcodes.
var RunLengths = []int{1, 1, 1, 2, 3, 15, 16, 17, 31, 32, 33, 40}

// Opts steers Program.
type Opts struct {
	Coord    func(r *run.Rng) float32 // path coordinates
	RegNum   func(r *run.Rng) float32 // NREG and LOD values
	Angle    func(r *run.Rng) float32 // arc rotation
	Verbs    []rec.Kind
	MaxPaths int
	MaxRuns  int // verb runs per path
	Styling  bool
	ViewBox  *ivg.ViewBox
	Palette  *[64]color.RGBA
	NoReset  bool
	ShortRun bool // keep run lengths small
	// last is the previous styling call: redundant calls (the same call again,
	// or one that restates the reset defaults) are generated on purpose, since
	// "nothing changes, skip it" shortcuts are a classic source of mistakes.
	last *rec.Op
}

// ViewBox returns a finite, non-inverted viewBox with numbers of many classes.
func ViewBox(r *run.Rng) ivg.ViewBox {
	switch r.Intn(6) {
	case 0:
		vb := ivg.DefaultViewBox
		if r.Chance(1, 2) {
			// the default with one coordinate changed (still min <= max)
			d := float32(r.Pick(1, 16, 32, 64, 96)) / float32(r.Pick(1, 1, 2, 64))
			switch r.Intn(4) {
			case 0:
				vb.MinX -= d
			case 1:
				vb.MinY -= d
			case 2:
				vb.MaxX += d
			default:
				vb.MaxY += d
			}
		}
		return vb
	case 1:
		return ivg.ViewBox{MinX: 0, MinY: 0, MaxX: 48, MaxY: 48}
	case 2:
		x, y := float32(r.Range(-64, 40)), float32(r.Range(-64, 40))
		return ivg.ViewBox{MinX: x, MinY: y, MaxX: x + float32(r.Range(1, 100)), MaxY: y + float32(r.Range(1, 100))}
	case 3:
		x, y := Grid64(r), Grid64(r)
		return ivg.ViewBox{MinX: x, MinY: y, MaxX: x + float32(r.Range(1, 6400))/64, MaxY: y + float32(r.Range(1, 6400))/64}
	}
	for {
		a, b, c, d := Finite(r), Finite(r), Finite(r), Finite(r)
		if a > c {
			a, c = c, a
		}
		if b > d {
			b, d = d, b
		}
		if a == c || b == d {
			continue
		}
		// Sizes must stay finite for the renderer's scale.
		if math.IsInf(float64(c-a), 0) || math.IsInf(float64(d-b), 0) {
			continue
		}
		return ivg.ViewBox{MinX: a, MinY: b, MaxX: c, MaxY: d}
	}
}

// StylingOp returns a random legal styling call.
func StylingOp(r *run.Rng, o *Opts) rec.Op {
	switch r.Intn(16) {
	case 0:
		if o.last != nil {
			return *o.last // exactly the previous styling call again
		}
	case 1:
		// restate a reset default, or the zero value of the state
		switch r.Intn(4) {
		case 0:
			return rec.Op{K: rec.KSetLOD, F: [6]float32{0, float32(math.Inf(1))}}
		case 3:
			return rec.Op{K: rec.KSetLOD, F: [6]float32{0, 0}} // what a zero-value object holds before any Reset
		case 1:
			return rec.Op{K: rec.KSetCSel, Sel: 0}
		default:
			return rec.Op{K: rec.KSetNSel, Sel: 0}
		}
	}
	op := stylingOp(r, o)
	o.last = &op
	return op
}

func stylingOp(r *run.Rng, o *Opts) rec.Op {
	adjIncr := func() (uint8, bool) {
		if r.Chance(1, 3) {
			return 0, true
		}
		return uint8(r.Intn(7)), false
	}
	switch r.Intn(10) {
	case 0:
		return rec.Op{K: rec.KSetCSel, Sel: uint8(r.Pick(0, 1, 62, 63, r.Intn(64), r.Intn(64), r.Intn(256), 64+63, 128, 255))}
	case 1:
		return rec.Op{K: rec.KSetNSel, Sel: uint8(r.Pick(0, 1, 62, 63, r.Intn(64), r.Intn(64), r.Intn(256), 64+63, 128, 255))}
	case 2, 3, 4, 5:
		adj, incr := adjIncr()
		col := Color(r)
		if o.Palette != nil && r.Chance(1, 6) {
			// a direct colour that happens to equal an entry of the suggested palette
			// is still a direct colour (it does not follow a palette override)
			col = ivg.RGBAColor(o.Palette[r.Intn(64)])
		}
		return rec.Op{K: rec.KSetCReg, Adj: adj, Incr: incr, Col: col}
	case 6, 7, 8:
		adj, incr := adjIncr()
		return rec.Op{K: rec.KSetNReg, Adj: adj, Incr: incr, F: [6]float32{o.RegNum(r)}}
	}
	return rec.Op{K: rec.KSetLOD, F: [6]float32{o.RegNum(r), o.RegNum(r)}}
}

// DrawOp returns a drawing call of kind k with generated operands.
func DrawOp(r *run.Rng, k rec.Kind, o *Opts) rec.Op {
	op := rec.Op{K: k}
	if k == rec.KAbsArcTo || k == rec.KRelArcTo {
		op.F = [6]float32{o.Coord(r), o.Coord(r), o.Angle(r), o.Coord(r), o.Coord(r)}
		op.LargeArc, op.Sweep = r.Bool(), r.Bool()
		return op
	}
	for i := 0; i < k.NArgs(); i++ {
		op.F[i] = o.Coord(r)
	}
	return op
}

// Program returns a well-formed Destination call sequence: Reset, then
// styling calls and complete paths.
func Program(r *run.Rng, o Opts) []rec.Op {
	if o.Coord == nil {
		o.Coord = Any
	}
	if o.RegNum == nil {
		o.RegNum = Any
	}
	if o.Angle == nil {
		o.Angle = Any
	}
	if o.Verbs == nil {
		o.Verbs = DrawVerbs
	}
	if o.MaxPaths == 0 {
		o.MaxPaths = 4
	}
	if o.MaxRuns == 0 {
		o.MaxRuns = 6
	}
	var ops []rec.Op
	if !o.NoReset {
		vb := ivg.DefaultViewBox
		pal := ivg.DefaultPalette
		if o.ViewBox != nil {
			vb = *o.ViewBox
		}
		if o.Palette != nil {
			pal = *o.Palette
		}
		ops = append(ops, rec.Op{K: rec.KReset, VB: vb, Pal: &pal})
	}
	np := r.Range(0, o.MaxPaths)
	for p := 0; p < np; p++ {
		if o.Styling {
			for n := r.Intn(6); n > 0; n-- {
				ops = append(ops, StylingOp(r, &o))
			}
		}
		ops = append(ops, rec.Op{K: rec.KStartPath, Adj: uint8(r.Intn(7)), F: [6]float32{o.Coord(r), o.Coord(r)}})
		for n := r.Range(0, o.MaxRuns); n > 0; n-- {
			k := o.Verbs[r.Intn(len(o.Verbs))]
			l := RunLengths[r.Intn(len(RunLengths))]
			if o.ShortRun {
				l = r.Range(1, 3)
			} else if r.Chance(1, 150) {
				l = r.Pick(255, 256, 257, 300, 512, 513) // around the widths of 8-bit counters
			}
			for ; l > 0; l-- {
				if r.Chance(1, 16) && len(ops) > 0 && ops[len(ops)-1].K == k {
					// the very same operation again (a zero-length segment when absolute)
					ops = append(ops, ops[len(ops)-1])
					continue
				}
				ops = append(ops, DrawOp(r, k, &o))
			}
		}
		ops = append(ops, rec.Op{K: rec.KClosePathEndPath})
	}
	if o.Styling {
		for n := r.Intn(3); n > 0; n-- {
			ops = append(ops, StylingOp(r, &o))
		}
	}
	return ops
}
