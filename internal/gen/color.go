package gen

import (
	"image/color"

	"github.com/reactivego/ivg"

	"ivgverif/internal/run"
)

var chanClasses = []uint8{0x00, 0x01, 0x11, 0x3f, 0x40, 0x41, 0x55, 0x7f, 0x80, 0x81, 0x88, 0xbf, 0xc0, 0xc1, 0xee, 0xfe, 0xff, 0x22}

// ChanClasses are the channel values on the boundaries of the colour forms.
func ChanClasses() []uint8 { return chanClasses }

// Premul returns a valid premultiplied colour; classes cover 1/2/3/4-byte
// encodable values.
func Premul(r *run.Rng) color.RGBA {
	switch r.Intn(8) {
	case 0: // 1-byte encodable opaque
		t := [5]uint8{0, 0x40, 0x80, 0xc0, 0xff}
		return color.RGBA{t[r.Intn(5)], t[r.Intn(5)], t[r.Intn(5)], 0xff}
	case 1: // the translucent 1-byte specials and the 0x40 grid (D1)
		g := [5]uint8{0, 0x40, 0x80, 0xc0, 0xff}
		a := g[r.Intn(5)]
		c := color.RGBA{g[r.Intn(5)], g[r.Intn(5)], g[r.Intn(5)], a}
		if c.R > a {
			c.R = a
		}
		if c.G > a {
			c.G = a
		}
		if c.B > a {
			c.B = a
		}
		return c
	case 2: // 2-byte encodable
		a := uint8(r.Intn(16))
		return color.RGBA{0x11 * uint8(r.Intn(int(a)+1)), 0x11 * uint8(r.Intn(int(a)+1)), 0x11 * uint8(r.Intn(int(a)+1)), 0x11 * a}
	case 3: // opaque, 3-byte
		return color.RGBA{r.Byte(), r.Byte(), r.Byte(), 0xff}
	case 4:
		return color.RGBA{}
	}
	a := chanClasses[r.Intn(len(chanClasses))]
	if r.Bool() {
		a = r.Byte()
	}
	if a == 0 {
		return color.RGBA{}
	}
	return color.RGBA{uint8(r.Intn(int(a) + 1)), uint8(r.Intn(int(a) + 1)), uint8(r.Intn(int(a) + 1)), a}
}

// AnyRGBA returns any RGBA value, including non-premultiplied and
// gradient-looking ones.
func AnyRGBA(r *run.Rng) color.RGBA {
	switch r.Intn(4) {
	case 0:
		return Premul(r)
	case 1:
		return color.RGBA{chanClasses[r.Intn(len(chanClasses))], chanClasses[r.Intn(len(chanClasses))], chanClasses[r.Intn(len(chanClasses))], chanClasses[r.Intn(len(chanClasses))]}
	case 2:
		return GradientValue(r)
	}
	return color.RGBA{r.Byte(), r.Byte(), r.Byte(), r.Byte()}
}

// GradientValue returns an RGBA value that encodes a gradient (alpha 0, blue
// >= 0x80), built by hand from the specification's bit layout.
func GradientValue(r *run.Rng) color.RGBA {
	nstops := uint8(r.Pick(0, 1, 2, 2, 3, 3, 5, 10, 58, 63))
	cbase, nbase := uint8(r.Intn(64)), uint8(r.Intn(64))
	spread, shape := uint8(r.Intn(4)), uint8(r.Intn(2))
	red := nstops
	if r.Chance(1, 4) {
		red |= uint8(r.Intn(4)) << 6 // reserved high bits of red
	}
	return color.RGBA{R: red, G: cbase | spread<<6, B: nbase | 0x80 | shape<<6, A: 0}
}

// MakeGradientValue builds the gradient register value from its fields.
func MakeGradientValue(cbase, nbase, shape, spread, nstops int) color.RGBA {
	return color.RGBA{R: uint8(nstops & 0x3f), G: uint8(cbase&0x3f) | uint8(spread&3)<<6, B: uint8(nbase&0x3f) | 0x80 | uint8(shape&1)<<6, A: 0}
}

// Color returns an ivg.Color of any kind.
func Color(r *run.Rng) ivg.Color {
	switch r.Intn(8) {
	case 0, 1:
		return ivg.RGBAColor(Premul(r))
	case 2:
		return ivg.RGBAColor(AnyRGBA(r))
	case 3:
		// the constructors take any uint8 and reduce it modulo 64
		return ivg.PaletteIndexColor(r.Byte())
	case 4:
		return ivg.CRegColor(r.Byte())
	case 5:
		return ivg.RGBAColor(GradientValue(r))
	}
	t := r.Byte()
	if r.Chance(1, 4) {
		t = uint8(r.Pick(0, 1, 127, 128, 254, 255))
	}
	return ivg.BlendColor(t, r.Byte(), r.Byte())
}

// Palette returns a custom palette of valid premultiplied colours with n
// explicit entries followed by opaque black; forms mixes 1/2/3/4 byte
// encodable colours.
func Palette(r *run.Rng) [64]color.RGBA {
	pal := ivg.DefaultPalette
	if r.Chance(1, 6) {
		return pal
	}
	if r.Chance(1, 12) {
		// 64 times the same colour: the zero value of the array (all transparent),
		// or another uniform palette
		var u [64]color.RGBA
		k := []color.RGBA{{}, {}, {0xff, 0xff, 0xff, 0xff}, {0x80, 0x80, 0x80, 0x80}, {0x11, 0x22, 0x33, 0x44}}[r.Intn(5)]
		for i := range u {
			u[i] = k
		}
		return u
	}
	n := r.Pick(1, 1, 2, 3, 8, 63, 64, r.Range(1, 64))
	mode := r.Intn(5)
	for i := 0; i < n; i++ {
		switch mode {
		case 0: // all 1-byte encodable
			t := [5]uint8{0, 0x40, 0x80, 0xc0, 0xff}
			switch r.Intn(8) {
			case 0:
				pal[i] = color.RGBA{0xc0, 0xc0, 0xc0, 0xc0}
			case 1:
				pal[i] = color.RGBA{0x80, 0x80, 0x80, 0x80}
			case 2:
				pal[i] = color.RGBA{}
			default:
				pal[i] = color.RGBA{t[r.Intn(5)], t[r.Intn(5)], t[r.Intn(5)], 0xff}
			}
		case 1: // all 2-byte encodable
			a := uint8(r.Intn(16))
			pal[i] = color.RGBA{0x11 * uint8(r.Intn(int(a)+1)), 0x11 * uint8(r.Intn(int(a)+1)), 0x11 * uint8(r.Intn(int(a)+1)), 0x11 * a}
		case 2: // all opaque
			pal[i] = color.RGBA{r.Byte(), r.Byte(), r.Byte(), 0xff}
		default:
			pal[i] = Premul(r)
		}
	}
	return pal
}

// Grid40 returns the i-th colour (0 <= i < 625) of the "every channel a
// multiple of 0x40 or 0xff" grid, clamped to premultiplied form.
func Grid40(i int) color.RGBA {
	g := [5]uint8{0, 0x40, 0x80, 0xc0, 0xff}
	c := color.RGBA{g[i%5], g[(i/5)%5], g[(i/25)%5], g[(i/125)%5]}
	if c.R > c.A {
		c.R = c.A
	}
	if c.G > c.A {
		c.G = c.A
	}
	if c.B > c.A {
		c.B = c.A
	}
	return c
}
