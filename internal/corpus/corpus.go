// Package corpus loads real IconVG graphics from the repository under test at
// run time: testdata/*.ivg and the Material Design byte slices in
// cmd/mdicons/test/data.go. Nothing is copied into /verif.
package corpus

import (
	"os"
	"path/filepath"
	"sort"
	"strings"
	"sync"

	"ivgverif/internal/run"
)

// File is one corpus graphic.
type File struct {
	Name string
	Data []byte
}

var (
	once  sync.Once
	files []File
	small []File
)

func hexv(c byte) int {
	switch {
	case c >= '0' && c <= '9':
		return int(c - '0')
	case c >= 'a' && c <= 'f':
		return int(c-'a') + 10
	case c >= 'A' && c <= 'F':
		return int(c-'A') + 10
	}
	return -1
}

func load() {
	repo := run.RepoDir()
	names, _ := filepath.Glob(filepath.Join(repo, "testdata", "*.ivg"))
	sort.Strings(names)
	for _, n := range names {
		b, err := os.ReadFile(n)
		if err == nil {
			files = append(files, File{Name: "testdata/" + filepath.Base(n), Data: b})
		}
	}
	src, err := os.ReadFile(filepath.Join(repo, "cmd", "mdicons", "test", "data.go"))
	if err == nil {
		s := string(src)
		for {
			i := strings.Index(s, "\nvar ")
			if i < 0 {
				break
			}
			s = s[i+5:]
			j := strings.Index(s, " = []byte{")
			if j < 0 || j > 200 {
				continue
			}
			name := s[:j]
			s = s[j+len(" = []byte{"):]
			end := strings.Index(s, "}")
			if end < 0 {
				break
			}
			body := s[:end]
			s = s[end:]
			var data []byte
			for k := 0; k+3 < len(body); k++ {
				if body[k] == '0' && body[k+1] == 'x' {
					hi, lo := hexv(body[k+2]), hexv(body[k+3])
					if hi >= 0 && lo >= 0 {
						data = append(data, byte(hi<<4|lo))
						k += 3
					}
				}
			}
			if len(data) >= 5 {
				files = append(files, File{Name: "mdicons/" + name, Data: data})
			}
		}
	}
	for _, f := range files {
		if len(f.Data) <= 160 {
			small = append(small, f)
		}
	}
}

// Files returns the whole corpus (deterministic order).
func Files() []File {
	once.Do(load)
	return files
}

// Small returns the corpus files of at most 160 bytes.
func Small() []File {
	once.Do(load)
	return small
}

// TotalBytes is the number of bytes in the corpus.
func TotalBytes() int {
	n := 0
	for _, f := range Files() {
		n += len(f.Data)
	}
	return n
}
