module ivgverif

go 1.21

require (
	github.com/reactivego/ivg v0.0.0
	golang.org/x/image v0.7.0
)

replace github.com/reactivego/ivg => /repo
